package main

// C03 table obligations: for every registered terminal description the REAL prepareKeys is evaluated
// (EV mode) and the resulting key table is checked against the description and the xterm modifier formula.

import (
	"fmt"
	"go/types"
	"math/big"
	"regexp"
	"sort"
	"strconv"
	"strings"
)

type keyEnt struct {
	Seq string
	Key int64
	Mod int64
}

// buildKeyTable runs prepareKeys on a fresh tScreen for the entry and returns the table.
func buildKeyTable(db *TermDB, te *TermEntry) (map[string]keyEnt, *State, PtrV) {
	c := db.Ev.C
	e := c.Eng
	st := db.St.clone()
	st.Frames = nil
	sp := e.SPkgs[modPath]
	tsT := sp.Type("tScreen").Type()
	tobj := c.newObject("tscreen", tsT)
	tv := c.zeroValue(st, tsT).(*StructV)
	// private copy of the description (prepareKeys sets XTermLike on it)
	tiObj := c.newObject("ti."+te.Name, te.Val.Typ)
	st.Mem[tiObj] = te.Val
	stt := under(tsT).(*types.Struct)
	nf := &StructV{Typ: tv.Typ, F: append([]Value(nil), tv.F...)}
	for i := 0; i < stt.NumFields(); i++ {
		switch stt.Field(i).Name() {
		case "ti":
			nf.F[i] = PtrV{Obj: tiObj}
		case "keyexist", "keycodes":
			mo := c.newObject(stt.Field(i).Name(), stt.Field(i).Type())
			st.Mem[mo] = &MapObj{}
			nf.F[i] = MapV{Obj: mo, Typ: under(stt.Field(i).Type()).(*types.Map)}
		}
	}
	st.Mem[tobj] = nf
	fn := e.FindFunc(modPath + ".(*tScreen).prepareKeys")
	if fn == nil {
		panic(VerErr{"UNDECIDED: (*tScreen).prepareKeys not found"})
	}
	tp := PtrV{Obj: tobj}
	paths, err := db.Ev.Call(st, fn, []Value{tp})
	if err != nil || len(paths) != 1 {
		panic(VerErr{fmt.Sprintf("evaluating prepareKeys for %s: %v (%d paths)", te.Name, err, len(paths))})
	}
	fs := paths[0].St
	fs.Frames = nil
	tval := c.mem(fs, tobj).(*StructV)
	tab := map[string]keyEnt{}
	for i := 0; i < stt.NumFields(); i++ {
		if stt.Field(i).Name() == "keycodes" {
			mo := c.mapObj(fs, tval.F[i].(MapV))
			for _, en := range mo.Entries {
				k := *en.K.(StrV).Conc
				kc := c.mem(fs, en.V.(PtrV).Obj).(*StructV)
				tab[k] = keyEnt{Seq: k, Key: termInt(kc.F[0]), Mod: termInt(kc.F[1])}
			}
		}
	}
	return tab, fs, tp
}

func termInt(v Value) int64 {
	t := v.(*Term)
	if t.Sort.Kind == SBV {
		return bvSigned(t.Val, t.Sort.Bits).Int64()
	}
	return t.Val.Int64()
}

func (e *Engine) constInt(pkg, name string) int64 {
	obj := e.PkgBy[pkg].Types.Scope().Lookup(name)
	if obj == nil {
		panic(VerErr{"UNDECIDED: constant " + name + " not found"})
	}
	v, _ := constToBig(obj.(*types.Const).Val())
	return v.Int64()
}

var keyFieldRe = regexp.MustCompile(`^Key(Ctrl|Alt|Meta)?(Shf)?([A-Z][A-Za-z]*[0-9]*)$`)

// keyCapSpec: the (key, modifiers) a capability field name stands for (terminfo naming: kLFT = shifted left, ...).
func keyCapSpec(e *Engine, field string) (key int64, mod int64, ok bool) {
	m := keyFieldRe.FindStringSubmatch(field)
	if m == nil {
		return 0, 0, false
	}
	base := "Key" + m[3]
	obj := e.PkgBy[modPath].Types.Scope().Lookup(base)
	if obj == nil {
		return 0, 0, false
	}
	if _, isC := obj.(*types.Const); !isC {
		return 0, 0, false
	}
	key = e.constInt(modPath, base)
	switch m[1] {
	case "Ctrl":
		mod |= e.constInt(modPath, "ModCtrl")
	case "Alt":
		mod |= e.constInt(modPath, "ModAlt")
	case "Meta":
		mod |= e.constInt(modPath, "ModMeta")
	}
	if m[2] == "Shf" {
		mod |= e.constInt(modPath, "ModShift")
	}
	return key, mod, true
}

// xterm "PC-style function keys": modifier parameter n encodes n-1 = Shift(1) | Alt(2) | Ctrl(4) | Meta(8).
func xtermMods(e *Engine, n int) int64 {
	b := n - 1
	var m int64
	if b&1 != 0 {
		m |= e.constInt(modPath, "ModShift")
	}
	if b&2 != 0 {
		m |= e.constInt(modPath, "ModAlt")
	}
	if b&4 != 0 {
		m |= e.constInt(modPath, "ModCtrl")
	}
	if b&8 != 0 {
		m |= e.constInt(modPath, "ModMeta")
	}
	return m
}

// c02KeyTables: the part of the key-table evaluation that the input driver's partition independence rests on (C02):
// the REAL prepareKeys run on every description yields a table in which no sequence is a proper prefix of another
// (otherwise the same bytes decode differently depending on whether the longer sequence arrived in one read) and
// no sequence is empty.
func c02KeyTables(run *PropRun) {
	e := run.Eng
	db := LoadTermDB(e, true)
	n := 0
	for _, te := range db.Entries {
		tab, _, _ := buildKeyTable(db, te)
		var seqs []string
		for s := range tab {
			seqs = append(seqs, s)
		}
		sort.Strings(seqs)
		bad := ""
		for i, a := range seqs {
			for j, b := range seqs {
				if i != j && len(a) < len(b) && strings.HasPrefix(b, a) {
					bad = fmt.Sprintf("%q is a proper prefix of %q", a, b)
				}
			}
		}
		g := run.AddObligation(fmt.Sprintf("keytable[%s]/prefix-free", te.Name), "table", BoolT(bad == ""), "no key sequence of the table built by prepareKeys is a proper prefix of another "+bad)
		g.ReplayGo = replayKeyTable(te.Name, `for a := range s.keycodes { for b := range s.keycodes { if a != b && len(a) < len(b) && strings.HasPrefix(b, a) { fail("%q is a proper prefix of %q", a, b); return } } }`)
		_, hasEmpty := tab[""]
		g2 := run.AddObligation(fmt.Sprintf("keytable[%s]/nonempty-keys", te.Name), "table", BoolT(!hasEmpty), "the table built by prepareKeys has no empty key sequence (precondition of parseFunctionKey: a match consumes at least one byte)")
		g2.ReplayGo = replayKeyTable(te.Name, `for a, k := range s.keycodes { if a == "" || k == nil { fail("empty sequence or nil entry in the key table"); return } }`)
		// a report recognised by another parser (focus in/out; mouse where the terminal has one) that is a proper prefix
		// of a key sequence: the real driver must give the same events whether the key arrives in one read or split
		// right after the report (the longer sequence wins until the escape timeout decides otherwise)
		_, fs, tp := buildKeyTable(db, te)
		reports := []string{"\x1b[I", "\x1b[O"}
		if db.str(te, "Mouse") != "" {
			reports = append(reports, "\x1b[M", "\x1b[<")
		}
		for _, k := range seqs {
			for _, r := range reports {
				if len(r) >= len(k) || !strings.HasPrefix(k, r) {
					continue
				}
				whole, w1 := decodeDriver(db, fs, tp, k)
				split, w2 := decodeDriverChunks(db, fs, tp, []string{r, k[len(r):]})
				same := w1 == "" && w2 == "" && len(whole) == len(split)
				if same {
					for i := range whole {
						if whole[i] != split[i] {
							same = false
						}
					}
				}
				g := run.AddObligation(fmt.Sprintf("keytable[%s]/split-after-report[%q]", te.Name, k), "table", BoolT(same),
					fmt.Sprintf("the key sequence %q, of which the report %q is a proper prefix, decodes the same in one read (%v %s) and split after the report (%v %s)", k, r, whole, w1, split, w2))
				g.ReplayGo = replayKeyTableImports(te.Name, []string{"bytes"}, fmt.Sprintf(`
	s.cells.Resize(80, 24)
	desc := func(evs []Event) string {
		out := ""
		for _, ev := range evs {
			if k, ok := ev.(*EventKey); ok { out += fmt.Sprintf("[key %%d mod %%d rune %%d]", k.Key(), k.Modifiers(), k.Rune()) } else { out += fmt.Sprintf("[%%T]", ev) }
		}
		return out
	}
	whole := desc(s.collectEventsFromInput(bytes.NewBufferString(%q), false))
	buf := bytes.NewBufferString(%q)
	evs := s.collectEventsFromInput(buf, false)
	buf.WriteString(%q)
	evs = append(evs, s.collectEventsFromInput(buf, false)...)
	if split := desc(evs); split != whole { fail("%%q in one read decodes to %%s, split after %%q to %%s", %q, whole, %q, split); return }`, k, r, k[len(r):], k, r))
			}
		}
		// an ESC typed right before a report of another parser (focus, mouse) was a key of its own: it is delivered as
		// Esc, it is not swallowed, and its pending-Alt does not end up on the key that follows the report
		{
			kesc := e.constInt(modPath, "KeyEsc")
			krune := e.constInt(modPath, "KeyRune")
			reps := []string{"\x1b[I"}
			if db.str(te, "Mouse") != "" {
				reps = append(reps, "\x1b[<0;1;1M", "\x1b[M !!")
			}
			for _, r := range reps {
				// the report must not itself be (the start of) a key of the table
				clash := false
				for _, k := range seqs {
					if strings.HasPrefix(k, r) || strings.HasPrefix(r, k) {
						clash = true
					}
				}
				if clash {
					continue
				}
				in := "\x1b" + r + "a"
				evs, why := decodeDriver(db, fs, tp, in)
				ok := why == "" && len(evs) == 3 && evs[0].Key == kesc && evs[0].Mod == 0 && evs[1].Key == -1 && evs[2].Key == krune && evs[2].Mod == 0
				g := run.AddObligation(fmt.Sprintf("keytable[%s]/esc-before-report[%q]", te.Name, r), "table", BoolT(ok),
					fmt.Sprintf("ESC, the report %q, then 'a' decodes to Esc, the report's event and an unmodified 'a' (got %v %s)", r, evs, why))
				g.ReplayGo = replayKeyTableImports(te.Name, []string{"bytes"}, fmt.Sprintf(`
	s.cells.Resize(80, 24)
	evs := s.collectEventsFromInput(bytes.NewBufferString(%q), false)
	desc := ""
	for _, ev := range evs {
		if k, ok := ev.(*EventKey); ok { desc += fmt.Sprintf("[key %%d mod %%d rune %%d]", k.Key(), k.Modifiers(), k.Rune()) } else { desc += fmt.Sprintf("[%%T]", ev) }
	}
	if len(evs) != 3 { fail("%%q decoded to %%s: want Esc, the report, plain 'a'", %q, desc); return }
	k0, ok0 := evs[0].(*EventKey)
	_, isKey1 := evs[1].(*EventKey)
	k2, ok2 := evs[2].(*EventKey)
	if !ok0 || isKey1 || !ok2 || k0.Key() != KeyEsc || k0.Modifiers() != ModNone || k2.Key() != KeyRune || k2.Modifiers() != ModNone {
		fail("%%q decoded to %%s: want Esc, the report, plain 'a'", %q, desc); return
	}`, in, in, in))
			}
		}
		n++
	}
	run.Extra["descriptions_whose_key_table_was_evaluated"] = n
	for k := range db.Ev.C.Assumed {
		run.Assumed[k] = true
	}
}

func c03Tables(run *PropRun) {
	e := run.Eng
	db := LoadTermDB(e, true)
	keyF1 := e.constInt(modPath, "KeyF1")
	nEnt, nOb := 0, 0
	var names []string
	fnParse := e.FindFunc(modPath + ".(*tScreen).parseFunctionKey")
	for _, te := range db.Entries {
		nEnt++
		names = append(names, te.Name)
		tab, fs, tp := buildKeyTable(db, te)
		var seqs []string
		for s := range tab {
			seqs = append(seqs, s)
		}
		sort.Strings(seqs)
		// (1) prefix-freeness
		bad := ""
		for i, a := range seqs {
			for j, b := range seqs {
				if i != j && len(a) < len(b) && strings.HasPrefix(b, a) {
					bad = fmt.Sprintf("%q is a proper prefix of %q", a, b)
				}
			}
		}
		g := run.AddObligation(fmt.Sprintf("keytable[%s]/prefix-free", te.Name), "table", BoolT(bad == ""), "no key sequence of the table built by prepareKeys is a proper prefix of another "+bad)
		g.ReplayGo = replayKeyTable(te.Name, `for a := range s.keycodes { for b := range s.keycodes { if a != b && len(a) < len(b) && strings.HasPrefix(b, a) { fail("%q is a proper prefix of %q", a, b); return } } }`)
		nOb++
		// (1b) no empty sequence, no nil entry: the precondition of parseFunctionKey / the input driver (C02)
		_, hasEmpty := tab[""]
		g2 := run.AddObligation(fmt.Sprintf("keytable[%s]/nonempty-keys", te.Name), "table", BoolT(!hasEmpty), "the table built by prepareKeys has no empty key sequence (precondition of parseFunctionKey: a match consumes at least one byte)")
		g2.ReplayGo = replayKeyTable(te.Name, `for a, k := range s.keycodes { if a == "" || k == nil { fail("empty sequence or nil entry in the key table"); return } }`)
		nOb++
		// (1c) a single DEL byte is Backspace2 on every terminal, alone and between two letters (through the real driver)
		{
			bs2 := e.constInt(modPath, "KeyBackspace2")
			krune := e.constInt(modPath, "KeyRune")
			evs1, why1 := decodeDriver(db, fs, tp, "\x7f")
			evs3, why3 := decodeDriver(db, fs, tp, "a\x7fb")
			ok := why1 == "" && why3 == "" && len(evs1) == 1 && evs1[0].Key == bs2 && evs1[0].Mod == 0 &&
				len(evs3) == 3 && evs3[0].Key == krune && evs3[1].Key == bs2 && evs3[1].Mod == 0 && evs3[2].Key == krune
			g := run.AddObligation(fmt.Sprintf("keytable[%s]/del-is-backspace2", te.Name), "table", BoolT(ok),
				fmt.Sprintf("the input driver reports a single DEL byte as KeyBackspace2 without modifiers (alone: %v %s; in \"a\\x7fb\": %v %s)", evs1, why1, evs3, why3))
			g.ReplayGo = replayKeyTableImports(te.Name, []string{"bytes"}, `
	s.cells.Resize(80, 24)
	for _, in := range []string{"\x7f", "a\x7fb"} {
		evs := s.collectEventsFromInput(bytes.NewBufferString(in), false)
		n := 0
		for _, ev := range evs {
			if k, ok := ev.(*EventKey); ok && k.Key() == KeyBackspace2 && k.Modifiers() == ModNone { n++ }
		}
		if n != 1 || len(evs) != len(in) { fail("input %q produced %d events, %d of them an unmodified KeyBackspace2", in, len(evs), n); return }
	}`)
			nOb++
		}
		// (1d) ESC immediately followed by a key yields that key with Alt, and the Alt does not spill over to the next key
		// (through the real driver; two letters that start no ESC sequence of this description)
		{
			var letters []byte
			for ch := byte('z'); ch >= 'a' && len(letters) < 2; ch-- {
				free := true
				for _, k := range seqs {
					if strings.HasPrefix(k, "\x1b"+string(ch)) || k == string(ch) {
						free = false
					}
				}
				if free {
					letters = append(letters, ch)
				}
			}
			if len(letters) == 2 {
				krune := e.constInt(modPath, "KeyRune")
				altM := e.constInt(modPath, "ModAlt")
				in := "\x1b" + string(letters[0]) + string(letters[1])
				evs, why := decodeDriver(db, fs, tp, in)
				ok := why == "" && len(evs) == 2 && evs[0].Key == krune && evs[0].Mod == altM && evs[1].Key == krune && evs[1].Mod == 0
				g := run.AddObligation(fmt.Sprintf("keytable[%s]/alt-rune-then-plain", te.Name), "table", BoolT(ok),
					fmt.Sprintf("ESC %c %c through the real driver is Alt+%c followed by an unmodified %c (got %v %s)", letters[0], letters[1], letters[0], letters[1], evs, why))
				g.ReplayGo = replayKeyTableImports(te.Name, []string{"bytes"}, fmt.Sprintf(`
	s.cells.Resize(80, 24)
	evs := s.collectEventsFromInput(bytes.NewBufferString(%q), false)
	if len(evs) != 2 { fail("%%q produced %%d events", %q, len(evs)); return }
	k0, ok0 := evs[0].(*EventKey)
	k1, ok1 := evs[1].(*EventKey)
	if !ok0 || !ok1 || k0.Key() != KeyRune || k0.Modifiers() != ModAlt || k1.Key() != KeyRune || k1.Modifiers() != ModNone {
		fail("%%q decoded to %%v, %%v: want Alt+rune then the plain rune", %q, evs[0], evs[1]); return
	}`, in, in, in))
				nOb++
			}
		}
		// (1g) ESC ESC key in one read: two keys were typed before the letter - no ESC is swallowed: Esc, then the letter with Alt
		{
			var letter byte
			for ch := byte('z'); ch >= 'a' && letter == 0; ch-- {
				free := true
				for _, k := range seqs {
					if strings.HasPrefix(k, "\x1b"+string(ch)) || strings.HasPrefix(k, "\x1b\x1b") || k == string(ch) {
						free = false
					}
				}
				if free {
					letter = ch
				}
			}
			if letter != 0 {
				kesc := e.constInt(modPath, "KeyEsc")
				krune := e.constInt(modPath, "KeyRune")
				altM := e.constInt(modPath, "ModAlt")
				in := "\x1b\x1b" + string(letter)
				evs, why := decodeDriver(db, fs, tp, in)
				ok := why == "" && len(evs) == 2 && evs[0].Key == kesc && evs[0].Mod == 0 && evs[1].Key == krune && evs[1].Mod == altM
				g := run.AddObligation(fmt.Sprintf("keytable[%s]/esc-esc-key", te.Name), "table", BoolT(ok),
					fmt.Sprintf("ESC ESC %c in one read is Esc followed by Alt+%c: no ESC is swallowed (got %v %s)", letter, letter, evs, why))
				g.ReplayGo = replayKeyTableImports(te.Name, []string{"bytes"}, fmt.Sprintf(`
	s.cells.Resize(80, 24)
	evs := s.collectEventsFromInput(bytes.NewBufferString(%q), false)
	if len(evs) != 2 { fail("%%q produced %%d event(s), want Esc and Alt+rune", %q, len(evs)); return }
	k0, ok0 := evs[0].(*EventKey)
	k1, ok1 := evs[1].(*EventKey)
	if !ok0 || !ok1 || k0.Key() != KeyEsc || k0.Modifiers() != ModNone || k1.Key() != KeyRune || k1.Modifiers() != ModAlt {
		fail("%%q decoded to %%v, %%v: want Esc then Alt+rune", %q, evs[0], evs[1]); return
	}`, in, in, in))
				nOb++
			}
		}
		// (1f) ESC immediately followed by a control byte: the key that byte gives alone (Ctrl-letter, Tab, Enter, Backspace),
		// with Alt added - the modifiers it has alone are kept (evaluated with the timeout passed, so that a byte which
		// also starts a longer sequence of this description is decided)
		{
			altM := e.constInt(modPath, "ModAlt")
			bad := ""
			badByte := byte(0)
			driverExpire = true
			for b := byte(1); b < 32 && bad == ""; b++ {
				if b == 0x1b {
					continue
				}
				defined := false // ESC b is (the start of) a key sequence of this description: that key wins (linux: ESC TAB is Backtab)
				for _, k := range seqs {
					if strings.HasPrefix(k, string([]byte{0x1b, b})) {
						defined = true
					}
				}
				if defined {
					continue
				}
				alone, w1 := decodeDriver(db, fs, tp, string([]byte{b}))
				alt, w2 := decodeDriver(db, fs, tp, string([]byte{0x1b, b}))
				if w1 != "" || w2 != "" || len(alone) != 1 {
					if w1 != "" || w2 != "" {
						bad = fmt.Sprintf("byte 0x%02x: %s %s", b, w1, w2)
						badByte = b
					}
					continue
				}
				if len(alt) != 1 || alt[0].Key != alone[0].Key || alt[0].Mod != alone[0].Mod|altM {
					bad = fmt.Sprintf("byte 0x%02x alone is %v, ESC 0x%02x is %v", b, alone, b, alt)
					badByte = b
				}
			}
			driverExpire = false
			g := run.AddObligation(fmt.Sprintf("keytable[%s]/alt-control-byte", te.Name), "table", BoolT(bad == ""),
				"ESC followed by a control byte decodes (after the timeout) to the key that byte gives alone, with the same modifiers plus Alt "+bad)
			g.ReplayGo = replayKeyTableImports(te.Name, []string{"bytes"}, fmt.Sprintf(`
	s.cells.Resize(80, 24)
	b := byte(%d)
	alone := s.collectEventsFromInput(bytes.NewBuffer([]byte{b}), true)
	alt := s.collectEventsFromInput(bytes.NewBuffer([]byte{0x1b, b}), true)
	if len(alone) != 1 || len(alt) != 1 { fail("byte 0x%%02x: %%d event(s) alone, %%d after ESC", b, len(alone), len(alt)); return }
	k0, ok0 := alone[0].(*EventKey)
	k1, ok1 := alt[0].(*EventKey)
	if !ok0 || !ok1 || k1.Key() != k0.Key() || k1.Modifiers() != k0.Modifiers()|ModAlt {
		fail("byte 0x%%02x alone is key %%d mod %%d; ESC 0x%%02x is key %%d mod %%d: want the same key with Alt added", b, k0.Key(), k0.Modifiers(), b, k1.Key(), k1.Modifiers()); return
	}`, badByte))
			nOb++
		}
		// (1e) ESC ESC and the timeout: the second ESC is a key typed right after an ESC, so it comes out as Esc with Alt
		{
			kesc := e.constInt(modPath, "KeyEsc")
			altM := e.constInt(modPath, "ModAlt")
			driverExpire = true
			evs, why := decodeDriver(db, fs, tp, "\x1b\x1b")
			one, why1 := decodeDriver(db, fs, tp, "\x1b")
			driverExpire = false
			ok := why == "" && why1 == "" && len(evs) == 1 && evs[0].Key == kesc && evs[0].Mod == altM && len(one) == 1 && one[0].Key == kesc && one[0].Mod == 0
			g := run.AddObligation(fmt.Sprintf("keytable[%s]/esc-esc-is-alt-esc", te.Name), "table", BoolT(ok),
				fmt.Sprintf("after the timeout a lone ESC is Esc, and ESC ESC is Esc with Alt (ESC immediately followed by a key yields that key with Alt): got %v %s / %v %s", one, why1, evs, why))
			g.ReplayGo = replayKeyTableImports(te.Name, []string{"bytes"}, `
	s.cells.Resize(80, 24)
	evs := s.collectEventsFromInput(bytes.NewBufferString("\x1b\x1b"), true)
	if len(evs) != 1 { fail("ESC ESC + timeout produced %d events", len(evs)); return }
	if k, ok := evs[0].(*EventKey); !ok || k.Key() != KeyEsc || k.Modifiers() != ModAlt { fail("ESC ESC + timeout decoded to %v: the second ESC is a key typed after an ESC, want Esc with Alt", evs[0]); return }`)
			nOb++
		}
		// (2) every key capability of the description is in the table with a key the description assigns to it
		for i := 0; i < db.TI.NumFields(); i++ {
			fname := db.TI.Field(i).Name()
			if !strings.HasPrefix(fname, "Key") || !isString(db.TI.Field(i).Type()) {
				continue
			}
			seq := db.str(te, fname)
			if seq == "" {
				continue
			}
			ent, present := tab[seq]
			ok := false
			want := ""
			var acc [][2]int64
			if present {
				// acceptable: any capability field with this same sequence, as itself or as the base key plus modifiers
				for k := 0; k < db.TI.NumFields(); k++ {
					f2 := db.TI.Field(k).Name()
					if !strings.HasPrefix(f2, "Key") || !isString(db.TI.Field(k).Type()) || db.str(te, f2) != seq {
						continue
					}
					if key, mod, has := keyCapSpec(e, f2); has {
						want += fmt.Sprintf(" %s=(%d,%d)", f2, key, mod)
						acc = append(acc, [2]int64{key, mod})
						if ent.Key == key && ent.Mod == mod {
							ok = true
						}
						// F13..F64 are modifier aliases of F1..F12 on PC-style keyboards
						if n := key - keyF1; n >= 12 && n < 64 {
							alias := [][2]int64{{12, 1}, {24, 2}, {36, 3}, {48, 4}, {60, 5}}
							modOf := []int64{0, e.constInt(modPath, "ModShift"), e.constInt(modPath, "ModCtrl"), e.constInt(modPath, "ModCtrl") | e.constInt(modPath, "ModShift"), e.constInt(modPath, "ModAlt"), e.constInt(modPath, "ModAlt") | e.constInt(modPath, "ModShift")}
							for _, a := range alias {
								if n >= a[0] && n < a[0]+12 {
									acc = append(acc, [2]int64{key - a[0], modOf[a[1]]})
									if ent.Key == key-a[0] && ent.Mod == modOf[a[1]] {
										ok = true
									}
								}
							}
						}
					}
				}
			}
			// on xterm-style terminals a capability string may coincide with the modifier form of a base key
			if present && !ok && db.num(te, "Modifiers") == 1 {
				for _, bn := range xtermBases() {
					v := db.str(te, bn)
					for n := 2; n <= 16; n++ {
						if xtermModSeq(v, n) == seq {
							acc = append(acc, [2]int64{e.constInt(modPath, bn), xtermMods(e, n)})
						}
						if xtermModSeq(v, n) == seq && ent.Key == e.constInt(modPath, bn) && ent.Mod == xtermMods(e, n) {
							ok = true
							want += fmt.Sprintf(" xterm-modifier-form(%s;%d)", bn, n)
						}
					}
				}
			}
			src := fmt.Sprintf("%s.%s = %q is a table key decoding to a key the description assigns to it; table has %v, acceptable:%s", te.Name, fname, seq, ent, want)
			g := run.AddObligation(fmt.Sprintf("keytable[%s]/cap[%s]", te.Name, fname), "table", BoolT(present && ok), src)
			accGo := "[][2]int{"
			for _, a := range acc {
				accGo += fmt.Sprintf("{%d,%d},", a[0], a[1])
			}
			accGo += "}"
			g.ReplayGo = replayKeyTable(te.Name, fmt.Sprintf(`kc, ok := s.keycodes[%q]; if !ok { fail("sequence %%q of %s.%s is not in the key table", %q); return }
	good := false
	for _, a := range %s { if int(kc.key) == a[0] && int(kc.mod) == a[1] { good = true } }
	if !good { fail("sequence %%q of %s.%s decodes to key %%d mod %%d, which the description does not assign to it", %q, kc.key, kc.mod); return }`, seq, te.Name, fname, seq, accGo, te.Name, fname, seq))
			nOb++
		}
		// (3) xterm modifier parameter 2..16
		if db.num(te, "Modifiers") == 1 {
			for _, bn := range xtermBases() {
				v := db.str(te, bn)
				key := e.constInt(modPath, bn)
				for n := 2; n <= 16; n++ {
					seq := xtermModSeq(v, n)
					if seq == "" {
						continue
					}
					ent, present := tab[seq]
					ok := present && ent.Key == key && ent.Mod == xtermMods(e, n)
					g := run.AddObligation(fmt.Sprintf("keytable[%s]/xterm-mod[%s;%d]", te.Name, bn, n), "table", BoolT(ok),
						fmt.Sprintf("%q decodes to %s with modifiers %d (xterm parameter %d); table has %v present=%v", seq, bn, xtermMods(e, n), n, ent, present))
					g.ReplayGo = replayKeyTable(te.Name, fmt.Sprintf(`kc, ok := s.keycodes[%q]; if !ok || int(kc.key) != %d || int(kc.mod) != %d { fail("%%q -> %%v (present %%v), want key %d mod %d", %q, kc, ok); return }`, seq, key, xtermMods(e, n), key, xtermMods(e, n), seq))
					nOb++
				}
			}
		}
		// (4) single control bytes
		for cb := 0; cb < 32; cb++ {
			s := string(rune(cb))
			ent, present := tab[s]
			wantMod := e.constInt(modPath, "ModCtrl")
			if cb == 8 || cb == 9 || cb == 13 || cb == 27 {
				wantMod = 0
			}
			shadow := false
			for _, q := range seqs {
				if len(q) > 1 && q[0] == byte(cb) {
					shadow = true
				}
			}
			capKey := false
			if present {
				for k := 0; k < db.TI.NumFields(); k++ {
					f2 := db.TI.Field(k).Name()
					if strings.HasPrefix(f2, "Key") && isString(db.TI.Field(k).Type()) && db.str(te, f2) == s {
						capKey = true
					}
				}
			}
			ok := shadow || capKey || (present && ent.Key == int64(cb) && ent.Mod == wantMod)
			run.AddObligation(fmt.Sprintf("keytable[%s]/ctrl[%d]", te.Name, cb), "table", BoolT(ok),
				fmt.Sprintf("control byte %d decodes to Key(%d) with modifiers %d unless it is, or starts, a key sequence of the description; table has %v present=%v", cb, cb, wantMod, ent, present))
			nOb++
		}
		// (5) decoding through the real parseFunctionKey (capability sequences; both map orders in the thorough tier)
		if fnParse != nil {
			decodeSeqs := map[string]bool{}
			for i := 0; i < db.TI.NumFields(); i++ {
				fname := db.TI.Field(i).Name()
				if strings.HasPrefix(fname, "Key") && isString(db.TI.Field(i).Type()) {
					if s := db.str(te, fname); s != "" {
						if _, ok := tab[s]; ok {
							decodeSeqs[s] = true
						}
					}
				}
			}
			orders := []bool{false}
			if run.Tier == "thorough" {
				orders = []bool{false, true}
			}
			var ds []string
			for s := range decodeSeqs {
				ds = append(ds, s)
			}
			sort.Strings(ds)
			if run.Tier != "thorough" && len(ds) > 12 {
				ds = ds[:12]
			}
			for _, rev := range orders {
				for _, s := range ds {
					ok, got := decodeOne(db, fs, tp, fnParse, s, rev, false)
					ent := tab[s]
					good := ok && got.Key == ent.Key && got.Mod == ent.Mod
					g := run.AddObligation(fmt.Sprintf("keytable[%s]/decode[%q]", te.Name, s), "table", BoolT(good),
						fmt.Sprintf("parseFunctionKey on %q (reverse map order: %v) yields exactly the table entry %v and consumes the sequence; got %v ok=%v", s, rev, ent, got, ok))
					g.ReplayGo = replayDecode(te.Name, s, false, ent.Key, ent.Mod)
					nOb++
				}
			}
			// ESC immediately followed by a key: the key with Alt added to its own modifiers
			alt := e.constInt(modPath, "ModAlt")
			var altSeqs []string
			if _, ok := tab["\x01"]; ok {
				altSeqs = append(altSeqs, "\x01")
			}
			if len(ds) > 0 {
				altSeqs = append(altSeqs, ds[0])
			}
			for _, s := range seqs {
				if tab[s].Mod != 0 && len(s) > 1 && len(altSeqs) < 4 {
					altSeqs = append(altSeqs, s)
				}
			}
			for _, s := range altSeqs {
				ok, got := decodeOne(db, fs, tp, fnParse, s, false, true)
				ent := tab[s]
				good := ok && got.Key == ent.Key && got.Mod == ent.Mod|alt
				g := run.AddObligation(fmt.Sprintf("keytable[%s]/alt-decode[%q]", te.Name, s), "table", BoolT(good),
					fmt.Sprintf("after ESC, parseFunctionKey on %q yields the table entry %v with Alt added; got %v ok=%v", s, ent, got, ok))
				g.ReplayGo = replayDecode(te.Name, s, true, ent.Key, ent.Mod|alt)
				nOb++
			}
		}
	}
	run.Extra["descriptions_evaluated"] = nEnt
	run.Extra["descriptions"] = names
	run.Extra["table_obligations"] = nOb
	for k := range db.Ev.C.Assumed {
		run.Assumed[k] = true
	}
}

// decodeOne runs the real parseFunctionKey on a buffer holding exactly seq.
func decodeOne(db *TermDB, base *State, tp PtrV, fn interface{}, seq string, reverse bool, escaped bool) (bool, keyEnt) {
	c := db.Ev.C
	e := c.Eng
	st := base.clone()
	st.Frames = nil
	if escaped {
		tv := c.mem(st, tp.Obj).(*StructV)
		stt := under(tv.Typ).(*types.Struct)
		nf := &StructV{Typ: tv.Typ, F: append([]Value(nil), tv.F...)}
		for i := 0; i < stt.NumFields(); i++ {
			if stt.Field(i).Name() == "escaped" {
				nf.F[i] = True()
			}
		}
		st.Mem[tp.Obj] = nf
	}
	c.MapReverse = reverse
	defer func() { c.MapReverse = false }()
	// bytes.Buffer holding seq
	bufT := e.PkgBy["bytes"].Types.Scope().Lookup("Buffer").Type()
	bobj := c.newObject("buf", bufT)
	bv := c.zeroValue(st, bufT).(*StructV)
	elem := types.Typ[types.Uint8]
	av := &ArrayV{Elem: elem}
	for i := 0; i < len(seq); i++ {
		av.Elems = append(av.Elems, NumC(big.NewInt(int64(seq[i])), c.byteSort()))
	}
	ao := c.newObject("bufbytes", types.NewArray(elem, int64(len(seq))))
	st.Mem[ao] = av
	nb := &StructV{Typ: bv.Typ, F: append([]Value(nil), bv.F...)}
	nb.F[0] = SliceV{Elem: elem, Obj: ao, CLen: len(seq), CCap: len(seq)}
	st.Mem[bobj] = nb
	// evs
	evT := e.PkgBy[modPath].Types.Scope().Lookup("Event").Type()
	eo := c.newObject("evs", types.NewSlice(evT))
	st.Mem[eo] = SliceV{Elem: evT}
	paths, err := db.Ev.Call(st, e.FindFunc(modPath+".(*tScreen).parseFunctionKey"), []Value{tp, PtrV{Obj: bobj}, PtrV{Obj: eo}})
	if err != nil || len(paths) != 1 {
		return false, keyEnt{Seq: fmt.Sprintf("error %v paths=%d", err, len(paths))}
	}
	ret := paths[0].Ret.(*TupleV)
	fs := paths[0].St
	if !ret.V[1].(*Term).IsTrue() {
		return false, keyEnt{Seq: "not complete"}
	}
	evs := c.mem(fs, eo).(SliceV)
	if evs.Heap || evs.Obj == nil || evs.CLen != 1 {
		return false, keyEnt{Seq: "not exactly one event"}
	}
	ev := c.mem(fs, evs.Obj).(*ArrayV).Elems[evs.COff].(IfaceV)
	pv, ok := ev.Val.(PtrV)
	if !ok || pv.Obj == nil {
		return false, keyEnt{Seq: "event is not a pointer"}
	}
	es, ok := c.mem(fs, pv.Obj).(*StructV)
	if !ok {
		return false, keyEnt{Seq: "event not a struct"}
	}
	// EventKey{t, mod, key, ch}: find fields by name
	est := under(es.Typ).(*types.Struct)
	var got keyEnt
	for i := 0; i < est.NumFields(); i++ {
		switch est.Field(i).Name() {
		case "key":
			got.Key = termInt(es.F[i])
		case "mod":
			got.Mod = termInt(es.F[i])
		}
	}
	// buffer consumed
	if r, ok := fs.Ghost["rope:"+pathKey(bobj, nil)].(StrV); ok {
		if len(flattenRope(r)) != 0 {
			return false, got
		}
		return true, got
	}
	nbv := c.mem(fs, bobj).(*StructV)
	off := termInt(nbv.F[1])
	bl := nbv.F[0].(SliceV)
	if int(off) != bl.CLen && bl.CLen != 0 {
		return false, got
	}
	return true, got
}

func replayKeyTable(term, body string) string {
	return replayTest("tcell", []string{"strings", modPath + "/terminfo", "_ " + modPath + "/terminfo/extended"}, fmt.Sprintf(`
	_ = strings.HasPrefix
	ti, err := terminfo.LookupTerminfo(%q)
	if err != nil { fail("lookup %%v", err); return }
	s := &tScreen{ti: ti}
	s.keyexist = make(map[Key]bool)
	s.keycodes = make(map[string]*tKeyCode)
	s.prepareKeys()
	%s`, term, body))
}

// decodeDriver runs the REAL input driver (collectEventsFromInput, escape timeout not expired) on the concrete bytes and
// returns the key events it produced (Seq holds a description when something other than key events came out).
func decodeDriver(db *TermDB, base *State, tp PtrV, seq string) ([]keyEnt, string) {
	return decodeDriverChunks(db, base, tp, []string{seq})
}

// decodeDriverChunks: the bytes arrive in several reads (the driver is called after each, timeout not expired); the
// events of all calls are concatenated.
func decodeDriverChunks(db *TermDB, base *State, tp PtrV, chunks []string) ([]keyEnt, string) {
	if len(chunks) == 1 {
		return decodeDriverOne(db, base, tp, chunks[0], nil)
	}
	// the buffer keeps what an earlier call left unconsumed: evaluate call by call on the same state
	var all []keyEnt
	st := base.clone()
	st.Frames = nil
	var carry *driverCarry
	for _, ch := range chunks {
		evs, why, next := decodeDriverStep(db, st, tp, ch, carry)
		if why != "" {
			return nil, why
		}
		all = append(all, evs...)
		carry = next
		st = next.st
	}
	return all, ""
}

// driverExpire: whether the driver evaluation passes expire=true (the escape timeout has passed)
var driverExpire = false

type driverCarry struct {
	st   *State
	left string // bytes the previous call left in the buffer
}

func decodeDriverStep(db *TermDB, st *State, tp PtrV, chunk string, carry *driverCarry) ([]keyEnt, string, *driverCarry) {
	left := ""
	if carry != nil {
		left = carry.left
	}
	evs, why, fs, rest := decodeDriverRun(db, st, tp, left+chunk)
	return evs, why, &driverCarry{st: fs, left: rest}
}

func decodeDriverOne(db *TermDB, base *State, tp PtrV, seq string, _ *driverCarry) ([]keyEnt, string) {
	st := base.clone()
	st.Frames = nil
	evs, why, _, _ := decodeDriverRun(db, st, tp, seq)
	return evs, why
}

// decodeDriverRun: one call of the real driver on a buffer holding seq; returns the events, the state after the
// call and the bytes left in the buffer.
func decodeDriverRun(db *TermDB, st *State, tp PtrV, seq string) ([]keyEnt, string, *State, string) {
	c := db.Ev.C
	e := c.Eng
	st = st.clone()
	st.Frames = nil
	bufT := e.PkgBy["bytes"].Types.Scope().Lookup("Buffer").Type()
	bobj := c.newObject("buf", bufT)
	bv := c.zeroValue(st, bufT).(*StructV)
	elem := types.Typ[types.Uint8]
	av := &ArrayV{Elem: elem}
	for i := 0; i < len(seq); i++ {
		av.Elems = append(av.Elems, NumC(big.NewInt(int64(seq[i])), c.byteSort()))
	}
	ao := c.newObject("bufbytes", types.NewArray(elem, int64(len(seq))))
	st.Mem[ao] = av
	nb := &StructV{Typ: bv.Typ, F: append([]Value(nil), bv.F...)}
	nb.F[0] = SliceV{Elem: elem, Obj: ao, CLen: len(seq), CCap: len(seq)}
	st.Mem[bobj] = nb
	db.Ev.C.Paths = 0 // the path budget is per evaluation, not per check
	paths, err := db.Ev.Call(st, e.FindFunc(modPath+".(*tScreen).collectEventsFromInput"), []Value{tp, PtrV{Obj: bobj}, BoolT(driverExpire)})
	if err != nil || len(paths) != 1 {
		return nil, fmt.Sprintf("error %v paths=%d", err, len(paths)), nil, ""
	}
	fs := paths[0].St
	evs, ok := paths[0].Ret.(SliceV)
	if !ok || evs.Heap {
		return nil, "result is not a concrete slice", nil, ""
	}
	var out []keyEnt
	// what is left in the buffer
	rest := ""
	{
		nbv := c.mem(fs, bobj).(*StructV)
		off := int(termInt(nbv.F[1]))
		bl, isS := nbv.F[0].(SliceV)
		if isS && bl.Obj != nil && !bl.Heap {
			arr := c.mem(fs, bl.Obj).(*ArrayV)
			for k := bl.COff + off; k < bl.COff+bl.CLen && k < len(arr.Elems); k++ {
				if t, ok := arr.Elems[k].(*Term); ok && isNum(t) {
					rest += string([]byte{byte(t.Val.Int64())})
				}
			}
		}
	}
	if evs.Obj == nil {
		return out, "", fs, rest
	}
	arr := c.mem(fs, evs.Obj).(*ArrayV)
	for i := 0; i < evs.CLen; i++ {
		ev, ok := arr.Elems[evs.COff+i].(IfaceV)
		if !ok {
			return nil, "event is not an interface value", nil, ""
		}
		pv, ok := ev.Val.(PtrV)
		if !ok || pv.Obj == nil {
			return nil, "event is not a pointer", nil, ""
		}
		es, ok := c.mem(fs, pv.Obj).(*StructV)
		if !ok {
			return nil, "event is not a struct", nil, ""
		}
		est := under(es.Typ).(*types.Struct)
		var got keyEnt
		isKey := false
		for k := 0; k < est.NumFields(); k++ {
			switch est.Field(k).Name() {
			case "key":
				got.Key = termInt(es.F[k])
				isKey = true
			case "mod":
				got.Mod = termInt(es.F[k])
			}
		}
		if !isKey {
			out = append(out, keyEnt{Seq: "non-key event " + es.Typ.String(), Key: -1})
			continue
		}
		out = append(out, got)
	}
	return out, "", fs, rest
}

func xtermBases() []string {
	bases := []string{"KeyUp", "KeyDown", "KeyLeft", "KeyRight", "KeyInsert", "KeyDelete", "KeyPgUp", "KeyPgDn", "KeyHome", "KeyEnd"}
	for i := 1; i <= 12; i++ {
		bases = append(bases, "KeyF"+strconv.Itoa(i))
	}
	return bases
}

// xtermModSeq: the sequence xterm sends for a key whose unmodified string is v with modifier parameter n.
func xtermModSeq(v string, n int) string {
	switch {
	case strings.HasPrefix(v, "\x1b[") && strings.HasSuffix(v, "~"):
		return v[:len(v)-1] + ";" + strconv.Itoa(n) + "~"
	case strings.HasPrefix(v, "\x1bO") && len(v) == 3:
		return "\x1b[1;" + strconv.Itoa(n) + v[2:]
	}
	return ""
}

func replayDecode(term, seq string, escaped bool, key, mod int64) string {
	return replayKeyTableImports(term, []string{"bytes"}, fmt.Sprintf(`
	s.escaped = %v
	buf := &bytes.Buffer{}
	buf.WriteString(%q)
	var evs []Event
	_, comp := s.parseFunctionKey(buf, &evs)
	if !comp || len(evs) != 1 || buf.Len() != 0 { fail("parseFunctionKey(%%q): complete=%%v events=%%d left=%%d", %q, comp, len(evs), buf.Len()); return }
	ek, ok := evs[0].(*EventKey)
	if !ok || int(ek.Key()) != %d || int(ek.Modifiers()) != %d { fail("parseFunctionKey(%%q) -> key %%d mod %%d, want key %d mod %d", %q, ek.Key(), ek.Modifiers()); return }`, escaped, seq, seq, key, mod, key, mod, seq))
}

func replayKeyTableImports(term string, extra []string, body string) string {
	imps := append([]string{"strings", modPath + "/terminfo", "_ " + modPath + "/terminfo/extended"}, extra...)
	return replayTest("tcell", imps, fmt.Sprintf(`
	_ = strings.HasPrefix
	ti, err := terminfo.LookupTerminfo(%q)
	if err != nil { fail("lookup %%v", err); return }
	s := &tScreen{ti: ti}
	s.keyexist = make(map[Key]bool)
	s.keycodes = make(map[string]*tKeyCode)
	s.prepareKeys()
	%s`, term, body))
}

// ---- C17: buildAcsMap on every description ----

func c17AcsMaps(run *PropRun) {
	e := run.Eng
	db := LoadTermDB(e, true)
	c := db.Ev.C
	fn := e.FindFunc(modPath + ".(*tScreen).buildAcsMap")
	if fn == nil {
		panic(VerErr{"UNDECIDED: (*tScreen).buildAcsMap not found"})
	}
	// vtACSNames from the real package variable
	sp := e.SPkgs[modPath]
	names := map[byte]int64{}
	{
		st := db.St.clone()
		o := c.globalObj(st, sp.Var("vtACSNames"))
		mv := c.mem(st, o).(MapV)
		for _, en := range c.mapObj(st, mv).Entries {
			names[byte(termInt(en.K))] = termInt(en.V)
		}
	}
	tsT := sp.Type("tScreen").Type()
	stt := under(tsT).(*types.Struct)
	n := 0
	for _, te := range db.Entries {
		acsc := db.str(te, "AltChars")
		enter, exit := db.str(te, "EnterAcs"), db.str(te, "ExitAcs")
		st := db.St.clone()
		st.Frames = nil
		st.PathID = 0
		tobj := c.newObject("tscreen", tsT)
		tv := c.zeroValue(st, tsT).(*StructV)
		nf := &StructV{Typ: tv.Typ, F: append([]Value(nil), tv.F...)}
		for i := 0; i < stt.NumFields(); i++ {
			if stt.Field(i).Name() == "ti" {
				nf.F[i] = te.Ptr
			}
		}
		st.Mem[tobj] = nf
		paths, err := db.Ev.Call(st, fn, []Value{PtrV{Obj: tobj}})
		if err != nil || len(paths) != 1 {
			run.Errors = append(run.Errors, fmt.Sprintf("acsmap[%s]: %v (%d paths)", te.Name, err, len(paths)))
			continue
		}
		fs := paths[0].St
		got := map[int64]string{}
		tval := c.mem(fs, tobj).(*StructV)
		for i := 0; i < stt.NumFields(); i++ {
			if stt.Field(i).Name() == "acs" {
				for _, en := range c.mapObj(fs, tval.F[i].(MapV)).Entries {
					got[termInt(en.K)] = *en.V.(StrV).Conc
				}
			}
		}
		// specification: every pair (name, glyph) of acsc whose name is a known ACS name
		want := map[int64]string{}
		for i := 0; i+1 < len(acsc); i += 2 {
			if r, ok := names[acsc[i]]; ok {
				// the entry is later written verbatim (writeString): it must be the form the terminal understands, i.e.
				// smacs / rmacs with any terminfo padding specification removed
				want[r] = stripPadding(enter) + acsc[i+1:i+2] + stripPadding(exit) // the glyph BYTE of the description (not the UTF-8 encoding of the code point with that number)
			}
		}
		bad := ""
		for r, s := range want {
			if got[r] != s {
				bad += fmt.Sprintf(" U+%04X: have %q want %q;", r, got[r], s)
			}
		}
		for r := range got {
			if _, ok := want[r]; !ok {
				bad += fmt.Sprintf(" U+%04X unexpected;", r)
			}
		}
		g := run.AddObligation(fmt.Sprintf("acsmap[%s]", te.Name), "table", BoolT(bad == ""),
			fmt.Sprintf("buildAcsMap of %s maps the rune of EVERY (name, glyph) pair of acsc (%d pairs) to smacs+glyph+rmacs%s", te.Name, len(acsc)/2, bad))
		last := ""
		if len(acsc) >= 2 {
			if r, ok := names[acsc[len(acsc)-2]]; ok {
				last = fmt.Sprintf(`if got, ok := s.acs[rune(%d)]; !ok || got != %q { fail("%s: the last acsc pair (rune U+%04X) is missing from the ACS map: have %%q want %%q", got, %q); return }`, r, want[r], te.Name, r, want[r])
			}
		}
		g.ReplayGo = replayKeyTable(te.Name, "s.buildAcsMap()\n\t"+last+`
	for r, v := range s.acs {
		if strings.Contains(v, "$<") {
			fail("the ACS string for U+%04X is %q: it is written verbatim, so the padding specification reaches the terminal as text", r, v)
			return
		}
	}`)
		n++
	}
	run.Extra["acs_maps_evaluated"] = n
	for k := range c.Assumed {
		run.Assumed[k] = true
	}
}

// c11DriverSplits: per description, through the real driver -
// (a) a focus report that is still in the buffer when the escape timeout passes is delivered as a focus event, also
//     where it is a proper prefix of a key sequence (rxvt: ESC [ O a) and the longer key did not complete;
// (b) every sequence of the key table (paste brackets among them) cut in the middle by a read boundary decodes to the
//     same events as in one read: the first part is held back, not given away as runes.
func c11DriverSplits(run *PropRun) {
	e := run.Eng
	db := LoadTermDB(e, true)
	for _, te := range db.Entries {
		tab, fs, tp := buildKeyTable(db, te)
		var seqs []string
		for s := range tab {
			seqs = append(seqs, s)
		}
		sort.Strings(seqs)
		for _, r := range []string{"\x1b[I", "\x1b[O"} {
			// a key of the table with exactly these bytes wins (none of the shipped descriptions has one)
			if _, isKey := tab[r]; isKey {
				continue
			}
			driverExpire = true
			evs, why := decodeDriver(db, fs, tp, r)
			driverExpire = false
			ok := why == "" && len(evs) == 1 && evs[0].Key == -1
			g := run.AddObligation(fmt.Sprintf("keytable[%s]/focus-report-after-timeout[%q]", te.Name, r), "table", BoolT(ok),
				fmt.Sprintf("the focus report %q alone in the buffer when the escape timeout passes is one focus event (got %v %s)", r, evs, why))
			g.ReplayGo = replayKeyTableImports(te.Name, []string{"bytes"}, fmt.Sprintf(`
	s.cells.Resize(80, 24)
	evs := s.collectEventsFromInput(bytes.NewBufferString(%q), true)
	if len(evs) != 1 { fail("%%q after the timeout produced %%d events, want one focus event", %q, len(evs)); return }
	if _, ok := evs[0].(*EventFocus); !ok { fail("%%q after the timeout decoded to %%T, want *EventFocus", %q, evs[0]); return }`, r, r, r))
		}
		bad, badKey := "", ""
		n := 0
		// quick: the paste brackets and an evenly spaced sample of the table; thorough: every sequence
		step := 1
		if run.Tier != "thorough" && len(seqs) > 12 {
			step = len(seqs) / 12
		}
		evalErr := ""
		for i, k := range seqs {
			if len(k) < 2 {
				continue
			}
			if i%step != 0 && !strings.HasPrefix(k, "\x1b[20") {
				continue
			}
			cut := len(k) / 2
			whole, w1 := decodeDriver(db, fs, tp, k)
			split, w2 := decodeDriverChunks(db, fs, tp, []string{k[:cut], k[cut:]})
			n++
			if w1 != "" || w2 != "" {
				// the evaluator gave up: undecided, not a violation
				evalErr = fmt.Sprintf("keytable[%s]/split-in-the-middle: %q: %s %s", te.Name, k, w1, w2)
				continue
			}
			same := len(whole) == len(split)
			if same {
				for i := range whole {
					if whole[i] != split[i] {
						same = false
					}
				}
			}
			if !same && bad == "" {
				bad = fmt.Sprintf("%q in one read: %v; split as %q | %q: %v", k, whole, k[:cut], k[cut:], split)
				badKey = k
			}
		}
		if evalErr != "" {
			run.Errors = append(run.Errors, evalErr)
			continue
		}
		g := run.AddObligation(fmt.Sprintf("keytable[%s]/split-in-the-middle", te.Name), "table", BoolT(bad == ""),
			fmt.Sprintf("each of the %d key sequences of the table decodes the same in one read and cut in the middle by a read boundary %s", n, bad))
		cut := len(badKey) / 2
		g.ReplayGo = replayKeyTableImports(te.Name, []string{"bytes"}, fmt.Sprintf(`
	s.cells.Resize(80, 24)
	desc := func(evs []Event) string {
		out := ""
		for _, ev := range evs {
			if k, ok := ev.(*EventKey); ok { out += fmt.Sprintf("[key %%d mod %%d rune %%d]", k.Key(), k.Modifiers(), k.Rune()) } else { out += fmt.Sprintf("[%%T]", ev) }
		}
		return out
	}
	whole := desc(s.collectEventsFromInput(bytes.NewBufferString(%q), false))
	buf := bytes.NewBufferString(%q)
	evs := s.collectEventsFromInput(buf, false)
	buf.WriteString(%q)
	evs = append(evs, s.collectEventsFromInput(buf, false)...)
	if split := desc(evs); split != whole { fail("%%q in one read decodes to %%s, cut in the middle to %%s", %q, whole, split); return }`, badKey, badKey[:cut], badKey[cut:], badKey))
	}
	for k := range db.Ev.C.Assumed {
		run.Assumed[k] = true
	}
}
