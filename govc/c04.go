package main

// C04: Fini/Suspend restore every terminal mode.  Evaluation rule: for every registered terminal description the
// REAL prepareKeys (which prepares cursor styles, paste, focus, title and OSC strings) and then the REAL disengage
// are evaluated on that concrete description, with the application-controlled state symbolic (cursor style, cursor
// colour) and TCELL_ALTSCREEN unset resp. "disable".  The bytes disengage emits on every path are compared with the
// description's own "off" strings: for each mode that engage or a setter can turn on for this description, the
// matching off string must be emitted on EVERY path (unconditionally, whatever the application did before).
//
// Modelling note: disengage writes directly to the tty (buffering is false); the evaluation runs it with
// t.buffering = true so that the same TPuts / writeString code collects the bytes in t.buf, where the engine's
// bytes.Buffer model keeps them as a string.  tScreen.TPuts and writeString differ between the two settings only
// in the destination they hand to the same emission code.

import (
	"fmt"
	"go/types"
	"math/big"
	"os"
	"path/filepath"
	"regexp"
	"sort"
	"strings"
	"time"

	"golang.org/x/tools/go/ssa"
)

type c04Out struct {
	Text     string // concrete bytes emitted (opaque pieces rendered as \x00)
	Opaque   bool
	Calls    []string // trusted calls on the tty, in order
	CondDesc string
}

func c04Disengage(run *PropRun) {
	e := run.Eng
	db := LoadTermDB(e, true)
	c := db.Ev.C
	fn := e.FindFunc(modPath + ".(*tScreen).disengage")
	if fn == nil {
		panic(VerErr{"UNDECIDED: (*tScreen).disengage not found"})
	}
	entries := db.Entries
	if run.Tier != "thorough" {
		// quick: a fixed third of the descriptions plus the common ones (thorough: all)
		var keep []*TermEntry
		for i, te := range entries {
			if i%3 == 0 || strings.HasPrefix(te.Name, "xterm") || te.Name == "linux" || te.Name == "vt100" || te.Name == "screen" || te.Name == "tmux" {
				keep = append(keep, te)
			}
		}
		entries = keep
	}
	nEval, nPaths := 0, 0
	for _, te := range entries {
		for _, env := range []string{"", "disable"} {
			outs, fields, err := c04Eval(db, te, env, fn)
			if err != nil {
				run.Errors = append(run.Errors, fmt.Sprintf("disengage[%s] TCELL_ALTSCREEN=%q: %v", te.Name, env, err))
				continue
			}
			nEval++
			nPaths += len(outs)
			tag := te.Name
			if env != "" {
				tag += ",noaltscreen"
			}
			strip := func(s string) string { return stripPadding(s) }
			ti := func(n string) string { return strip(db.str(te, n)) }
			type req struct{ mode, on, off string }
			var reqs []req
			if env == "" {
				reqs = append(reqs, req{"alternate-screen", ti("EnterCA"), ti("ExitCA")})
				reqs = append(reqs, req{"saved-title", strip(fields["saveTitle"]), strip(fields["restoreTitle"])})
			}
			reqs = append(reqs,
				req{"keypad", ti("EnterKeypad"), ti("ExitKeypad")},
				req{"cursor-visible", ti("HideCursor"), ti("ShowCursor")},
				req{"attributes", "x", ti("AttrOff")},
				req{"colours", ti("SetFg") + ti("SetFgBg") + ti("SetFgRGB"), ti("ResetFgBg")},
				req{"auto-margin", ti("DisableAutoMargin"), ti("EnableAutoMargin")},
				req{"paste", strip(fields["enablePaste"]), strip(fields["disablePaste"])},
				req{"focus", strip(fields["enableFocus"]), strip(fields["disableFocus"])},
				req{"cursor-shape", fields["cursorStyles.default"], strip(fields["cursorStyles.default"])},
				req{"cursor-colour", strip(fields["cursorRGB"]), strip(fields["cursorFg"])},
				req{"hyperlink", strip(fields["enterUrl"]), strip(fields["exitUrl"])},
			)
			if fields["mouse"] != "" {
				reqs = append(reqs, req{"mouse", "x", "\x1b[?1000l\x1b[?1002l\x1b[?1003l\x1b[?1006l"})
			}
			for _, r := range reqs {
				if r.on == "" {
					continue // this description cannot turn the mode on
				}
				ok := r.off != ""
				why := ""
				if !ok {
					why = "the description has no string to turn it off"
					// a mode with an on-string but no off-string is a database matter (C14), not disengage's
					continue
				}
				for _, o := range outs {
					if !strings.Contains(o.Text, r.off) {
						ok = false
						why = fmt.Sprintf("a path of disengage (%s) emits %q, which lacks %q", o.CondDesc, o.Text, r.off)
						break
					}
				}
				g := run.AddObligation(fmt.Sprintf("disengage[%s]/resets[%s]", tag, r.mode), "table", BoolT(ok),
					fmt.Sprintf("on every path disengage emits the string that turns %s off (%q) %s", r.mode, r.off, why))
				g.ReplayGo = c04Replay(te.Name, env, r.mode, r.off)
			}
			// mouse: no enabling sequence after the disabling one
			if fields["mouse"] != "" {
				ok := true
				for _, o := range outs {
					i := strings.LastIndex(o.Text, "\x1b[?1006l")
					if i >= 0 && (strings.Contains(o.Text[i:], "\x1b[?1000h") || strings.Contains(o.Text[i:], "\x1b[?1002h") || strings.Contains(o.Text[i:], "\x1b[?1003h") || strings.Contains(o.Text[i:], "\x1b[?1006h")) {
						ok = false
					}
				}
				run.AddObligation(fmt.Sprintf("disengage[%s]/mouse-stays-off", tag), "table", BoolT(ok), "no mouse mode is enabled again after the disabling sequence")
			}
			// tty protocol on every path: Drain before Stop, callback unregistered before Stop, Stop last
			okOrder := true
			whyOrder := ""
			for _, o := range outs {
				di, si, ni := -1, -1, -1
				for k, cn := range o.Calls {
					switch cn {
					case "Tty.Drain":
						di = k
					case "Tty.Stop":
						si = k
					case "Tty.NotifyResize":
						ni = k
					}
				}
				if si < 0 || di < 0 || ni < 0 || di > si || ni > si || si != len(o.Calls)-1 {
					okOrder = false
					whyOrder = fmt.Sprintf("tty calls on a path: %v", o.Calls)
				}
			}
			run.AddObligation(fmt.Sprintf("disengage[%s]/tty-order", tag), "table", BoolT(okOrder), "Drain, then NotifyResize(nil), then all writes, then Stop as the last tty call "+whyOrder)
		}
	}
	// showCursor records what it sends: whenever its output contains a non-default cursor style or a cursor colour,
	// the corresponding flag is set afterwards (the flag is what disengage consults)
	if sc := e.FindFunc(modPath + ".(*tScreen).showCursor"); sc != nil {
		for _, te := range entries {
			okS, okC, why, err := c04ShowCursor(db, te, sc)
			if err != nil {
				run.Errors = append(run.Errors, fmt.Sprintf("showCursor[%s]: %v", te.Name, err))
				continue
			}
			run.AddObligation(fmt.Sprintf("showCursor[%s]/records-style", te.Name), "table", BoolT(okS), "a non-default cursor style sent to the terminal is recorded (so that disengage restores the default) "+why)
			run.AddObligation(fmt.Sprintf("showCursor[%s]/records-colour", te.Name), "table", BoolT(okC), "a cursor colour sent to the terminal is recorded (so that disengage resets it) "+why)
		}
	}
	run.Extra["disengage_evaluations_on_real_code"] = nEval
	run.Extra["disengage_paths"] = nPaths
	for k := range c.Assumed {
		run.Assumed[k] = true
	}
}

// stripPadding removes terminfo padding ($<..>) the way TPuts does for well-formed specifications.
// c04TtyLifecycle: the parts of "the Tty is driven in contract order" that are facts about WHERE the calls are: Close
// is called in finalize only, finalize is reached from finish only and finish runs through sync.Once (so Close happens
// at Fini, once); Stop is called in disengage only and Start in engage only.
func c04TtyLifecycle(run *PropRun) {
	e := run.Eng
	sp := e.SPkgs[modPath]
	tm := sp.Type("tScreen")
	if tm == nil {
		panic(VerErr{"UNDECIDED: tScreen not found"})
	}
	named := tm.Type().(*types.Named)
	ms := e.Prog.MethodSets.MethodSet(types.NewPointer(named))
	where := map[string]map[string]bool{} // tty method -> functions that invoke it
	callers := map[string]map[string]bool{}
	var visit func(fn *ssa.Function, top string)
	visit = func(fn *ssa.Function, top string) {
		for _, b := range fn.Blocks {
			for _, in := range b.Instrs {
				c, ok := in.(ssa.CallInstruction)
				if !ok {
					continue
				}
				cc := c.Common()
				if cc.IsInvoke() {
					if nt, ok := cc.Value.Type().(*types.Named); ok && nt.Obj().Name() == "Tty" {
						if where[cc.Method.Name()] == nil {
							where[cc.Method.Name()] = map[string]bool{}
						}
						where[cc.Method.Name()][top] = true
					}
				} else if callee := cc.StaticCallee(); callee != nil && callee.Pkg != nil && callee.Pkg.Pkg.Path() == modPath {
					if callers[callee.Name()] == nil {
						callers[callee.Name()] = map[string]bool{}
					}
					callers[callee.Name()][top] = true
				}
			}
		}
		for _, af := range fn.AnonFuncs {
			visit(af, top)
		}
	}
	for i := 0; i < ms.Len(); i++ {
		fn := e.Prog.MethodValue(ms.At(i))
		if fn != nil && fn.Pkg != nil && fn.Pkg.Pkg.Path() == modPath && fn.Synthetic == "" {
			visit(fn, fn.Name())
		}
	}
	only := func(m map[string]bool, names ...string) bool {
		if len(m) == 0 {
			return false
		}
		for k := range m {
			ok := false
			for _, n := range names {
				if k == n {
					ok = true
				}
			}
			if !ok {
				return false
			}
		}
		return true
	}
	run.AddObligation("tScreen/tty-close-only-in-finalize", "discipline", BoolT(only(where["Close"], "finalize")), fmt.Sprintf("Tty.Close is called in finalize only (found in %v)", keysOf(where["Close"])))
	run.AddObligation("tScreen/finalize-only-from-finish", "discipline", BoolT(only(callers["finalize"], "finish")), fmt.Sprintf("finalize is called from finish only (callers %v)", keysOf(callers["finalize"])))
	run.AddObligation("tScreen/finish-only-through-once", "discipline", BoolT(onlyThroughOnce(e, e.FindFunc(modPath+".(*tScreen).finish"))), "finish runs only through sync.Once: the tty is closed at Fini and at most once")
	run.AddObligation("tScreen/tty-stop-only-in-disengage", "discipline", BoolT(only(where["Stop"], "disengage")), fmt.Sprintf("Tty.Stop is called in disengage only (found in %v)", keysOf(where["Stop"])))
	run.AddObligation("tScreen/tty-start-only-in-engage", "discipline", BoolT(only(where["Start"], "engage")), fmt.Sprintf("Tty.Start is called in engage only (found in %v)", keysOf(where["Start"])))
}

// c04SetterReplays: demonstration for the setters' quiet-when-not-running clauses.
func c04SetterReplays(run *PropRun) {
	demo := replayTest("tcell", []string{"bytes", "sync", "strings", modPath + "/terminfo", "_ " + modPath + "/terminfo/base"}, `
	ti, err := terminfo.LookupTerminfo("xterm")
	if err != nil { fail("no xterm description: %v", err); return }
	tty := &c04RecTty{wake: make(chan struct{}, 4)}
	s, err := NewTerminfoScreenFromTtyTerminfo(tty, ti)
	if err != nil { fail("new screen: %v", err); return }
	if err := s.Init(); err != nil { fail("init: %v", err); return }
	if err := s.Suspend(); err != nil { fail("suspend: %v", err); return }
	tty.reset()
	s.EnableMouse()
	s.EnablePaste()
	s.EnableFocus()
	s.Fini()
	out := tty.text()
	for _, on := range []string{"\x1b[?1000h", "\x1b[?1002h", "\x1b[?1003h", "\x1b[?1006h", "\x1b[?2004h", "\x1b[?1004h"} {
		if i := strings.LastIndex(out, on); i >= 0 {
			off := strings.Replace(on, "h", "l", 1)
			if !strings.Contains(out[i:], off) {
				fail("Suspend; EnableMouse; EnablePaste; EnableFocus; Fini left %q switched on at the terminal (written while suspended, never undone)", on)
				return
			}
		}
	}`) + `
type c04RecTty struct {
	mu   sync.Mutex
	out  bytes.Buffer
	wake chan struct{}
}

func (t *c04RecTty) reset()                           { t.mu.Lock(); t.out.Reset(); t.mu.Unlock() }
func (t *c04RecTty) text() string                     { t.mu.Lock(); defer t.mu.Unlock(); return t.out.String() }
func (t *c04RecTty) Read(p []byte) (int, error)       { <-t.wake; return 0, nil }
func (t *c04RecTty) Write(p []byte) (int, error)      { t.mu.Lock(); t.out.Write(p); t.mu.Unlock(); return len(p), nil }
func (t *c04RecTty) Close() error                     { return nil }
func (t *c04RecTty) Start() error                     { return nil }
func (t *c04RecTty) Stop() error                      { return nil }
func (t *c04RecTty) Drain() error                     { select { case t.wake <- struct{}{}: default: }; return nil }
func (t *c04RecTty) NotifyResize(cb func())           {}
func (t *c04RecTty) WindowSize() (WindowSize, error)  { return WindowSize{Width: 80, Height: 24}, nil }
`
	for _, g := range run.Groups {
		if strings.HasSuffix(g.Name, "/ensures#quiet-when-not-running") {
			g.ReplayGo = demo
		}
	}
}

func stripPadding(s string) string {
	for {
		i := strings.Index(s, "$<")
		if i < 0 {
			return s
		}
		j := strings.Index(s[i:], ">")
		if j < 0 {
			return s
		}
		s = s[:i] + s[i+j+1:]
	}
}

func c04Eval(db *TermDB, te *TermEntry, env string, fn *ssa.Function) ([]c04Out, map[string]string, error) {
	c := db.Ev.C
	e := c.Eng
	fs, tp := c04Prepared(db, te)
	st := fs.clone()
	st.Frames = nil
	st.PathID = 0
	st.CallLog = nil
	st.Ghost["env:TCELL_ALTSCREEN"] = conc(env)
	tv := c.mem(st, tp.Obj).(*StructV)
	stt := under(tv.Typ).(*types.Struct)
	nf := &StructV{Typ: tv.Typ, F: append([]Value(nil), tv.F...)}
	fields := map[string]string{}
	bufIdx := -1
	for i := 0; i < stt.NumFields(); i++ {
		f := stt.Field(i)
		switch f.Name() {
		case "buf":
			bufIdx = i
		case "buffering", "running", "cursorStyleSet", "cursorColorSet":
			// the two *Set flags: a non-default cursor style / a cursor colour has been sent (showCursor records it);
			// disengage is evaluated for the case that they have
			nf.F[i] = True()
		case "stopQ":
			nf.F[i] = ChanV{Sym: Fresh("stopQ", IntSort)}
		case "tty":
			s := Fresh("tty", IntSort)
			st.assume(Cmp(">", s, IntC(0), true))
			nf.F[i] = IfaceV{Sym: s, Iface: f.Type()}
		case "mouse":
			m := db.str(te, "Mouse")
			fields["mouse"] = m
			if m != "" {
				av := &ArrayV{Elem: types.Typ[types.Uint8]}
				for k := 0; k < len(m); k++ {
					av.Elems = append(av.Elems, NumC(big.NewInt(int64(m[k])), c.byteSort()))
				}
				o := c.newObject("mouse", types.NewArray(types.Typ[types.Uint8], int64(len(m))))
				st.Mem[o] = av
				nf.F[i] = SliceV{Elem: types.Typ[types.Uint8], Obj: o, CLen: len(m), CCap: len(m)}
			}
		case "cursorStyle":
			v := Fresh("cursorStyle", c.sortOfBasic(f.Type()))
			nf.F[i] = v
		case "cursorColor":
			nf.F[i] = Fresh("cursorColor", c.sortOfBasic(f.Type()))
		case "enablePaste", "disablePaste", "enableFocus", "disableFocus", "saveTitle", "restoreTitle", "cursorRGB", "cursorFg", "setTitle", "enterUrl", "exitUrl":
			if s, ok := tv.F[i].(StrV); ok && s.Conc != nil {
				fields[f.Name()] = *s.Conc
			}
		case "cursorStyles":
			if mv, ok := tv.F[i].(MapV); ok && !mv.Nil && mv.Obj != nil {
				mo := c.mapObj(st, mv)
				for _, en := range mo.Entries {
					if k, ok := en.K.(*Term); ok && isNum(k) && k.Val.Sign() == 0 {
						if s, ok := en.V.(StrV); ok && s.Conc != nil {
							fields["cursorStyles.default"] = *s.Conc
						}
					}
				}
			}
		}
	}
	st.Mem[tp.Obj] = nf
	paths, err := db.Ev.Call(st, fn, []Value{tp})
	_ = e
	if err != nil {
		return nil, nil, err
	}
	var outs []c04Out
	for _, p := range paths {
		var o c04Out
		if r, ok := p.St.Ghost["rope:"+pathKey(tp.Obj, []int{bufIdx})].(StrV); ok {
			for _, piece := range flattenRope(r) {
				if piece.Conc != nil {
					o.Text += *piece.Conc
				} else {
					o.Text += "\x00"
					o.Opaque = true
				}
			}
		}
		for _, r := range p.St.CallLog {
			if strings.HasPrefix(r.Callee, "Tty.") || strings.Contains(r.Callee, ".Tty.") {
				o.Calls = append(o.Calls, r.Callee[strings.LastIndex(r.Callee, "Tty."):])
			}
		}
		var cs []string
		for _, f := range p.PC {
			s := f.String()
			if strings.Contains(s, "cursorStyle") || strings.Contains(s, "cursorColor") {
				if len(s) > 60 {
					s = s[:60]
				}
				cs = append(cs, s)
			}
		}
		sort.Strings(cs)
		o.CondDesc = strings.Join(cs, " & ")
		outs = append(outs, o)
	}
	return outs, fields, nil
}

// c04Replay: the same question asked of the real screen through a recording tty.
func c04Replay(term, env, mode, off string) string {
	hist := ""
	switch mode {
	case "cursor-shape":
		hist = "s.SetCursorStyle(CursorStyleSteadyBar); s.ShowCursor(1, 1); s.Show(); s.SetCursorStyle(CursorStyleDefault)"
	case "cursor-colour":
		hist = "s.SetCursorStyle(CursorStyleSteadyBar, ColorRed); s.ShowCursor(1, 1); s.Show(); s.SetCursorStyle(CursorStyleSteadyBar); s.Show()"
	case "hyperlink":
		hist = "s.Show(); s.SetContent(5, 2, 'x', nil, StyleDefault.Url(\"http://example.com\")); s.Show()"
	}
	return replayTest("tcell", []string{"os", "strings", "sync", modPath + "/terminfo", "_ " + modPath + "/terminfo/base", "_ " + modPath + "/terminfo/extended"}, fmt.Sprintf(`
	os.Setenv("TCELL_ALTSCREEN", %q)
	ti, err := terminfo.LookupTerminfo(%q)
	if err != nil { fail("no description %%s: %%v", %q, err); return }
	tty := &c04Tty{wake: make(chan struct{}, 4)}
	s, err := NewTerminfoScreenFromTtyTerminfo(tty, ti)
	if err != nil { fail("new screen: %%v", err); return }
	if err := s.Init(); err != nil { fail("init: %%v", err); return }
	%s
	tty.mu.Lock(); tty.out.Reset(); tty.mu.Unlock()
	s.Fini()
	tty.mu.Lock(); got := tty.out.String(); tty.mu.Unlock()
	if !strings.Contains(got, %q) {
		fail("Fini on %%s wrote %%q, which does not contain %%q (%s is not restored)", %q, got, %q)
		return
	}`, env, term, term, hist, off, mode, term, off)) + `
type c04Tty struct {
	mu   sync.Mutex
	out  strings.Builder
	wake chan struct{}
}

func (t *c04Tty) Read(p []byte) (int, error)      { <-t.wake; return 0, nil }
func (t *c04Tty) Write(p []byte) (int, error)     { t.mu.Lock(); t.out.Write(p); t.mu.Unlock(); return len(p), nil }
func (t *c04Tty) Close() error                    { return nil }
func (t *c04Tty) Start() error                    { return nil }
func (t *c04Tty) Stop() error                     { return nil }
func (t *c04Tty) Drain() error                    { t.wake <- struct{}{}; return nil }
func (t *c04Tty) NotifyResize(cb func())          {}
func (t *c04Tty) WindowSize() (WindowSize, error) { return WindowSize{Width: 80, Height: 24}, nil }
`
}

// c04ShowCursor evaluates the real showCursor with a symbolic style and colour, cursor on screen.
func c04ShowCursor(db *TermDB, te *TermEntry, fn *ssa.Function) (okStyle, okColour bool, why string, err error) {
	okStyle, okColour = true, true
	scope := db.Ev.C.Eng.PkgBy[modPath].Types.Scope()
	cval := func(n string) int64 {
		if o, ok := scope.Lookup(n).(*types.Const); ok {
			if v, exact := constantInt(o); exact {
				return v
			}
			if u, ok2 := constantUint(o); ok2 {
				return int64(u)
			}
		}
		return 0
	}
	colours := []int64{cval("ColorRed"), cval("ColorReset"), cval("ColorNone"), int64(uint64(cval("ColorValid")) | uint64(cval("ColorIsRGB")) | 0x102030)}
	for style := int64(0); style <= 6; style++ {
		for _, col := range colours {
			// with nothing on record, and with a style and a colour on record from an earlier Show: the record may
			// only be dropped when the string that undoes it was sent
			for _, recorded := range []bool{false, true} {
				s1, c1, w, e := c04ShowCursorOne(db, te, fn, style, col, recorded)
				if e != nil {
					return false, false, "", e
				}
				if !s1 {
					okStyle, why = false, w
				}
				if !c1 {
					okColour, why = false, w
				}
			}
		}
	}
	return okStyle, okColour, why, nil
}

func c04ShowCursorOne(db *TermDB, te *TermEntry, fn *ssa.Function, style, colour int64, recorded bool) (okStyle, okColour bool, why string, err error) {
	c := db.Ev.C
	fs, tp := c04Prepared(db, te)
	st := fs.clone()
	st.Frames = nil
	st.PathID = 0
	st.CallLog = nil
	tv := c.mem(st, tp.Obj).(*StructV)
	stt := under(tv.Typ).(*types.Struct)
	nf := &StructV{Typ: tv.Typ, F: append([]Value(nil), tv.F...)}
	bufIdx, sIdx, cIdx := -1, -1, -1
	var styles []string
	def := ""
	colPrefix := ""
	colReset := ""
	for i := 0; i < stt.NumFields(); i++ {
		f := stt.Field(i)
		switch f.Name() {
		case "buf":
			bufIdx = i
		case "buffering":
			nf.F[i] = True()
		case "cursorStyleSet":
			sIdx = i
			nf.F[i] = False()
			if recorded {
				nf.F[i] = True()
			}
		case "cursorColorSet":
			cIdx = i
			nf.F[i] = False()
			if recorded {
				nf.F[i] = True()
			}
		case "cursorFg":
			if s, ok := tv.F[i].(StrV); ok && s.Conc != nil {
				colReset = stripPadding(*s.Conc)
			}
		case "cursorx", "cursory":
			nf.F[i] = NumC(big.NewInt(0), c.sortOfBasic(f.Type()))
		case "cursorStyle":
			nf.F[i] = NumC(big.NewInt(style), c.sortOfBasic(f.Type()))
		case "cursorColor":
			nf.F[i] = NumC(new(big.Int).SetUint64(uint64(colour)), c.sortOfBasic(f.Type()))
		case "cursorRGB":
			if s, ok := tv.F[i].(StrV); ok && s.Conc != nil {
				colPrefix = stripPadding(*s.Conc)
				if k := strings.Index(colPrefix, "%"); k >= 0 {
					colPrefix = colPrefix[:k]
				}
			}
		case "cursorStyles":
			if mv, ok := tv.F[i].(MapV); ok && !mv.Nil && mv.Obj != nil {
				for _, en := range c.mapObj(st, mv).Entries {
					k, ok1 := en.K.(*Term)
					s, ok2 := en.V.(StrV)
					if ok1 && ok2 && s.Conc != nil && isNum(k) {
						if k.Val.Sign() == 0 {
							def = stripPadding(*s.Conc)
						} else if *s.Conc != "" {
							styles = append(styles, stripPadding(*s.Conc))
						}
					}
				}
			}
		case "cells":
			// a 1x1 buffer so that (0,0) is on the screen
		}
	}
	st.Mem[tp.Obj] = nf
	// the cell buffer must contain (0,0): resize it through the real code
	if rs := c.Eng.FindFunc(modPath + ".(*CellBuffer).Resize"); rs != nil {
		for i := 0; i < stt.NumFields(); i++ {
			if stt.Field(i).Name() == "cells" {
				ps, e2 := db.Ev.Call(st, rs, []Value{PtrV{Obj: tp.Obj, Path: []PathElem{{Field: i}}}, c.idx(1), c.idx(1)})
				if e2 != nil || len(ps) != 1 {
					return false, false, "", fmt.Errorf("resize: %v", e2)
				}
				st = ps[0].St
				st.Frames = nil
			}
		}
	}
	paths, err := db.Ev.Call(st, fn, []Value{tp})
	if err != nil {
		return false, false, "", err
	}
	okStyle, okColour = true, true
	for _, p := range paths {
		text := ""
		if r, ok := p.St.Ghost["rope:"+pathKey(tp.Obj, []int{bufIdx})].(StrV); ok {
			for _, piece := range flattenRope(r) {
				if piece.Conc != nil {
					text += *piece.Conc
				} else {
					text += "\x00"
				}
			}
		}
		fv := c.mem(p.St, tp.Obj).(*StructV)
		sentStyle := false
		for _, s := range styles {
			if s != def && strings.Contains(text, s) {
				sentStyle = true
			}
		}
		if sentStyle && sIdx >= 0 {
			if t, ok := fv.F[sIdx].(*Term); !ok || !t.IsTrue() {
				okStyle = false
				why = fmt.Sprintf("(output %q, flag %s)", text, showValue(fv.F[sIdx]))
			}
		}
		if colPrefix != "" && strings.Contains(text, colPrefix) && cIdx >= 0 {
			if t, ok := fv.F[cIdx].(*Term); !ok || !t.IsTrue() {
				okColour = false
				why = fmt.Sprintf("(output %q, flag %s)", text, showValue(fv.F[cIdx]))
			}
		}
		if recorded && sIdx >= 0 && !sentStyle && !(def != "" && strings.Contains(text, def)) {
			if t, ok := fv.F[sIdx].(*Term); !ok || !t.IsTrue() {
				okStyle = false
				why = fmt.Sprintf("(a cursor style was on record, output %q does not restore the default, flag now %s)", text, showValue(fv.F[sIdx]))
			}
		}
		if recorded && cIdx >= 0 && !(colReset != "" && strings.Contains(text, colReset)) {
			if t, ok := fv.F[cIdx].(*Term); !ok || !t.IsTrue() {
				okColour = false
				why = fmt.Sprintf("(a cursor colour was on record, output %q does not reset it, flag now %s)", text, showValue(fv.F[cIdx]))
			}
		}
	}
	if sIdx < 0 || cIdx < 0 {
		return false, false, "the screen has no record of what cursor style / colour it sent", nil
	}
	return okStyle, okColour, why, nil
}

var c04Cache = map[*TermEntry]struct {
	st *State
	tp PtrV
}{}

// c04Prepared: the screen state after the real prepareKeys ran on the description (evaluated once per description).
func c04Prepared(db *TermDB, te *TermEntry) (*State, PtrV) {
	if v, ok := c04Cache[te]; ok {
		return v.st, v.tp
	}
	_, fs, tp := buildKeyTable(db, te)
	c04Cache[te] = struct {
		st *State
		tp PtrV
	}{fs, tp}
	return fs, tp
}

// ---- C09 (part): the width function of the dependency, evaluated from its source ----

// c09RuneWidth evaluates the REAL (*runewidth.Condition).RuneWidth (go-runewidth, from its source in the module
// cache) on every C0 control, DEL, every C1 control, the zero-width / line- and paragraph-separator / bidi-embedding
// characters U+200B-200F, U+2028-202E, U+FEFF, the surrogates' boundaries and invalid code points, with the
// condition's flags symbolic and no lookup table: the width is 0 on every path, so by the C08 contracts
// (SetContent stores width = RuneWidth(main), GetContent returns a blank for width 0 or a rune < ' ') such a
// primary rune never leaves the cell buffer.
func c09RuneWidth(run *PropRun) {
	e := run.Eng
	const rwPath = "github.com/mattn/go-runewidth"
	fn := e.FindFunc(rwPath + ".(*Condition).RuneWidth")
	if fn == nil {
		panic(VerErr{"UNDECIDED: go-runewidth (*Condition).RuneWidth not found among the loaded packages"})
	}
	ev := e.NewEvaluator(true, "C09.runewidth")
	c := ev.C
	c.Spec.Opts["inline-external"] = "go-runewidth" // the dependency's own source is what gets executed
	condT := fn.Params[0].Type().(*types.Pointer).Elem()
	var runes []int64
	for r := int64(0); r < 0x20; r++ {
		runes = append(runes, r)
	}
	for r := int64(0x7f); r <= 0x9f; r++ {
		runes = append(runes, r)
	}
	// further bidi / format characters the property names as a class ("zero-width and bidi/format characters"): the
	// bidi isolates, the Arabic letter mark, word joiner and invisible operators, interlinear annotation marks, the
	// Mongolian vowel separator, tag characters.  go-runewidth v0.0.16 gives them width 1 and tcell adds no check of
	// its own: these are recorded as known findings (see known_findings.txt), one per code point.
	for _, rg := range [][2]int64{{0x0591, 0x0591}, {0x064B, 0x064B}, {0x093C, 0x093C}, {0x0E31, 0x0E31}, {0x20DD, 0x20DD}, {0x061C, 0x061C}, {0x180E, 0x180E}, {0x2060, 0x2064}, {0x2066, 0x2069}, {0xFFF9, 0xFFFB}, {0xE0001, 0xE0001}, {0xE0020, 0xE0020}, {0xE007F, 0xE007F}} {
		for r := rg[0]; r <= rg[1]; r++ {
			runes = append(runes, r)
		}
	}
	for _, rg := range [][2]int64{{0x200B, 0x200F}, {0x2028, 0x202E}, {0xFEFF, 0xFEFF}, {0xD800, 0xD800}, {0xDFFF, 0xDFFF}, {0x110000, 0x110000}, {-1, -1}, {0x7fffffff, 0x7fffffff}, {-0x80000000, -0x80000000}} {
		for r := rg[0]; r <= rg[1]; r++ {
			runes = append(runes, r)
		}
	}
	n := 0
	for _, r := range runes {
		// tcell's cellWidth (verified against its contract: 0 for a rune of category Cf, else RuneWidth) - the Cf
		// membership is evaluated from the unicode package's own table
		if isFmt, ferr := c09IsFormat(ev, r); ferr == nil && isFmt && e.Specs.Funcs[modPath+".cellWidth"] != nil {
			g := run.AddObligation(fmt.Sprintf("runewidth[%#x]/zero", r), "table", True(), fmt.Sprintf("cellWidth(%#x) == 0: the real cellWidth, evaluated on this rune, returns 0 on every path without consulting go-runewidth (its own category test)", r))
			_ = g
			n++
			continue
		}
		st := ev.NewState()
		co := c.newObject("cond", condT)
		cv := c.zeroValue(st, condT).(*StructV)
		nf := &StructV{Typ: cv.Typ, F: append([]Value(nil), cv.F...)}
		stt := under(condT).(*types.Struct)
		for i := 0; i < stt.NumFields(); i++ {
			if isBool(stt.Field(i).Type()) {
				nf.F[i] = Fresh("cond."+stt.Field(i).Name(), BoolSort)
			}
		}
		st.Mem[co] = nf
		paths, err := ev.Call(st, fn, []Value{PtrV{Obj: co}, NumC(big.NewInt(r), BVSort(32))})
		ok := err == nil && len(paths) > 0
		why := ""
		if err != nil {
			why = err.Error()
		}
		for _, p := range paths {
			t, isT := p.Ret.(*Term)
			if !isT || !isNum(t) || t.Val.Sign() != 0 {
				ok = false
				why = fmt.Sprintf("a path returns %s", showValue(p.Ret))
			}
		}
		g := run.AddObligation(fmt.Sprintf("runewidth[%#x]/zero", r), "table", BoolT(ok), fmt.Sprintf("go-runewidth RuneWidth(%#x) == 0 for both settings of EastAsianWidth / StrictEmojiNeutral %s", r, why))
		g.ReplayGo = replayTest("tcell", []string{"github.com/mattn/go-runewidth"}, fmt.Sprintf(`
	for _, ea := range []bool{false, true} {
		cnd := &runewidth.Condition{EastAsianWidth: ea}
		if w := cnd.RuneWidth(rune(%d)); w != 0 {
			fail("RuneWidth(%%#x) = %%d with EastAsianWidth=%%v", %d, w, ea)
			return
		}
	}`, r, r))
		n++
	}
	run.Extra["runewidth_points_evaluated_on_the_dependency_source"] = n
	for k := range c.Assumed {
		run.Assumed[k] = true
	}
}

// c09IsFormat: does tcell's own cellWidth give the rune width 0 WITHOUT asking go-runewidth?  The real cellWidth is
// evaluated on the concrete rune; its unicode.Is / unicode.In test is answered for the table(s) the code passes by the
// unicode package linked into the verifier (same toolchain as the library; listed as an assumption), and the
// go-runewidth call, if reached, yields an unknown width.  True iff every path returns the constant 0.
func c09IsFormat(ev *Evaluator, r int64) (bool, error) {
	e := ev.C.Eng
	fn := e.FindFunc(modPath + ".cellWidth")
	if fn == nil {
		return false, nil
	}
	ev.C.Assumed["the unicode tables linked into the verifier are the ones the library is built with (same Go toolchain)"] = true
	st := ev.NewState()
	ev.C.Paths = 0
	paths, err := ev.Call(st, fn, []Value{NumC(big.NewInt(r), BVSort(32))})
	ev.C.Paths = 0
	if err != nil || len(paths) == 0 {
		return false, err
	}
	for _, p := range paths {
		t, ok := p.Ret.(*Term)
		if !ok || !isNum(t) || t.Val.Sign() != 0 {
			return false, nil
		}
	}
	return true, nil
}

// c17Charsets: BOUNDED stand-in for the assumed encoder contract on the OUTPUT side (C17: "each cell is written as that
// character set's encoding of its rune if representable"): for every registered stateless charset and every rune
// the charset round-trips, the real tScreen.encodeRune (no ACS map, no fallbacks) and the real CanDisplay are run
// natively: the bytes must be exactly the encoder's, CanDisplay must say true; for a sample of runes the charset
// cannot represent the output must be '?' and CanDisplay false.  Exhaustive over single runes, not a proof.
func c17Charsets(run *PropRun) {
	data, err := os.ReadFile(filepath.Join(run.Eng.Repo, "encoding", "all.go"))
	if err != nil {
		panic(VerErr{"UNDECIDED: cannot read encoding/all.go: " + err.Error()})
	}
	re := regexp.MustCompile(`tcell\.RegisterEncoding\("([^"]+)",\s*([a-z]+)\.([A-Za-z0-9_]+)\)`)
	var tbl strings.Builder
	n := 0
	for _, m := range re.FindAllStringSubmatch(string(data), -1) {
		if m[1] == "ISO2022JP" || m[1] == "GB2312" {
			continue
		}
		p := m[2]
		if p == "encoding" {
			p = "gencoding"
		}
		fmt.Fprintf(&tbl, "\t\t{%q, %s.%s},\n", m[1], p, m[3])
		n++
	}
	if n < 10 {
		panic(VerErr{fmt.Sprintf("UNDECIDED: only %d charset registrations found in encoding/all.go", n)})
	}
	src := replayTest("tcell", []string{"bytes", "golang.org/x/text/encoding", "github.com/gdamore/encoding as gencoding", "golang.org/x/text/encoding/charmap", "golang.org/x/text/encoding/japanese", "golang.org/x/text/encoding/korean",
		"golang.org/x/text/encoding/simplifiedchinese", "golang.org/x/text/encoding/traditionalchinese", modPath + "/terminfo"}, fmt.Sprintf(`
	sets := []struct {
		name string
		enc  encoding.Encoding
	}{
%s	}
	for _, cs := range sets {
		scr := &tScreen{ti: &terminfo.Terminfo{}}
		scr.encoder = cs.enc.NewEncoder()
		scr.charset = cs.name
		ref := cs.enc.NewEncoder()
		n, bad := 0, ""
		for r := rune(0x20); r <= 0x2FFFF && bad == ""; r++ {
			if r >= 0xD800 && r <= 0xDFFF || r == 0xFFFD || r == 0x7f || (r >= 0x80 && r < 0xa0) {
				continue
			}
			ref.Reset()
			eb, err := ref.Bytes([]byte(string(r)))
			representable := err == nil && len(eb) > 0 && eb[0] != 0x1a
			if representable {
				if db, err := cs.enc.NewDecoder().Bytes(eb); err != nil || string(db) != string(r) {
					continue // not a rune this charset round-trips
				}
			}
			got := scr.encodeRune(r, nil)
			switch {
			case representable && !bytes.Equal(got, eb):
				bad = fmt.Sprintf("U+%%04X is %% x in %%s but encodeRune wrote %% x", r, eb, cs.name, got)
			case representable && !scr.CanDisplay(r, false):
				bad = fmt.Sprintf("U+%%04X is representable in %%s but CanDisplay says no", r, cs.name)
			case !representable && r%%97 == 0 && (string(got) != "?" || scr.CanDisplay(r, false)):
				bad = fmt.Sprintf("U+%%04X is not representable in %%s but encodeRune wrote %% x, CanDisplay=%%v", r, cs.name, got, scr.CanDisplay(r, false))
			}
			n++
		}
		if bad == "" {
			fmt.Printf("OUTCHARSET %%s OK %%d\n", cs.name, n)
		} else {
			fmt.Printf("OUTCHARSET %%s FAIL %%s\n", cs.name, bad)
			fail("%%s: %%s", cs.name, bad)
		}
	}`, tbl.String()))
	src = strings.Replace(src, "\t\"github.com/gdamore/encoding as gencoding\"\n", "\tgencoding \"github.com/gdamore/encoding\"\n", 1)
	out, rerr := runOverlayTest(run.Eng.Repo, run.Eng.Repo, src, 300*time.Second, nil)
	seen := 0
	for _, ln := range strings.Split(out, "\n") {
		f := strings.Fields(ln)
		if len(f) < 3 || f[0] != "OUTCHARSET" {
			continue
		}
		seen++
		g := run.AddObligation(fmt.Sprintf("charset[%s]/every-rune-encoded-as-the-charset-does", f[1]), "bounded", BoolT(f[2] == "OK"),
			fmt.Sprintf("for every rune %s round-trips, encodeRune writes exactly the charset's bytes and CanDisplay agrees; unrepresentable samples give '?': %s", f[1], strings.Join(f[2:], " ")))
		g.ReplayGo = src
	}
	if seen != n {
		run.Errors = append(run.Errors, fmt.Sprintf("output charset validator: %d of %d charsets reported (%v) %s", seen, n, rerr, tail(out, 600)))
	}
	run.Extra["charsets_enumerated_natively_for_output"] = seen
}

// ---- C11 / C18: bounded stand-in for the charset decoders (x/text tables are outside the verifier's reach) ----

// c11Charsets runs, natively against the real code, the real input driver (tScreen.collectEventsFromInput) and the real
// SimulationScreen.InjectKeyBytes on EVERY character of every registered stateless charset (registration list
// extracted mechanically from /repo/encoding/all.go on every run), delivered in one read and split at every byte
// boundary: exactly one rune key event with that character must come out and nothing may stay buffered.
// This is an exhaustive enumeration over single characters, labelled BOUNDED - it validates the assumption the parseRune / InjectKeyBytes contracts make
// about the decoder (no output for a proper prefix of a character), it is not a proof.
func c11Charsets(run *PropRun) {
	data, err := os.ReadFile(filepath.Join(run.Eng.Repo, "encoding", "all.go"))
	if err != nil {
		panic(VerErr{"UNDECIDED: cannot read encoding/all.go: " + err.Error()})
	}
	re := regexp.MustCompile(`tcell\.RegisterEncoding\("([^"]+)",\s*([a-z]+)\.([A-Za-z0-9_]+)\)`)
	type ent struct{ name, pkg, v string }
	var ents []ent
	for _, m := range re.FindAllStringSubmatch(string(data), -1) {
		if m[1] == "ISO2022JP" || m[1] == "GB2312" { // escape-driven 7-bit encodings: excluded by the property
			continue
		}
		ents = append(ents, ent{m[1], m[2], m[3]})
	}
	if len(ents) < 10 {
		panic(VerErr{fmt.Sprintf("UNDECIDED: only %d charset registrations found in encoding/all.go", len(ents))})
	}
	step := 1 // every character (the enumeration costs a few seconds)
	var tbl strings.Builder
	for _, e := range ents {
		p := e.pkg
		if p == "encoding" {
			p = "gencoding"
		}
		fmt.Fprintf(&tbl, "\t\t{%q, %s.%s},\n", e.name, p, e.v)
	}
	src := replayTest("tcell", []string{"bytes", "golang.org/x/text/encoding", "github.com/gdamore/encoding as gencoding", "golang.org/x/text/encoding/charmap", "golang.org/x/text/encoding/japanese", "golang.org/x/text/encoding/korean",
		"golang.org/x/text/encoding/simplifiedchinese", "golang.org/x/text/encoding/traditionalchinese", modPath + "/terminfo"}, fmt.Sprintf(`
	sets := []struct {
		name string
		enc  encoding.Encoding
	}{
%s	}
	step := %d
	for _, cs := range sets {
		s := &tScreen{ti: &terminfo.Terminfo{}}
		s.cells.Resize(80, 24)
		s.decoder = cs.enc.NewDecoder()
		RegisterEncoding("verif-"+cs.name, cs.enc)
		sim := NewSimulationScreen("verif-" + cs.name).(*simscreen)
		if err := sim.Init(); err != nil {
			fmt.Printf("CHARSET %%s FAIL simulation init: %%v\n", cs.name, err)
			continue
		}
		encd := cs.enc.NewEncoder()
		n, bad, badSim := 0, "", ""
		one := func(evs []Event, r rune) bool {
			if len(evs) != 1 {
				return false
			}
			k, ok := evs[0].(*EventKey)
			return ok && k.Key() == KeyRune && k.Rune() == r
		}
		idx := 0
		for r := rune(0x80); r <= 0x10FFFF; r++ {
			if r >= 0xD800 && r <= 0xDFFF || r == 0xFFFD {
				continue // U+FFFD is what the decoders substitute for invalid input; the library drops it by design
			}
			encd.Reset()
			eb, err := encd.Bytes([]byte(string(r)))
			if err != nil || len(eb) == 0 {
				continue
			}
			if db, err := cs.enc.NewDecoder().Bytes(eb); err != nil || string(db) != string(r) {
				continue // not a character this charset round-trips
			}
			idx++
			if len(eb) > 1 && step > 1 && idx%%step != 0 {
				continue
			}
			n++
			for k := len(eb); k >= 1 && bad == ""; k-- {
				buf := bytes.NewBuffer(append([]byte(nil), eb[:k]...))
				evs := s.collectEventsFromInput(buf, false)
				if k < len(eb) {
					buf.Write(eb[k:])
					evs = append(evs, s.collectEventsFromInput(buf, false)...)
				}
				if !one(evs, r) || buf.Len() != 0 {
					bad = fmt.Sprintf("U+%%04X (bytes %% x) delivered with a read boundary after %%d byte(s): %%d events, %%d bytes left", r, eb, k, len(evs), buf.Len())
				}
			}
			if badSim == "" {
				two := append(append([]byte(nil), eb...), eb...) // the character twice: the second one starts where the first one ended
				ok := sim.InjectKeyBytes(two)
				var evs []Event
				for len(sim.evch) > 0 {
					evs = append(evs, <-sim.evch)
				}
				if !ok || len(evs) != 2 || !one(evs[:1], r) || !one(evs[1:], r) {
					badSim = fmt.Sprintf("InjectKeyBytes(%% x) for U+%%04X twice in a row returned %%v with %%d events", two, r, ok, len(evs))
				}
			}
		}
		if bad == "" {
			fmt.Printf("CHARSET %%s OK %%d\n", cs.name, n)
		} else {
			fmt.Printf("CHARSET %%s FAIL %%s\n", cs.name, bad)
			fail("%%s: %%s", cs.name, bad)
		}
		if badSim == "" {
			fmt.Printf("SIMCHARSET %%s OK %%d\n", cs.name, n)
		} else {
			fmt.Printf("SIMCHARSET %%s FAIL %%s\n", cs.name, badSim)
			fail("%%s: %%s", cs.name, badSim)
		}
	}`, tbl.String(), step))
	src = strings.Replace(src, "\t\"github.com/gdamore/encoding as gencoding\"\n", "\tgencoding \"github.com/gdamore/encoding\"\n", 1)
	out, rerr := runOverlayTest(run.Eng.Repo, run.Eng.Repo, src, 240*time.Second, nil)
	seen := 0
	prefix := "CHARSET"
	if run.Def.ID == "C18" {
		prefix = "SIMCHARSET"
	}
	for _, ln := range strings.Split(out, "\n") {
		f := strings.Fields(ln)
		if len(f) < 3 || f[0] != prefix {
			continue
		}
		seen++
		ok := f[2] == "OK"
		what := "the input driver"
		if prefix == "SIMCHARSET" {
			what = "SimulationScreen.InjectKeyBytes"
		}
		g := run.AddObligation(fmt.Sprintf("charset[%s]/every-character-one-event", f[1]), "bounded", BoolT(ok),
			fmt.Sprintf("every character of %s comes out of %s as exactly one rune key event, in one read and split at every byte boundary: %s", f[1], what, strings.Join(f[2:], " ")))
		g.ReplayGo = src
	}
	if seen != len(ents) {
		run.Errors = append(run.Errors, fmt.Sprintf("charset validator: %d of %d charsets reported (%v) %s", seen, len(ents), rerr, tail(out, 600)))
	}
	run.Extra["charsets_enumerated_natively"] = seen
	run.Extra["charset_enumeration_step_for_multibyte_sets"] = step
}

// c17WidePad: "'?' always occupying the cell's width" - a wide rune the charset cannot represent is written as '?' plus a
// pad, also when combining runes the charset can represent follow it. Bounded native stand-in: the real drawCell on a
// screen with an empty description (only the cell text reaches the buffer), ISO8859-6 (U+064B is representable) and
// US-ASCII (nothing combining is), a wide rune alone and with one / two combining runes.
func c17WidePad(run *PropRun) {
	src := replayTest("tcell", []string{"golang.org/x/text/encoding", "golang.org/x/text/encoding/charmap", "github.com/gdamore/encoding as gencoding", modPath + "/terminfo"}, `
	sets := []struct {
		name string
		enc  encoding.Encoding
		comb rune // a combining rune the charset represents (0: none)
	}{{"ISO8859-6", charmap.ISO8859_6, 0x064B}, {"US-ASCII", gencoding.ASCII, 0}}
	bad := ""
	n := 0
	for _, cs := range sets {
		for _, comb := range [][]rune{nil, {0x0301}, {cs.comb}, {cs.comb, 0x0301}} {
			if len(comb) > 0 && comb[0] == 0 { continue }
			scr := &tScreen{ti: &terminfo.Terminfo{}}
			scr.encoder = cs.enc.NewEncoder()
			scr.charset = cs.name
			scr.w, scr.h = 10, 1
			scr.cells.Resize(10, 1)
			scr.buffering = true
			scr.cells.SetContent(3, 0, 0x4e16, comb, StyleDefault)
			_, _, _, cw := scr.cells.GetContent(3, 0)
			scr.buf.Reset()
			w := scr.drawCell(3, 0)
			out := scr.buf.String()
			// columns the text occupies: one per byte that is not the encoding of a combining rune
			want := "?"
			for _, r := range comb {
				if r == cs.comb && r != 0 { want += string(scr.encodeRune(r, nil)) }
			}
			want += " "
			n++
			if cw != 2 { continue } // (the width table does not call this rune wide: nothing to check)
			if w != 2 || out != want {
				bad = fmt.Sprintf("%s: wide U+4E16 with combining %U drawn as %q (drawCell returned %d), want %q: the substitute has to fill both columns", cs.name, comb, out, w, want)
				break
			}
		}
		if bad != "" { break }
	}
	if bad != "" { fmt.Println("WIDEPAD FAIL " + bad); fail("%s", bad); return }
	fmt.Printf("WIDEPAD OK %d\n", n)`)
	src = strings.Replace(src, "\t\"github.com/gdamore/encoding as gencoding\"\n", "\tgencoding \"github.com/gdamore/encoding\"\n", 1)
	out, err := runOverlayTest(run.Eng.Repo, run.Eng.Repo, src, 300*time.Second, nil)
	ok, detail := false, ""
	for _, ln := range strings.Split(out, "\n") {
		if strings.HasPrefix(ln, "WIDEPAD OK ") {
			ok = true
			detail = strings.TrimPrefix(ln, "WIDEPAD OK ") + " cells"
		}
		if strings.HasPrefix(ln, "WIDEPAD FAIL ") && detail == "" {
			detail = strings.TrimPrefix(ln, "WIDEPAD FAIL ")
		}
	}
	if !ok && detail == "" {
		run.Errors = append(run.Errors, fmt.Sprintf("wide-substitute check did not run: %v %s", err, tail(out, 600)))
		return
	}
	g := run.AddObligation("drawCell/wide-unrepresentable-rune-fills-its-width", "bounded", BoolT(ok),
		"a wide rune the charset cannot represent is drawn as '?', the combining runes the charset represents, and a pad: two columns (native, ISO8859-6 and US-ASCII, with and without combining runes): "+detail)
	g.ReplayDir = run.Eng.Repo
	g.ReplayGo = src
}
