package main

// C06 (Fini and Suspend always return): a sufficient discipline over the goroutines that disengage() waits for
// (the functions that call wg.Done: mainLoop, inputLoop) and everything they call on the same screen:
//   - every operation that can block on a channel (plain send, plain receive, blocking select) offers, as an
//     alternative, a receive on the stop channel of the engagement (`stopQ`, closed by disengage for Suspend and
//     Fini alike) - obligation .../stops-on-suspend - or at least on `quit` (closed by Fini before it waits) -
//     obligation .../stops-on-fini;
//   - wg.Wait is never reached with the screen lock held (the waited-for goroutines take that lock);
//   - Fini goes through finiOnce (a second Fini is a no-op).
// Liveness under all interleavings is NOT decided by this: the discipline removes the ways these goroutines can
// block forever on tcell's own channels; the tty (Read woken by Drain/Stop) is an assumed contract.

import (
	"fmt"
	"go/token"
	"go/types"
	"sort"
	"strings"
	"time"

	"golang.org/x/tools/go/ssa"
)

func c06Discipline(run *PropRun) {
	e := run.Eng
	sp := e.SPkgs[modPath]
	if sp == nil {
		panic(VerErr{"UNDECIDED: package not loaded"})
	}
	tm := sp.Type("tScreen")
	if tm == nil {
		panic(VerErr{"UNDECIDED: tScreen not found"})
	}
	named := tm.Type().(*types.Named)
	ms := e.Prog.MethodSets.MethodSet(types.NewPointer(named))
	isScreenMethod := func(fn *ssa.Function) bool {
		if fn == nil || fn.Pkg == nil || fn.Pkg.Pkg.Path() != modPath {
			return false
		}
		f := fn
		for f.Parent() != nil {
			f = f.Parent()
		}
		if f.Signature.Recv() == nil {
			return false
		}
		p, ok := f.Signature.Recv().Type().(*types.Pointer)
		if !ok {
			return false
		}
		n, ok := p.Elem().(*types.Named)
		return ok && n.Obj() == named.Obj()
	}
	// roots: methods that call (*sync.WaitGroup).Done (directly or deferred) - the goroutines disengage waits for
	var roots []*ssa.Function
	for i := 0; i < ms.Len(); i++ {
		fn := e.Prog.MethodValue(ms.At(i))
		if fn == nil || !isScreenMethod(fn) {
			continue
		}
		for _, b := range fn.Blocks {
			for _, in := range b.Instrs {
				var cc *ssa.CallCommon
				switch x := in.(type) {
				case *ssa.Call:
					cc = x.Common()
				case *ssa.Defer:
					cc = x.Common()
				}
				if cc != nil {
					if c := cc.StaticCallee(); c != nil && c.String() == "(*sync.WaitGroup).Done" {
						roots = append(roots, fn)
					}
				}
			}
		}
	}
	sort.Slice(roots, func(i, j int) bool { return roots[i].Name() < roots[j].Name() })
	var rootNames []string
	seenRoot := map[*ssa.Function]bool{}
	var uniq []*ssa.Function
	for _, r := range roots {
		if !seenRoot[r] {
			seenRoot[r] = true
			uniq = append(uniq, r)
			rootNames = append(rootNames, r.Name())
		}
	}
	roots = uniq
	run.AddObligation("tScreen/waited-goroutines", "discipline", BoolT(len(roots) >= 2), "the goroutines disengage waits for (callers of wg.Done) were found: "+strings.Join(rootNames, ", "))
	// reachable screen methods
	reach := map[*ssa.Function]bool{}
	var order []*ssa.Function
	var visit func(fn *ssa.Function)
	visit = func(fn *ssa.Function) {
		if reach[fn] {
			return
		}
		reach[fn] = true
		order = append(order, fn)
		for _, af := range fn.AnonFuncs {
			visit(af)
		}
		for _, b := range fn.Blocks {
			for _, in := range b.Instrs {
				if c, ok := in.(ssa.CallInstruction); ok {
					if callee := c.Common().StaticCallee(); callee != nil && isScreenMethod(callee) {
						if _, isGo := in.(*ssa.Go); !isGo {
							visit(callee)
						}
					}
				}
			}
		}
	}
	for _, r := range roots {
		visit(r)
	}
	nOps := 0
	for _, fn := range order {
		k := 0
		for _, b := range fn.Blocks {
			for _, in := range b.Instrs {
				var chans []string // "recv:x" / "send:x" of the operation
				blocking := false
				switch x := in.(type) {
				case *ssa.Send:
					blocking = true
					chans = []string{"send:" + chanName(x.Chan)}
				case *ssa.UnOp:
					if x.Op == token.ARROW {
						blocking = true
						chans = []string{"recv:" + chanName(x.X)}
					}
				case *ssa.Select:
					blocking = x.Blocking
					for _, s := range x.States {
						d := "recv:"
						if s.Dir == types.SendOnly {
							d = "send:"
						}
						chans = append(chans, d+chanName(s.Chan))
					}
				}
				if !blocking {
					continue
				}
				k++
				nOps++
				has := func(name string) bool {
					for _, c := range chans {
						if c == "recv:"+name {
							return true
						}
					}
					return false
				}
				// an operation whose only purpose is to wait for the stop itself needs no alternative
				base := fmt.Sprintf("tScreen.%s/blocking#%d[%s]", fnShort(fn), k, strings.Join(chans, ","))
				pos := e.posStr(in.Pos())
				g1 := run.AddObligation(base+"/stops-on-suspend", "discipline", BoolT(has("stopQ")),
					"a blocking channel operation in a goroutine disengage waits for offers `<-stopQ` as an alternative, so Suspend cannot wait for it forever ("+pos+")")
				g1.Pos = pos
				g2 := run.AddObligation(base+"/stops-on-fini", "discipline", BoolT(has("stopQ") || has("quit")),
					"a blocking channel operation in a goroutine disengage waits for offers `<-stopQ` or `<-quit` as an alternative, so Fini cannot wait for it forever ("+pos+")")
				g2.Pos = pos
			}
		}
	}
	run.Extra["blocking_channel_operations_in_waited_goroutines"] = nOps
	run.Extra["functions_reached_from_waited_goroutines"] = len(order)
	// wg.Wait never with the screen lock held: reuse the lock-state dataflow of the discipline module
	if lc := e.Specs.LockClasses["tScreen"]; lc != nil {
		d := &discAnalysis{e: e, lc: lc, named: named, sites: map[string]*discSite{}, memo: map[string]heldSet{}, inprog: map[string]bool{}}
		d.waitSites = map[string]bool{}
		d.blockSites = map[string]*chanSite{}
		for _, nme := range []string{"Fini", "Suspend", "Resume"} {
			if sel := ms.Lookup(sp.Pkg, nme); sel != nil {
				d.entry(e.Prog.MethodValue(sel))
			}
		}
		var ws []string
		for k := range d.waitSites {
			ws = append(ws, k)
		}
		sort.Strings(ws)
		for _, k := range ws {
			run.AddObligation(k, "discipline", BoolT(d.waitSites[k]), "wg.Wait is reached only with the screen lock released (the goroutines it waits for take that lock)")
		}
		run.AddObligation("tScreen/wait-sites-found", "discipline", BoolT(len(ws) >= 1), "the wg.Wait call of disengage was found on the Fini/Suspend paths")
		// a goroutine disengage waits for never parks on a channel while it holds the screen lock: disengage takes that
		// lock before it closes stopQ, so a reader blocked in a send with the lock held is never told to stop
		var bs []string
		for k, s := range d.blockSites {
			if reach[s.Fn] {
				bs = append(bs, k)
			}
		}
		sort.Strings(bs)
		for _, k := range bs {
			s := d.blockSites[k]
			g := run.AddObligation(k, "discipline", BoolT(s.Ok), "a blocking channel operation in a goroutine disengage waits for is reached only with the screen lock released: disengage takes the lock before it closes stopQ ("+e.posStr(s.Pos)+")")
			g.Pos = e.posStr(s.Pos)
		}
		run.AddObligation("tScreen/blocking-sites-lock-state-found", "discipline", BoolT(len(bs) >= 2), "the lock state at the blocking channel operations of the waited goroutines was computed")
	} else {
		run.Errors = append(run.Errors, "no lockclass for tScreen in the contract files")
	}
	// a channel that some function of the package sends on is never closed: after Fini "further Screen calls do not
	// panic", and a send on a closed channel (PostEvent, the input loop) is a runtime fault. Whole-package scan of the
	// close / send sites on struct-field channels of the terminfo screen (tScreen and the embedded baseScreen).
	{
		type csite struct {
			fn  *ssa.Function
			pos token.Pos
		}
		fieldChan := func(v ssa.Value) (string, bool) {
			if u, ok := v.(*ssa.UnOp); ok && u.Op == token.MUL {
				if fa, ok := u.X.(*ssa.FieldAddr); ok {
					if pt, ok := fa.X.Type().Underlying().(*types.Pointer); ok {
						if n, ok := pt.Elem().(*types.Named); ok && (n.Obj().Name() == "tScreen" || n.Obj().Name() == "baseScreen") {
							return chanName(v), true
						}
					}
				}
			}
			return "", false
		}
		closes := map[string][]csite{}
		sends := map[string][]csite{}
		var all []*ssa.Function
		var addFn func(fn *ssa.Function)
		seenFn := map[*ssa.Function]bool{}
		addFn = func(fn *ssa.Function) {
			if fn == nil || seenFn[fn] {
				return
			}
			seenFn[fn] = true
			all = append(all, fn)
			for _, a := range fn.AnonFuncs {
				addFn(a)
			}
		}
		for _, mem := range sp.Members {
			switch m := mem.(type) {
			case *ssa.Function:
				addFn(m)
			case *ssa.Type:
				for _, t := range []types.Type{m.Type(), types.NewPointer(m.Type())} {
					mset := e.Prog.MethodSets.MethodSet(t)
					for i := 0; i < mset.Len(); i++ {
						if f := e.Prog.MethodValue(mset.At(i)); f != nil && f.Pkg == sp && f.Synthetic == "" {
							addFn(f)
						}
					}
				}
			}
		}
		for _, fn := range all {
			for _, b := range fn.Blocks {
				for _, in := range b.Instrs {
					switch x := in.(type) {
					case *ssa.Send:
						if n, ok := fieldChan(x.Chan); ok {
							sends[n] = append(sends[n], csite{fn, x.Pos()})
						}
					case *ssa.Select:
						for _, stt := range x.States {
							if stt.Dir == types.SendOnly {
								if n, ok := fieldChan(stt.Chan); ok {
									sends[n] = append(sends[n], csite{fn, x.Pos()})
								}
							}
						}
					case ssa.CallInstruction:
						if bi, isB := x.Common().Value.(*ssa.Builtin); isB && bi.Name() == "close" {
							if n, ok := fieldChan(x.Common().Args[0]); ok {
								closes[n] = append(closes[n], csite{fn, x.Pos()})
							}
						}
					}
				}
			}
		}
		var cn []string
		for n := range closes {
			cn = append(cn, n)
		}
		sort.Strings(cn)
		nClose := 0
		for _, n := range cn {
			for _, c := range closes[n] {
				nClose++
				why := ""
				if len(sends[n]) > 0 {
					why = fmt.Sprintf("; %s sends on it (%s)", fnShort(sends[n][0].fn), e.posStr(sends[n][0].pos))
				}
				g := run.AddObligation(fmt.Sprintf("tScreen.%s/close[%s]/never-sent-on", fnShort(c.fn), n), "discipline", BoolT(len(sends[n]) == 0),
					fmt.Sprintf("the screen channel %s closed in %s is one nothing ever sends on (a send on a closed channel is a runtime fault: a Screen call after Fini would panic)%s (%s)", n, fnShort(c.fn), why, e.posStr(c.pos)))
				g.Pos = e.posStr(c.pos)
			}
		}
		sn := 0
		for _, v := range sends {
			sn += len(v)
		}
		run.AddObligation("tScreen/channel-close-and-send-sites-found", "discipline", BoolT(nClose >= 1 && sn >= 2), "the close site of quit and the send sites of the event queue were found by the package scan")
		run.Extra["screen_channel_close_sites"] = nClose
		run.Extra["screen_channel_send_sites"] = sn
	}
	// Fini is idempotent (finiOnce) and finish closes quit before finalize waits
	fini := e.FindFunc(modPath + ".(*tScreen).Fini")
	finish := e.FindFunc(modPath + ".(*tScreen).finish")
	once := false
	if fini != nil {
		for _, b := range fini.Blocks {
			for _, in := range b.Instrs {
				if c, ok := in.(*ssa.Call); ok {
					if callee := c.Common().StaticCallee(); callee != nil && callee.String() == "(*sync.Once).Do" {
						once = true
					}
				}
			}
		}
	}
	run.AddObligation("tScreen.(*tScreen).Fini/once", "discipline", BoolT(once), "Fini runs the shutdown through sync.Once: a second Fini is a no-op")
	closeFirst := false
	if finish != nil && len(finish.Blocks) > 0 {
		sawClose := false
		for _, in := range finish.Blocks[0].Instrs {
			if c, ok := in.(*ssa.Call); ok {
				if b, isB := c.Common().Value.(*ssa.Builtin); isB && b.Name() == "close" && chanName(c.Common().Args[0]) == "quit" {
					sawClose = true
				}
				if callee := c.Common().StaticCallee(); callee != nil && callee.Name() == "finalize" {
					closeFirst = sawClose
				}
			}
		}
	}
	// resize delivery works again after Suspend/Resume: every engage that starts the tty has registered the resize
	// callback first, and disengage unregisters it
	findInvoke := func(fn *ssa.Function, method string) (blk *ssa.BasicBlock, idx int, nilArg bool) {
		if fn == nil {
			return nil, 0, false
		}
		for _, b := range fn.Blocks {
			for i, in := range b.Instrs {
				if c, ok := in.(*ssa.Call); ok && c.Common().IsInvoke() && c.Common().Method.Name() == method {
					na := false
					if len(c.Common().Args) == 1 {
						if k, isC := c.Common().Args[0].(*ssa.Const); isC && k.IsNil() {
							na = true
						}
					}
					return b, i, na
				}
			}
		}
		return nil, 0, false
	}
	engage := e.FindFunc(modPath + ".(*tScreen).engage")
	diseng := e.FindFunc(modPath + ".(*tScreen).disengage")
	nb, ni, nnil := findInvoke(engage, "NotifyResize")
	sb, si, _ := findInvoke(engage, "Start")
	regOK := nb != nil && sb != nil && !nnil && (nb == sb && ni < si || nb != sb && nb.Dominates(sb))
	run.AddObligation("tScreen.(*tScreen).engage/registers-resize-callback", "discipline", BoolT(regOK), "every engage that starts the tty has registered a (non-nil) resize callback before, so resize delivery works again after Suspend/Resume")
	db, _, dnil := findInvoke(diseng, "NotifyResize")
	run.AddObligation("tScreen.(*tScreen).disengage/unregisters-resize-callback", "discipline", BoolT(db != nil && dnil), "disengage unregisters the resize callback (NotifyResize(nil))")
	// the reader parked in tty.Read is woken by Drain; that has to happen before disengage waits for it
	drainFirst := false
	if diseng != nil {
		var drainB, waitB *ssa.BasicBlock
		drainI, waitI := -1, -1
		closeB, closeI := (*ssa.BasicBlock)(nil), -1
		for _, b := range diseng.Blocks {
			for i, in := range b.Instrs {
				if c, ok := in.(*ssa.Call); ok {
					if c.Common().IsInvoke() && c.Common().Method.Name() == "Drain" && drainB == nil {
						drainB, drainI = b, i
					}
					if callee := c.Common().StaticCallee(); callee != nil && callee.String() == "(*sync.WaitGroup).Wait" && waitB == nil {
						waitB, waitI = b, i
					}
					if bi, isB := c.Common().Value.(*ssa.Builtin); isB && bi.Name() == "close" && chanName(c.Common().Args[0]) == "stopQ" && closeB == nil {
						closeB, closeI = b, i
					}
				}
			}
		}
		before := func(ab *ssa.BasicBlock, ai int, bb *ssa.BasicBlock, bi int) bool {
			return ab != nil && bb != nil && (ab == bb && ai < bi || ab != bb && ab.Dominates(bb))
		}
		drainFirst = before(drainB, drainI, waitB, waitI) && before(closeB, closeI, waitB, waitI)
	}
	run.AddObligation("tScreen.(*tScreen).disengage/stop-closed-and-tty-drained-before-wait", "discipline", BoolT(drainFirst), "disengage closes stopQ and drains the tty (which wakes a reader parked in tty.Read) before it waits for the goroutines")
	// the package's own Tty implementations: Stop always ends the resize-watcher goroutine (closes its stop channel and
	// waits for it), also when restoring the terminal settings fails - which is what happens when the terminal has hung
	// up, the very case in which the read error makes the application shut down
	for _, tn := range []string{"devTty", "stdIoTty"} {
		fn := e.FindFunc(modPath + ".(*" + tn + ").Stop")
		if fn == nil || len(fn.Blocks) == 0 {
			continue
		}
		var must []*ssa.BasicBlock
		for _, b := range fn.Blocks {
			for _, in := range b.Instrs {
				if c, ok := in.(*ssa.Call); ok {
					if bi, isB := c.Common().Value.(*ssa.Builtin); isB && bi.Name() == "close" && chanName(c.Common().Args[0]) == "stopQ" {
						must = append(must, b)
					}
					if callee := c.Common().StaticCallee(); callee != nil && callee.String() == "(*sync.WaitGroup).Wait" {
						must = append(must, b)
					}
				}
			}
		}
		ok := len(must) >= 2
		for _, m := range must {
			// is a return reachable from the entry without passing through m?
			seen := map[*ssa.BasicBlock]bool{m: true}
			var reach func(b *ssa.BasicBlock) bool
			reach = func(b *ssa.BasicBlock) bool {
				if seen[b] {
					return false
				}
				seen[b] = true
				if len(b.Instrs) > 0 {
					if _, isRet := b.Instrs[len(b.Instrs)-1].(*ssa.Return); isRet {
						return true
					}
				}
				for _, s := range b.Succs {
					if reach(s) {
						return true
					}
				}
				return false
			}
			if fn.Blocks[0] != m && reach(fn.Blocks[0]) {
				ok = false
			}
		}
		run.AddObligation(fmt.Sprintf("%s.(*%s).Stop/always-ends-the-watcher", tn, tn), "discipline", BoolT(ok),
			"every path through Stop closes the watcher's stop channel and waits for it (no early return, e.g. when restoring the terminal settings fails): no goroutine is left behind after Fini")
	}
	// after Fini, PollEvent returns nil AT ONCE - also when events are still queued: a select between the stop channel
	// and the queue picks at random among ready cases, so PollEvent has to look at the stop channel first, alone
	if poll := e.FindFunc(modPath + ".(*baseScreen).PollEvent"); poll != nil && len(poll.Blocks) > 0 {
		first := ""
		okFirst := false
		seenB := map[*ssa.BasicBlock]bool{}
		var walk func(b *ssa.BasicBlock) bool
		walk = func(b *ssa.BasicBlock) bool {
			if seenB[b] {
				return false
			}
			seenB[b] = true
			for _, in := range b.Instrs {
				switch x := in.(type) {
				case *ssa.Select:
					var cs []string
					for _, st := range x.States {
						d := "recv:"
						if st.Dir == types.SendOnly {
							d = "send:"
						}
						cs = append(cs, d+chanName(st.Chan))
					}
					first = fmt.Sprintf("select(blocking=%v)[%s]", x.Blocking, strings.Join(cs, ","))
					okFirst = !x.Blocking && len(x.States) == 1 && x.States[0].Dir == types.RecvOnly && chanName(x.States[0].Chan) == "StopQ()"
					return true
				case *ssa.Send:
					first = "send:" + chanName(x.Chan)
					return true
				case *ssa.UnOp:
					if x.Op == token.ARROW {
						first = "recv:" + chanName(x.X)
						return true
					}
				}
			}
			if len(b.Succs) == 1 {
				return walk(b.Succs[0])
			}
			return false
		}
		walk(poll.Blocks[0])
		g := run.AddObligation("baseScreen.(*baseScreen).PollEvent/checks-stop-first", "discipline", BoolT(okFirst),
			"PollEvent first looks at the stop channel alone (non-blocking) before it waits on queue and stop channel together: after Fini it returns nil at once even when events are still queued (first channel operation found: "+first+")")
		g.ReplayGo = replayTest("tcell", nil, `
	for round := 0; round < 40; round++ {
		s := NewSimulationScreen("")
		if err := s.Init(); err != nil { fail("init: %v", err); return }
		for i := 0; i < 5; i++ { s.InjectKey(KeyRune, rune('a'+i), ModNone) } // the application has not polled these
		s.Fini()
		if ev := s.PollEvent(); ev != nil {
			fail("PollEvent() after Fini() returned %T (round %d): with events still queued it has to return nil at once", ev, round)
			return
		}
	}`)
	} else {
		run.Errors = append(run.Errors, "baseScreen.PollEvent not found")
	}
	// (an obligation "finish closes quit before it waits" used to be generated here.  Since every blocking operation of
	// the waited goroutines now offers the stop channel, which disengage closes itself before it waits, the order in
	// which finish closes quit no longer matters for Fini returning: the clause demanded more than the property and
	// was removed; closeFirst is kept in the evidence only.)
	run.Extra["finish_closes_quit_before_finalize"] = closeFirst
}

// c06LifecycleSmoke: bounded native stand-in that is run on every check (the modular clauses are conditional on the
// window query succeeding, and a repair of engage that satisfied the first version of them hung every Show after a
// plain Suspend/Resume): Init, Show, then for each scenario Suspend, [window change], Resume, Show, Sync, and finally
// Fini - each call has to return within 3 s. Scenarios: the window unchanged; shrunk while suspended and grown back
// after Resume; grown while suspended.
func c06LifecycleSmoke(run *PropRun) {
	src := replayTest("tcell", []string{"time", modPath + "/terminfo", "_ " + modPath + "/terminfo/base"}, `
	ti, err := terminfo.LookupTerminfo("xterm")
	if err != nil { fail("no xterm description: %v", err); return }
	within := func(what string, f func()) bool {
		done := make(chan struct{})
		go func() { f(); close(done) }()
		select {
		case <-done:
			return true
		case <-time.After(3 * time.Second):
			fail("%s did not return within 3s", what)
			return false
		}
	}
	type step struct{ w, h int }
	for si, sc := range [][2]step{{{80, 24}, {80, 24}}, {{40, 10}, {80, 24}}, {{120, 50}, {120, 50}}} {
		tty := &c06SmokeTty{w: 80, h: 24, wake: make(chan struct{}, 16)}
		s, err := NewTerminfoScreenFromTtyTerminfo(tty, ti)
		if err != nil { fail("new screen: %v", err); return }
		if err := s.Init(); err != nil { fail("init: %v", err); return }
		s.SetContent(1, 1, 'x', nil, StyleDefault)
		if !within(fmt.Sprintf("scenario %d: Show", si), s.Show) { return }
		if !within(fmt.Sprintf("scenario %d: Suspend", si), func() { s.Suspend() }) { return }
		tty.set(sc[0].w, sc[0].h)
		if !within(fmt.Sprintf("scenario %d: Resume", si), func() { s.Resume() }) { return }
		s.SetContent(2, 1, 'y', nil, StyleDefault)
		if !within(fmt.Sprintf("scenario %d: Show after Resume (window %dx%d while suspended)", si, sc[0].w, sc[0].h), s.Show) { return }
		tty.set(sc[1].w, sc[1].h)
		if !within(fmt.Sprintf("scenario %d: Sync after the window became %dx%d", si, sc[1].w, sc[1].h), s.Sync) { return }
		if w, h := s.Size(); w != sc[1].w || h != sc[1].h { fail("scenario %d: Size() = %dx%d after Sync, the window is %dx%d", si, w, h, sc[1].w, sc[1].h); return }
		if !within(fmt.Sprintf("scenario %d: Fini", si), s.Fini) { return }
	}`) + `
type c06SmokeTty struct {
	mu   sync.Mutex
	w, h int
	wake chan struct{}
}

func (t *c06SmokeTty) set(w, h int)                    { t.mu.Lock(); t.w, t.h = w, h; t.mu.Unlock() }
func (t *c06SmokeTty) Read(p []byte) (int, error)      { <-t.wake; return 0, nil }
func (t *c06SmokeTty) Write(p []byte) (int, error)     { return len(p), nil }
func (t *c06SmokeTty) Close() error                    { return nil }
func (t *c06SmokeTty) Start() error                    { return nil }
func (t *c06SmokeTty) Stop() error                     { return nil }
func (t *c06SmokeTty) Drain() error                    { select { case t.wake <- struct{}{}: default: }; return nil }
func (t *c06SmokeTty) NotifyResize(cb func())          {}
func (t *c06SmokeTty) WindowSize() (WindowSize, error) { t.mu.Lock(); defer t.mu.Unlock(); return WindowSize{Width: t.w, Height: t.h}, nil }
`
	src = strings.Replace(src, "import (\n", "import (\n\t\"sync\"\n", 1)
	out, err := runOverlayTest(run.Eng.Repo, run.Eng.Repo, src, 120*time.Second, nil)
	ok, detail := false, ""
	switch {
	case strings.Contains(out, "VERIF-REPLAY-FAIL"):
		detail = firstLine(out[strings.Index(out, "VERIF-REPLAY-FAIL"):])
	case strings.Contains(out, "VERIF-REPLAY-PASS"):
		ok = true
	default:
		run.Errors = append(run.Errors, fmt.Sprintf("lifecycle smoke run did not complete: %v %s", err, tail(out, 400)))
		return
	}
	g := run.AddObligation("tScreen/suspend-resume-show-fini-return", "bounded", BoolT(ok),
		"native, scripted tty: Init, Show, Suspend, (window change), Resume, Show, Sync, Fini each return within 3 s and Size() follows the window - unchanged window, shrunk while suspended and back, grown while suspended "+detail)
	g.ReplayGo = src
}
