package main

// C07 / C15: every parameterized string of every registered description (and the sequences tcell hard-codes)
// is evaluated by the REAL TParm / TGoto / TColor with fully symbolic parameters (EV mode, all paths) and compared
// path by path with the reference terminfo(5) semantics.

import (
	"fmt"
	"go/types"
	"sort"
	"strings"
	"time"
)

type evalOut struct {
	PC  []*Term
	Out StrV
}

// evalTParm runs the real (*Terminfo).TParm on a concrete program with the given parameter values.
func evalMethod(db *TermDB, te *TermEntry, method string, args []Value) ([]evalOut, error) {
	c := db.Ev.C
	e := c.Eng
	fn := e.FindFunc(modPath + "/terminfo.(*Terminfo)." + method)
	if fn == nil {
		return nil, fmt.Errorf("UNDECIDED: (*Terminfo).%s not found", method)
	}
	st := db.St.clone()
	st.Frames = nil
	st.PathID = 0
	paths, err := db.Ev.Call(st, fn, append([]Value{te.Ptr}, args...))
	if err != nil {
		return nil, err
	}
	var out []evalOut
	for _, p := range paths {
		s, ok := p.Ret.(StrV)
		if !ok {
			return nil, fmt.Errorf("%s did not return a string", method)
		}
		out = append(out, evalOut{PC: p.PC, Out: s})
	}
	return out, nil
}

func symInt(c *Ctx, name string) *Term { return Var(c.freshName(name), BVSort(64)) }

func ifaceSliceOf(c *Ctx, st *State, vals []Value, dyn []types.Type) SliceV {
	it := types.NewInterfaceType(nil, nil)
	av := &ArrayV{Elem: it}
	for i, v := range vals {
		av.Elems = append(av.Elems, IfaceV{Dyn: dyn[i], Val: v, Iface: it})
	}
	o := c.newObject("varargs", types.NewArray(it, int64(len(vals))))
	c.initVals[o] = av
	st.Mem[o] = av
	return SliceV{Elem: it, Obj: o, CLen: len(vals), CCap: len(vals)}
}

// compareWithRef produces the claim instances: on every pair of (real path, reference path) the outputs agree.
func compareWithRef(c *Ctx, st *State, real []evalOut, ref []RefPath) (inst []*Obligation, undef string) {
	for _, rp := range ref {
		if rp.Undef != "" {
			return nil, rp.Undef
		}
	}
	for _, tp := range real {
		for _, rp := range ref {
			pc := append(append([]*Term(nil), tp.PC...), rp.Cond...)
			var claim *Term
			func() {
				defer func() {
					if r := recover(); r != nil {
						if _, ok := r.(VerErr); ok {
							claim = nil
							return
						}
						panic(r)
					}
				}()
				claim = c.strEq(st, tp.Out, rp.Out)
			}()
			if claim == nil {
				// shapes not comparable piecewise: they differ unless the path pair is infeasible
				claim = False()
			}
			inst = append(inst, &Obligation{PC: pc, Claim: claim})
		}
	}
	return inst, ""
}

type progUse struct {
	Entry *TermEntry
	Field string
}

func maxParam(prog string) int {
	m := 0
	for i := 0; i+2 < len(prog); i++ {
		if prog[i] == '%' && prog[i+1] == 'p' && prog[i+2] >= '1' && prog[i+2] <= '9' {
			if n := int(prog[i+2] - '0'); n > m {
				m = n
			}
			i += 2
		} else if prog[i] == '%' && prog[i+1] == '%' {
			i++
		}
	}
	return m
}

// hardCoded: parameterized sequences tcell builds itself (tscreen.go prepare* functions).
var hardCoded = map[string]string{
	"tcell.setFgRGB":       "\x1b[38;2;%p1%d;%p2%d;%p3%dm",
	"tcell.setBgRGB":       "\x1b[48;2;%p1%d;%p2%d;%p3%dm",
	"tcell.setFgBgRGB":     "\x1b[38;2;%p1%d;%p2%d;%p3%d;48;2;%p4%d;%p5%d;%p6%dm",
	"tcell.underColor":     "\x1b[58:5:%p1%dm",
	"tcell.underRGB":       "\x1b[58:2::%p1%d:%p2%d:%p3%dm",
	"tcell.setWindowSize":  "\x1b[8;%p1%p2%d;%dt",
	"tcell.256color.setaf": "\x1b[%?%p1%{8}%<%t3%p1%d%e%p1%{16}%<%t9%p1%{8}%-%d%e38;5;%p1%d%;m",
	"tcell.256color.setab": "\x1b[%?%p1%{8}%<%t4%p1%d%e%p1%{16}%<%t10%p1%{8}%-%d%e48;5;%p1%d%;m",
}

// grammarCorpus: a small fixed corpus of well-formed programs covering the terminfo(5) grammar (bounded stand-in
// for "arbitrary well-formed strings"; labelled bounded in the evidence, never counted as a proof of the general claim).
var grammarCorpus = []string{
	"%p1%d", "%p1%c", "%%%p1%d%%", "%i%p1%d;%p2%d", "%p1%{10}%+%d", "%p1%p2%-%d", "%p1%p2%*%d", "%p1%p2%/%d", "%p1%p2%m%d",
	"%p1%p2%&%d", "%p1%p2%|%d", "%p1%p2%^%d", "%p1%~%d", "%p1%!%d", "%p1%p2%=%d", "%p1%p2%>%d", "%p1%p2%<%d",
	"%p1%p2%A%d", "%p1%p2%O%d", "%'a'%c", "%{65}%c", "%p1%Pa%ga%d", "%p1%PA%gA%d",
	"%?%p1%tA%;", "%?%p1%tA%eB%;", "%?%p1%tA%e%p2%tB%eC%;", "%?%p1%t%?%p2%tA%eB%;%eC%;", "%?%p1%tX%?%p2%tA%;Y%eC%;Z",
	"%p1%2d", "%p1%02d", "%p1%x", "%p1%:-3d|",
	"%p1%#x", "%p1% d", "%p1%#o", "%p1%:+d", "%p1%:#5x|", "%p1%3.2d|",
}

func c07Programs(run *PropRun) {
	e := run.Eng
	db := LoadTermDB(e, true)
	c := db.Ev.C
	progs := map[string][]progUse{}
	for _, te := range db.Entries {
		for i := 0; i < db.TI.NumFields(); i++ {
			f := db.TI.Field(i)
			if !isString(f.Type()) || strings.HasPrefix(f.Name(), "Key") {
				continue
			}
			s := db.str(te, f.Name())
			if strings.Contains(s, "%") {
				progs[s] = append(progs[s], progUse{te, f.Name()})
			}
		}
	}
	var plist []string
	for p := range progs {
		plist = append(plist, p)
	}
	sort.Strings(plist)
	xterm := db.ByName["xterm"]
	if xterm == nil && len(db.Entries) > 0 {
		xterm = db.Entries[0]
	}
	nprog, npaths := 0, 0
	check := func(name, prog, users string, bounded bool) {
		st := db.St.clone()
		nparam := 9
		useStr := strings.Contains(prog, "%s") || strings.Contains(prog, "%l")
		var args []Value
		var dyn []types.Type
		var rps []refVal
		for i := 0; i < nparam; i++ {
			if useStr {
				id := Var(c.freshName(fmt.Sprintf("p%d.str", i+1)), IntSort)
				sv := c.strOfID(st, id)
				args = append(args, sv)
				dyn = append(dyn, types.Typ[types.String])
				svc := sv
				rps = append(rps, refVal{S: &svc})
			} else {
				t := symInt(c, fmt.Sprintf("p%d", i+1))
				args = append(args, t)
				dyn = append(dyn, types.Typ[types.Int])
				rps = append(rps, refVal{I: t})
			}
		}
		db.St = st
		va := ifaceSliceOf(c, st, args, dyn)
		real, err := evalMethod(db, xterm, "TParm", []Value{conc(prog), va})
		kind := "table"
		src := fmt.Sprintf("TParm(%q, p1..p9 symbolic) == terminfo(5) reference on every path; used by %s", prog, users)
		if err != nil {
			run.Errors = append(run.Errors, fmt.Sprintf("%s: evaluating TParm(%q): %v", name, prog, err))
			return
		}
		ref := RefTParm(c, st, prog, rps)
		inst, undef := compareWithRef(c, st, real, ref)
		nprog++
		npaths += len(real)
		if undef != "" {
			// the reference semantics is undefined (ill-typed use): only robustness is claimed (the evaluation terminated without panic)
			run.AddObligation(name, kind, True(), src+" [reference undefined: "+undef+"; termination and absence of panics only]")
			return
		}
		g := &ObGroup{Name: name, Kind: kind, Fn: "table", Src: src}
		for _, o := range inst {
			o.Name, o.Kind, o.Src = name, kind, src
			g.Instances = append(g.Instances, o)
		}
		if bounded {
			g.Kind = "table-bounded"
		}
		if !useStr {
			pvars := append([]Value(nil), args...)
			g.ReplayGen = func(model map[string]string) string {
				return tparmReplay(c, prog, pvars, model)
			}
			g.ReplayDir = e.Repo + "/terminfo"
		}
		run.Groups = append(run.Groups, g)
	}
	for _, p := range plist {
		us := progs[p]
		var names []string
		for i, u := range us {
			if i < 4 {
				names = append(names, u.Entry.Name+"."+u.Field)
			}
		}
		if len(us) > 4 {
			names = append(names, fmt.Sprintf("+%d more", len(us)-4))
		}
		check(fmt.Sprintf("tparm[%s.%s]", us[0].Entry.Name, us[0].Field), p, strings.Join(names, ","), false)
	}
	var hk []string
	for k := range hardCoded {
		hk = append(hk, k)
	}
	sort.Strings(hk)
	for _, k := range hk {
		check("tparm["+k+"]", hardCoded[k], k, false)
	}
	for i, p := range grammarCorpus {
		check(fmt.Sprintf("tparm-grammar[%d:%s]", i, p), p, "grammar corpus (bounded stand-in)", true)
	}
	// concrete calls the symbolic runs cannot express: fewer parameters than the program mentions (missing ones read as
	// 0, %i still applies to those that are there), and %l on text with multi-byte characters (strlen counts bytes)
	type cc struct {
		prog string
		vals []interface{}
		want string
	}
	for i, k := range []cc{
		{"\x1b[%i%p1%dG", []interface{}{int64(0)}, "\x1b[1G"},
		{"\x1b[%i%p1%dG", []interface{}{int64(41)}, "\x1b[42G"},
		{"%i%p1%d;%p2%d", []interface{}{int64(5), "x"}, "6;0"},
		{"%p1%l%d", []interface{}{"h\u00e9llo"}, "6"},
		{"%p1%l%d", []interface{}{"\u65e5\u672c"}, "6"},
		{"<%p1%l%d:%p1%s>", []interface{}{"\u00fcber"}, "<5:\u00fcber>"},
		{"%p1%l%d", []interface{}{""}, "0"},
	} {
		st := db.St.clone()
		db.St = st
		var args []Value
		var dyn []types.Type
		var lits []string
		for _, v := range k.vals {
			switch x := v.(type) {
			case int64:
				args = append(args, bv64(x))
				dyn = append(dyn, types.Typ[types.Int])
				lits = append(lits, fmt.Sprintf("int(%d)", x))
			case string:
				args = append(args, conc(x))
				dyn = append(dyn, types.Typ[types.String])
				lits = append(lits, fmt.Sprintf("%q", x))
			}
		}
		name := fmt.Sprintf("tparm-concrete[%d:%s]", i, k.prog)
		real, err := evalMethod(db, xterm, "TParm", []Value{conc(k.prog), ifaceSliceOf(c, st, args, dyn)})
		got := "?"
		if err == nil && len(real) == 1 {
			ps := flattenRope(real[0].Out)
			if len(ps) == 0 {
				got = ""
			} else if len(ps) == 1 && ps[0].Conc != nil {
				got = *ps[0].Conc
			}
		}
		if err != nil {
			got = "error: " + err.Error()
		}
		g := run.AddObligation(name, "table-bounded", BoolT(got == k.want), fmt.Sprintf("TParm(%q, %s) == %q per terminfo(5) [the real code gives %q]", k.prog, strings.Join(lits, ", "), k.want, got))
		g.ReplayDir = e.Repo + "/terminfo"
		g.ReplayGo = replayTest("terminfo", nil, fmt.Sprintf(`
	ti := &Terminfo{}
	if got := ti.TParm(%q, %s); got != %q { fail("TParm(%%q, %%s) = %%q, terminfo(5) gives %%q", %q, %q, got, %q); return }`, k.prog, strings.Join(lits, ", "), k.want, k.prog, strings.Join(lits, ", "), k.want))
	}
	// static variables persist across calls: TParm("%p1%PV") then TParm("%gV%d") prints the first call's parameter
	for _, v := range []byte{'A', 'M', 'Z'} {
		st := db.St.clone()
		db.St = st
		x := symInt(c, "x")
		zero := bv64(0)
		mkArgs := func(first *Term) SliceV {
			vals := []Value{first}
			dyn := []types.Type{types.Typ[types.Int]}
			for i := 1; i < 9; i++ {
				vals = append(vals, zero)
				dyn = append(dyn, types.Typ[types.Int])
			}
			return ifaceSliceOf(c, st, vals, dyn)
		}
		fn := e.FindFunc(modPath + "/terminfo.(*Terminfo).TParm")
		name := fmt.Sprintf("tparm-static[%c]", v)
		p1, err := db.Ev.Call(st, fn, []Value{xterm.Ptr, conc("%p1%P" + string(v)), mkArgs(x)})
		if err != nil || len(p1) != 1 {
			run.Errors = append(run.Errors, fmt.Sprintf("%s: first call: %v", name, err))
			continue
		}
		st2 := p1[0].St
		st2.Frames = nil
		p2, err := db.Ev.Call(st2, fn, []Value{xterm.Ptr, conc("%g" + string(v) + "%d"), mkArgs(zero)})
		if err != nil {
			run.Errors = append(run.Errors, fmt.Sprintf("%s: second call: %v", name, err))
			continue
		}
		g := &ObGroup{Name: name, Kind: "table", Fn: "table", Src: fmt.Sprintf("TParm(\"%%p1%%P%c\", x) followed by TParm(\"%%g%c%%d\") yields the decimal rendering of x (static variables persist across calls)", v, v)}
		for _, p := range p2 {
			out, _ := p.Ret.(StrV)
			var claim *Term
			func() {
				defer func() {
					if r := recover(); r != nil {
						claim = False()
					}
				}()
				claim = c.strEq(st2, out, StrV{Spec: "itoa", SArgs: []Value{x}})
			}()
			g.Instances = append(g.Instances, &Obligation{Name: name, Kind: "table", PC: p.PC, Claim: claim, Src: g.Src})
		}
		vv := v
		g.ReplayDir = e.Repo + "/terminfo"
		g.ReplayGo = replayTest("terminfo", nil, fmt.Sprintf(`
	ti := &Terminfo{}
	ti.TParm("%%p1%%P%c", 4711)
	if got := ti.TParm("%%g%c%%d"); got != "4711" { fail("static variable %c: second call printed %%q, want 4711", got); return }`, vv, vv, vv))
		run.Groups = append(run.Groups, g)
	}
	// safety obligations raised while evaluating the real code (index, nil, division) are part of the claim
	run.Groups = append(run.Groups, groupObligations(c.Obs)...)
	c.Obs = nil
	run.Extra["distinct_programs_evaluated"] = nprog
	run.Extra["real_code_paths"] = npaths
	run.Extra["grammar_corpus_programs_bounded"] = len(grammarCorpus)
	for k := range c.Assumed {
		run.Assumed[k] = true
	}
}

// c15Goto: TGoto / TColor of every description against the reference evaluation of its own capability strings.
func c15Tables(run *PropRun) {
	e := run.Eng
	db := LoadTermDB(e, true)
	c := db.Ev.C
	n := 0
	for _, te := range db.Entries {
		cup := db.str(te, "SetCursor")
		if cup != "" {
			st := db.St.clone()
			db.St = st
			col, row := symInt(c, "col"), symInt(c, "row")
			real, err := evalMethod(db, te, "TGoto", []Value{col, row})
			name := fmt.Sprintf("tgoto[%s]", te.Name)
			src := fmt.Sprintf("TGoto(col,row) of %s equals the terminfo(5) evaluation of its cup string %q with (row, col), for all 64-bit positions", te.Name, cup)
			if err != nil {
				run.Errors = append(run.Errors, name+": "+err.Error())
			} else {
				ref := RefTParm(c, st, cup, []refVal{{I: row}, {I: col}})
				inst, undef := compareWithRef(c, st, real, ref)
				g := &ObGroup{Name: name, Kind: "table", Fn: "table", Src: src}
				tname, cupS := te.Name, cup
				g.ReplayDir = e.Repo + "/terminfo"
				g.ReplayGen = func(model map[string]string) string {
					me := &modelEval{m: model, p: &printer{named: map[int]string{}}}
					cv, _ := me.intOf(col)
					rv, _ := me.intOf(row)
					want := concreteRef(c, cupS, []int64{rv, cv})
					return replayTest("terminfo_test", []string{modPath + "/terminfo", "_ " + modPath + "/terminfo/extended"}, fmt.Sprintf(`
	ti, err := terminfo.LookupTerminfo(%q)
	if err != nil { fail("lookup: %%v", err); return }
	got := ti.TGoto(%d, %d)
	if got != %q { fail("%s: TGoto(col=%d,row=%d) = %%q, the cup string %%q defines %%q", got, %q, %q); return }`, tname, cv, rv, want, tname, cv, rv, cupS, want))
				}
				if undef != "" {
					run.Errors = append(run.Errors, name+": reference undefined: "+undef)
				}
				for _, o := range inst {
					o.Name, o.Kind, o.Src = name, "table", src
					g.Instances = append(g.Instances, o)
				}
				run.Groups = append(run.Groups, g)
				n++
			}
		}
		// TColor
		colors := db.num(te, "Colors")
		setaf, setab := db.str(te, "SetFg"), db.str(te, "SetBg")
		st := db.St.clone()
		db.St = st
		fi, bi := symInt(c, "fi"), symInt(c, "bi")
		real, err := evalMethod(db, te, "TColor", []Value{fi, bi})
		name := fmt.Sprintf("tcolor[%s]", te.Name)
		src := fmt.Sprintf("TColor(fi,bi) of %s (Colors=%d): bright colours folded iff Colors==8, a component emitted iff 0 <= c < Colors, as setaf/setab of that colour", te.Name, colors)
		if err != nil {
			run.Errors = append(run.Errors, name+": "+err.Error())
			continue
		}
		// reference: fold, range check, concatenate the reference evaluations
		type part struct {
			cond []*Term
			out  StrV
		}
		fold := func(x *Term) []struct {
			cond *Term
			v    *Term
		} {
			if colors == 8 {
				inB := And(Cmp(">", x, bv64(7), true), Cmp("<", x, bv64(16), true))
				return []struct {
					cond *Term
					v    *Term
				}{{inB, Arith("-", x, bv64(8))}, {Not(inB), x}}
			}
			return []struct {
				cond *Term
				v    *Term
			}{{True(), x}}
		}
		comp := func(x *Term, prog string) []part {
			var ps []part
			for _, f := range fold(x) {
				inR := And(Cmp(">=", f.v, bv64(0), true), Cmp("<", f.v, bv64(colors), true))
				ps = append(ps, part{cond: []*Term{f.cond, Not(inR)}, out: conc("")})
				for _, rp := range RefTParm(c, st, prog, []refVal{{I: f.v}}) {
					ps = append(ps, part{cond: append([]*Term{f.cond, inR}, rp.Cond...), out: rp.Out})
				}
			}
			return ps
		}
		var ref []RefPath
		for _, a := range comp(fi, setaf) {
			for _, b := range comp(bi, setab) {
				ref = append(ref, RefPath{Cond: append(append([]*Term(nil), a.cond...), b.cond...), Out: c.strConcat(a.out, b.out)})
			}
		}
		inst, _ := compareWithRef(c, st, real, ref)
		g := &ObGroup{Name: name, Kind: "table", Fn: "table", Src: src}
		for _, o := range inst {
			o.Name, o.Kind, o.Src = name, "table", src
			g.Instances = append(g.Instances, o)
		}
		run.Groups = append(run.Groups, g)
		n++
	}
	run.Groups = append(run.Groups, groupObligations(c.Obs)...)
	c.Obs = nil
	run.Extra["descriptions_evaluated"] = len(db.Entries)
	run.Extra["goto_and_color_checks"] = n
	for k := range c.Assumed {
		run.Assumed[k] = true
	}
}

// tparmReplay: a Go test that calls the real TParm with the model's parameters and compares with the
// reference semantics evaluated on the same concrete parameters.
func tparmReplay(c *Ctx, prog string, pvars []Value, model map[string]string) string {
	me := &modelEval{m: model, p: &printer{named: map[int]string{}}}
	var vals []int64
	var rps []refVal
	for _, v := range pvars {
		n, _ := me.intOf(v.(*Term))
		vals = append(vals, n)
		rps = append(rps, refVal{I: bv64(n)})
	}
	st := c.scratchState()
	ref := RefTParm(c, st, prog, rps)
	want := "?"
	for _, rp := range ref {
		feasible := true
		for _, t := range rp.Cond {
			if t.IsFalse() {
				feasible = false
			}
		}
		if feasible {
			ps := flattenRope(rp.Out)
			if len(ps) == 0 {
				want = ""
			} else if len(ps) == 1 && ps[0].Conc != nil {
				want = *ps[0].Conc
			}
		}
	}
	var as []string
	for _, v := range vals {
		as = append(as, fmt.Sprintf("int(%d)", v))
	}
	return replayTest("terminfo", nil, fmt.Sprintf(`
	ti := &Terminfo{}
	got := ti.TParm(%q, %s)
	if got != %q { fail("TParm(%%q, %s) = %%q, terminfo(5) gives %%q", %q, got, %q); return }`, prog, strings.Join(as, ", "), want, strings.Join(as, ","), prog, want))
}

// concreteRef evaluates the reference semantics on concrete integer parameters.
func concreteRef(c *Ctx, prog string, vals []int64) string {
	var rps []refVal
	for _, v := range vals {
		rps = append(rps, refVal{I: bv64(v)})
	}
	for _, rp := range RefTParm(c, c.scratchState(), prog, rps) {
		feasible := true
		for _, t := range rp.Cond {
			if t.IsFalse() {
				feasible = false
			}
		}
		if feasible {
			ps := flattenRope(rp.Out)
			if len(ps) == 0 {
				return ""
			}
			if len(ps) == 1 && ps[0].Conc != nil {
				return *ps[0].Conc
			}
		}
	}
	return "?"
}

// ---- TPuts (C15): padding specifications ----

// refStrip: the property's definition - every well-formed $<n[.m][*][/]> is removed, anything else is verbatim.
func refStrip(s string) (out string, pads []string) {
	i := 0
	for i < len(s) {
		if s[i] == '$' && i+1 < len(s) && s[i+1] == '<' {
			j := i + 2
			k := j
			for k < len(s) && s[k] >= '0' && s[k] <= '9' {
				k++
			}
			ok := k > j
			if ok && k < len(s) && s[k] == '.' {
				m := k + 1
				for m < len(s) && s[m] >= '0' && s[m] <= '9' {
					m++
				}
				ok = m > k+1
				k = m
			}
			if ok && k < len(s) && s[k] == '*' { // [*][/]: at most one of each, in this order (the property's grammar)
				k++
			}
			if ok && k < len(s) && s[k] == '/' {
				k++
			}
			if ok && k < len(s) && s[k] == '>' {
				pads = append(pads, s[j:k])
				i = k + 1
				continue
			}
		}
		out += string(s[i])
		i++
	}
	return out, pads
}

var tputsCorpus = []string{"", "abc", "a$<2>b", "a$<10/>b$<1.5*>c", "$<5>", "x$<", "x$<12", "a$<2>b$<3", "$$<2>", "a$>b", "a$<>b", "x$<abc>y", "x$<1.>y", "x$<.5>y", "x$<1a>y", "a$<2*/>b", "a$<2/*>b", "a$<2**>b", "p$<2>q$<x>r$<3>s", "<$<1>>", "$<a$<5>b", "$<$<10*/>", "$<1$<2>>", "a$<b$<3>c$<4>", "$<1$<", "$<$<$<7>", "$<1.$<2.5>>"}

func c15TPuts(run *PropRun) {
	e := run.Eng
	db := LoadTermDB(e, true)
	c := db.Ev.C
	fn := e.FindFunc(modPath + "/terminfo.(*Terminfo).TPuts")
	if fn == nil {
		panic(VerErr{"UNDECIDED: (*Terminfo).TPuts not found"})
	}
	type job struct {
		name, s, user string
		bounded bool
	}
	var jobs []job
	seen := map[string]bool{}
	for _, te := range db.Entries {
		for i := 0; i < db.TI.NumFields(); i++ {
			f := db.TI.Field(i)
			if !isString(f.Type()) {
				continue
			}
			s := db.str(te, f.Name())
			if strings.Contains(s, "$<") && !seen[s] {
				seen[s] = true
				jobs = append(jobs, job{fmt.Sprintf("tputs[%s.%s]", te.Name, f.Name()), s, te.Name + "." + f.Name(), false})
			}
		}
	}
	for i, s := range tputsCorpus {
		jobs = append(jobs, job{fmt.Sprintf("tputs-grammar[%d:%s]", i, s), s, "padding grammar corpus (bounded stand-in)", true})
	}
	bufT := e.PkgBy["bytes"].Types.Scope().Lookup("Buffer").Type()
	tiT := e.SPkgs[modPath+"/terminfo"].Type("Terminfo").Type()
	for _, j := range jobs {
		for _, padded := range []bool{false, true} {
			st := db.St.clone()
			st.Frames = nil
			st.PathID = 0
			// a description with (or without) a pad character
			tv := c.zeroValue(st, tiT).(*StructV)
			nf := &StructV{Typ: tv.Typ, F: append([]Value(nil), tv.F...)}
			for i := 0; i < db.TI.NumFields(); i++ {
				if db.TI.Field(i).Name() == "PadChar" && padded {
					nf.F[i] = conc("\x00")
				}
			}
			to := c.newObject("ti", tiT)
			st.Mem[to] = nf
			bo := c.newObject("out", bufT)
			st.Mem[bo] = c.zeroValue(st, bufT)
			w := IfaceV{Dyn: types.NewPointer(bufT), Val: PtrV{Obj: bo}, Iface: types.NewInterfaceType(nil, nil)}
			paths, err := db.Ev.Call(st, fn, []Value{PtrV{Obj: to}, w, conc(j.s)})
			name := j.name
			if padded {
				name += "/padchar"
			}
			want, pads := refStrip(j.s)
			src := fmt.Sprintf("TPuts(%q) writes %q (every well-formed padding specification removed, everything else verbatim) and sleeps %d time(s) iff the description has a pad character; %s", j.s, want, len(pads), j.user)
			if err != nil || len(paths) != 1 {
				run.Errors = append(run.Errors, fmt.Sprintf("%s: %v (%d paths)", name, err, len(paths)))
				continue
			}
			fs := paths[0].St
			got := "<symbolic>"
			if r, ok := fs.Ghost["rope:"+pathKey(bo, nil)].(StrV); ok {
				ps := flattenRope(r)
				if len(ps) == 0 {
					got = ""
				} else if len(ps) == 1 && ps[0].Conc != nil {
					got = *ps[0].Conc
				}
			} else {
				got = ""
			}
			sleeps := 0
			for _, r := range fs.CallLog {
				if r.Callee == "time.Sleep" {
					sleeps++
				}
			}
			wantSleeps := 0
			if padded {
				wantSleeps = len(pads)
			}
			kind := "table"
			if j.bounded {
				kind = "table-bounded"
			}
			g := run.AddObligation(name, kind, BoolT(got == want && sleeps == wantSleeps), src+fmt.Sprintf(" [real code wrote %q, slept %d time(s)]", got, sleeps))
			pc := ""
			if padded {
				pc = "\\x00"
			}
			g.ReplayDir = e.Repo + "/terminfo"
			g.ReplayGo = replayTest("terminfo", []string{"bytes"}, fmt.Sprintf(`
	ti := &Terminfo{PadChar: "%s"}
	var b bytes.Buffer
	ti.TPuts(&b, %q)
	if b.String() != %q { fail("TPuts(%%q) wrote %%q, want %%q", %q, b.String(), %q); return }`, pc, j.s, want, j.s, want))
		}
	}
	c15TPutsEnum(run)
	c15TColorHistory(run)
	run.Groups = append(run.Groups, groupObligations(c.Obs)...)
	c.Obs = nil
	run.Extra["tputs_strings_from_database"] = len(jobs) - len(tputsCorpus)
	run.Extra["tputs_grammar_corpus_bounded"] = len(tputsCorpus)
	for k := range c.Assumed {
		run.Assumed[k] = true
	}
}

// c09Emit (C09, "no stray parameter-language residue"): the REAL tScreen.TPuts - the one door through which the screen
// emits capability strings - is evaluated in both of its modes (collecting in the draw buffer; writing to the tty) on
// every database string that carries a padding specification and on the padding grammar corpus; what reaches the
// output must be the string with every well-formed `$<..>` removed (the C15 reference).  The tty is stood in for by a
// byte collector (only Write is reached).
func c09Emit(run *PropRun) {
	e := run.Eng
	db := LoadTermDB(e, true)
	c := db.Ev.C
	fn := e.FindFunc(modPath + ".(*tScreen).TPuts")
	if fn == nil {
		panic(VerErr{"UNDECIDED: (*tScreen).TPuts not found"})
	}
	type job struct {
		name, s string
		bounded bool
	}
	var jobs []job
	seen := map[string]bool{}
	for _, te := range db.Entries {
		for i := 0; i < db.TI.NumFields(); i++ {
			f := db.TI.Field(i)
			if !isString(f.Type()) {
				continue
			}
			s := db.str(te, f.Name())
			if strings.Contains(s, "$<") && !seen[s] {
				seen[s] = true
				jobs = append(jobs, job{fmt.Sprintf("screen-tputs[%s.%s]", te.Name, f.Name()), s, false})
			}
		}
	}
	nDB := len(jobs)
	for i, s := range tputsCorpus {
		jobs = append(jobs, job{fmt.Sprintf("screen-tputs-grammar[%d:%s]", i, s), s, true})
	}
	bufT := e.PkgBy["bytes"].Types.Scope().Lookup("Buffer").Type()
	tiT := e.SPkgs[modPath+"/terminfo"].Type("Terminfo").Type()
	tsT := e.SPkgs[modPath].Type("tScreen").Type()
	stt := under(tsT).(*types.Struct)
	for _, j := range jobs {
		for _, buffering := range []bool{true, false} {
			st := db.St.clone()
			st.Frames = nil
			st.PathID = 0
			st.CallLog = nil
			to := c.newObject("ti", tiT)
			st.Mem[to] = c.zeroValue(st, tiT)
			bo := c.newObject("ttyout", bufT)
			st.Mem[bo] = c.zeroValue(st, bufT)
			so := c.newObject("screen", tsT)
			sv := c.zeroValue(st, tsT).(*StructV)
			nf := &StructV{Typ: sv.Typ, F: append([]Value(nil), sv.F...)}
			bufIdx := -1
			for i := 0; i < stt.NumFields(); i++ {
				switch stt.Field(i).Name() {
				case "ti":
					nf.F[i] = PtrV{Obj: to}
				case "buffering":
					nf.F[i] = BoolT(buffering)
				case "buf":
					bufIdx = i
				case "tty":
					nf.F[i] = IfaceV{Dyn: types.NewPointer(bufT), Val: PtrV{Obj: bo}, Iface: stt.Field(i).Type()}
				}
			}
			st.Mem[so] = nf
			paths, err := db.Ev.Call(st, fn, []Value{PtrV{Obj: so}, conc(j.s)})
			name := j.name + map[bool]string{true: "/buffered", false: "/direct"}[buffering]
			want, _ := refStrip(j.s)
			if err != nil || len(paths) != 1 {
				run.Errors = append(run.Errors, fmt.Sprintf("%s: %v (%d paths)", name, err, len(paths)))
				continue
			}
			fs := paths[0].St
			read := func(key string) string {
				r, ok := fs.Ghost["rope:"+key].(StrV)
				if !ok {
					return ""
				}
				out := ""
				for _, p := range flattenRope(r) {
					if p.Conc == nil {
						return "<symbolic>"
					}
					out += *p.Conc
				}
				return out
			}
			inBuf, onTty := read(pathKey(so, []int{bufIdx})), read(pathKey(bo, nil))
			ok := inBuf == want && onTty == ""
			if !buffering {
				ok = onTty == want && inBuf == ""
			}
			kind := "table"
			if j.bounded {
				kind = "table-bounded"
			}
			g := run.AddObligation(name, kind, BoolT(ok), fmt.Sprintf("tScreen.TPuts(%q) with buffering=%v emits %q (every well-formed padding specification removed, nothing else changed) to %s and nothing to the other [real code: draw buffer %q, tty %q]",
				j.s, buffering, want, map[bool]string{true: "the draw buffer", false: "the tty"}[buffering], inBuf, onTty))
			g.ReplayGo = replayTest("tcell", []string{"bytes", modPath + "/terminfo"}, fmt.Sprintf(`
	var out bytes.Buffer
	scr := &tScreen{ti: &terminfo.Terminfo{}, tty: &c09Tty{out: &out}, buffering: %v}
	scr.TPuts(%q)
	got := out.String()
	if scr.buffering { got = scr.buf.String() }
	if got != %q { fail("tScreen.TPuts(%%q) with buffering=%%v emitted %%q, want %%q", %q, scr.buffering, got, %q); return }`, buffering, j.s, want, j.s, want)) + `
type c09Tty struct{ out *bytes.Buffer }

func (t *c09Tty) Read(p []byte) (int, error)      { return 0, nil }
func (t *c09Tty) Write(p []byte) (int, error)     { return t.out.Write(p) }
func (t *c09Tty) Close() error                    { return nil }
func (t *c09Tty) Start() error                    { return nil }
func (t *c09Tty) Stop() error                     { return nil }
func (t *c09Tty) Drain() error                    { return nil }
func (t *c09Tty) NotifyResize(cb func())          {}
func (t *c09Tty) WindowSize() (WindowSize, error) { return WindowSize{Width: 80, Height: 24}, nil }
`
		}
	}
	run.Groups = append(run.Groups, groupObligations(c.Obs)...)
	c.Obs = nil
	run.Extra["screen_tputs_strings_from_database"] = nDB
	run.Extra["screen_tputs_grammar_corpus_bounded"] = len(tputsCorpus)
	for k := range c.Assumed {
		run.Assumed[k] = true
	}
}

// c15TPutsEnum: BOUNDED stand-in for "all strings over an alphabet containing $ < > . digits * / and ordinary bytes":
// the real (*Terminfo).TPuts is run natively on EVERY string over the alphabet {$ < > . 5 * / a} up to a stated
// length and compared with the property's definition (refStrip, ported verbatim into the test).  Exhaustive up to the
// bound, not a proof; the unbounded part of C15's TPuts clause stays with the per-string evaluations above.
func c15TPutsEnum(run *PropRun) {
	maxLen := 6
	if run.Tier == "thorough" {
		maxLen = 8
	}
	src := replayTest("terminfo", []string{"bytes"}, fmt.Sprintf(`
	alphabet := []byte("$<>.5*/a")
	maxLen := %d
	ti := &Terminfo{}
	buf := make([]byte, 0, maxLen)
	var out bytes.Buffer
	n := 0
	bad := ""
	var rec func()
	rec = func() {
		if bad != "" { return }
		out.Reset()
		ti.TPuts(&out, string(buf))
		n++
		if want := verifRefStrip(string(buf)); out.String() != want {
			bad = fmt.Sprintf("TPuts(%%q) wrote %%q, the definition gives %%q", string(buf), out.String(), want)
			return
		}
		if len(buf) == maxLen { return }
		for _, ch := range alphabet {
			buf = append(buf, ch)
			rec()
			buf = buf[:len(buf)-1]
		}
	}
	rec()
	if bad != "" { fmt.Println("TPUTSENUM FAIL " + bad); fail("%%s", bad); return }
	fmt.Printf("TPUTSENUM OK %%d\n", n)`, maxLen)) + `
func verifRefStrip(s string) string {
	out := ""
	i := 0
	for i < len(s) {
		if s[i] == '$' && i+1 < len(s) && s[i+1] == '<' {
			j := i + 2
			k := j
			for k < len(s) && s[k] >= '0' && s[k] <= '9' {
				k++
			}
			ok := k > j
			if ok && k < len(s) && s[k] == '.' {
				m := k + 1
				for m < len(s) && s[m] >= '0' && s[m] <= '9' {
					m++
				}
				ok = m > k+1
				k = m
			}
			if ok && k < len(s) && s[k] == '*' { // [*][/]: at most one of each, in this order (the property's grammar)
				k++
			}
			if ok && k < len(s) && s[k] == '/' {
				k++
			}
			if ok && k < len(s) && s[k] == '>' {
				i = k + 1
				continue
			}
		}
		out += string(s[i])
		i++
	}
	return out
}
`
	out, err := runOverlayTest(run.Eng.Repo, run.Eng.Repo+"/terminfo", src, 240*time.Second, nil)
	ok, detail := false, ""
	for _, ln := range strings.Split(out, "\n") {
		if strings.HasPrefix(ln, "TPUTSENUM OK ") {
			ok = true
			detail = strings.TrimPrefix(ln, "TPUTSENUM OK ") + " strings"
		}
		if strings.HasPrefix(ln, "TPUTSENUM FAIL ") {
			detail = strings.TrimPrefix(ln, "TPUTSENUM FAIL ")
		}
	}
	if !ok && detail == "" {
		run.Errors = append(run.Errors, fmt.Sprintf("tputs enumeration did not run: %v %s", err, tail(out, 400)))
		return
	}
	g := run.AddObligation("tputs-enum", "table-bounded", BoolT(ok),
		fmt.Sprintf("the real TPuts agrees with the definition on every string over {$ < > . 5 * / a} up to length %d (native, exhaustive up to the bound): %s", maxLen, detail))
	g.ReplayDir = run.Eng.Repo + "/terminfo"
	g.ReplayGo = src
	run.Extra["tputs_enumeration_max_len_bounded"] = maxLen
}

// c07Malformed: "malformed strings never panic or hang" - bounded native stand-in. Every proper prefix of every
// program of the grammar corpus and of the sequences tcell hard-codes, plus a few truncated tokens, is handed to the
// real TParm (integer and string parameters) in a goroutine with a deadline; a panic or a call that does not return
// fails the obligation. Bounded: the corpus; the general clause over arbitrary byte strings is not proved.
func c07Malformed(run *PropRun) {
	seen := map[string]bool{}
	var progs []string
	add := func(s string) {
		if !seen[s] {
			seen[s] = true
			progs = append(progs, s)
		}
	}
	var base []string
	base = append(base, grammarCorpus...)
	var hk []string
	for k := range hardCoded {
		hk = append(hk, k)
	}
	sort.Strings(hk)
	for _, k := range hk {
		base = append(base, hardCoded[k])
	}
	base = append(base, "%p1%{12}%+%d", "%p1%'x'%+%c", "%?%p1%{3}%>%tA%eB%;", "%p1%Pz%gz%d", "%p1%l%d", "%p1%:-08.3x", "%p1%s%p2%s")
	for _, p := range base {
		for i := 0; i <= len(p); i++ {
			add(p[:i])
		}
	}
	for _, s := range []string{"%", "%{", "%{1", "%{12", "%{ }", "%{x}", "%'", "%'a", "%'ab", "%p", "%p0", "%pa", "%P", "%g", "%?", "%t", "%e", "%;", "%?%t", "%?%p1%t%e", "%e%;", "%;%;", "%1", "%.", "%:", "%:-", "%#", "% ", "%09", "%9999", "%z", "%\xff", "%p1%", "\x1b[%p1%{8", "%?%?%?", "%{-1}%d", "%d", "%c", "%s", "%+", "%l", "%!", "%~", "%p1%p2%/%d", "%p1%{0}%/%d", "%p1%{0}%m%d"} {
		add(s)
	}
	var lit strings.Builder
	for _, p := range progs {
		fmt.Fprintf(&lit, "%q,\n", p)
	}
	src := replayTest("terminfo", []string{"time"}, fmt.Sprintf(`
	progs := []string{
%s	}
	ti := &Terminfo{}
	bad := ""
	n := 0
	for _, p := range progs {
		for _, params := range [][]interface{}{{}, {0}, {1, 2, 3, 4, 5, 6, 7, 8, 9}, {"ab", "c"}, {-1, 0}} {
			done := make(chan string, 1)
			go func(p string, params []interface{}) {
				defer func() {
					if r := recover(); r != nil {
						done <- fmt.Sprintf("panic: %%v", r)
					}
				}()
				_ = ti.TParm(p, params...)
				done <- ""
			}(p, params)
			select {
			case r := <-done:
				if r != "" && bad == "" {
					bad = fmt.Sprintf("TParm(%%q, %%v): %%s", p, params, r)
				}
			case <-time.After(3 * time.Second):
				bad = fmt.Sprintf("TParm(%%q, %%v) did not return within 3 s", p, params)
			}
			n++
			if bad != "" {
				break
			}
		}
		if bad != "" {
			break
		}
	}
	if bad != "" { fmt.Println("MALFORMED FAIL " + bad); fail("%%s", bad); return }
	fmt.Printf("MALFORMED OK %%d\n", n)`, lit.String()))
	out, err := runOverlayTest(run.Eng.Repo, run.Eng.Repo+"/terminfo", src, 300*time.Second, nil)
	ok, detail := false, ""
	for _, ln := range strings.Split(out, "\n") {
		if strings.HasPrefix(ln, "MALFORMED OK ") {
			ok = true
			detail = strings.TrimPrefix(ln, "MALFORMED OK ") + " calls"
		}
		if strings.HasPrefix(ln, "MALFORMED FAIL ") && detail == "" {
			detail = strings.TrimPrefix(ln, "MALFORMED FAIL ")
		}
	}
	if !ok && detail == "" {
		run.Errors = append(run.Errors, fmt.Sprintf("malformed-program corpus did not run: %v %s", err, tail(out, 400)))
		return
	}
	g := run.AddObligation("tparm-malformed/returns-without-panic", "table-bounded", BoolT(ok),
		fmt.Sprintf("the real TParm returns (no panic, no hang: 3 s deadline per call) on every proper prefix of the grammar corpus and of the hard-coded sequences and on a list of truncated tokens, %d strings x 5 parameter lists (native, bounded): %s", len(progs), detail))
	g.ReplayDir = run.Eng.Repo + "/terminfo"
	g.ReplayGo = src
	run.Extra["malformed_program_corpus_bounded"] = len(progs)
}

// c15TColorHistory: the colour string for (fg,bg) does not depend on which colour strings were asked for before -
// the per-description evaluations above judge each call on a fresh state, so a result that is remembered under a
// colliding key would escape them (and a cache built on sync.Map is outside the evaluator's subset). Bounded native
// stand-in: on one Terminfo value per description, every (fg,bg) over a list of boundary values in sequence, each
// answer compared with the answer of a fresh copy of the description.
func c15TColorHistory(run *PropRun) {
	src := replayTest("tcell", []string{modPath + "/terminfo", "_ " + modPath + "/terminfo/extended"}, `
	vals := []int{-1, 0, 1, 7, 8, 9, 15, 16, 87, 88, 100, 255, 256, 257, 300}
	n := 0
	bad := ""
	for _, name := range []string{"xterm-256color", "xterm", "xterm-88color", "linux", "foot", "vt100"} {
		ti, err := terminfo.LookupTerminfo(name)
		if err != nil { bad = fmt.Sprintf("lookup %s: %v", name, err); break }
		for _, fg := range vals {
			for _, bg := range vals {
				got := ti.TColor(fg, bg)
				fresh := *ti
				want := (&fresh).TColor(fg, bg)
				n++
				if got != want && bad == "" {
					bad = fmt.Sprintf("%s: TColor(%d,%d) after a history of other calls is %q, on a fresh copy of the description %q", name, fg, bg, got, want)
				}
			}
		}
		if bad != "" { break }
	}
	if bad != "" { fmt.Println("TCOLORHIST FAIL " + bad); fail("%s", bad); return }
	fmt.Printf("TCOLORHIST OK %d\n", n)`)
	out, err := runOverlayTest(run.Eng.Repo, run.Eng.Repo, src, 120*time.Second, nil)
	ok, detail := false, ""
	for _, ln := range strings.Split(out, "\n") {
		if strings.HasPrefix(ln, "TCOLORHIST OK ") {
			ok = true
			detail = strings.TrimPrefix(ln, "TCOLORHIST OK ") + " calls"
		}
		if strings.HasPrefix(ln, "TCOLORHIST FAIL ") && detail == "" {
			detail = strings.TrimPrefix(ln, "TCOLORHIST FAIL ")
		}
	}
	if !ok && detail == "" {
		run.Errors = append(run.Errors, fmt.Sprintf("TColor history check did not run: %v %s", err, tail(out, 400)))
		return
	}
	g := run.AddObligation("tcolor/history-independent", "table-bounded", BoolT(ok),
		"on six descriptions, every (fg,bg) over 15 boundary values asked in sequence of one Terminfo gives the string a fresh copy of the description gives (native, bounded): "+detail)
	g.ReplayDir = run.Eng.Repo
	g.ReplayGo = src
}
