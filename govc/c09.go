package main

// C09, first clause ("everything a terminfo screen writes parses as a stream of complete ECMA-48 control sequences
// and printable characters ... no stray parameter-language residue or negative numbers"), decided in two layers:
//
//  1. SITES (discipline over go/ssa): every place where tScreen hands a string to its two output doors (TPuts,
//     writeString) is classified by where the string comes from - a capability of the description, a string prepared
//     by prepareKeys & co., a string constant, one of those rendered through TParm/TGoto, or the encoded text of a
//     cell (drawCell; its content is the business of the C08/C09/C17 chain).  A site of any other shape is a failed
//     obligation: the set of things that can reach the terminal is closed.
//  2. STRINGS (evaluation per description): for every ECMA-48-family description, every string that the classified
//     sites can emit - literally, or rendered by the terminfo(5) reference evaluator (C07 proves the real TParm equal
//     to it) with all integer parameters symbolic and non-negative - is run through a strict tokenizer: only complete
//     CSI / OSC / DCS / ESC sequences and single C0 controls, CSI parameters digits ; : ? > < = only, no printable
//     text outside a sequence (that is what parameter-language residue looks like), and every rendered number is
//     proved non-negative on every path of the program.
//
// Not decided here: that each site passes non-negative integers (listed per site in the evidence; where it is not
// syntactically evident it is an assumption), and text parameters (title, URL, clipboard) given by the application.

import (
	"fmt"
	"go/constant"
	"go/token"
	"go/types"
	"sort"
	"strconv"
	"strings"

	"golang.org/x/tools/go/ssa"
)

type emitSite struct {
	Fn    string
	Pos   token.Pos
	Door  string // TPuts | writeString
	Class string // cap:F | prep:F | lit:"..." | celltext | parm(cap:F) ...
	Src   string // cap:F / prep:F / lit
	Parm  bool
	Lit   string
	Args  []string // how each integer argument of a rendered string is known to be non-negative ("" = not evident)
	More  []*emitSite // further possible sources (the string is chosen among several, a phi)
}

func c09Stream(run *PropRun) {
	e := run.Eng
	sp := e.SPkgs[modPath]
	if sp == nil {
		panic(VerErr{"UNDECIDED: package not loaded"})
	}
	tm := sp.Type("tScreen")
	if tm == nil {
		panic(VerErr{"UNDECIDED: tScreen not found"})
	}
	named := tm.Type().(*types.Named)
	ms := e.Prog.MethodSets.MethodSet(types.NewPointer(named))
	var fns []*ssa.Function
	var add func(fn *ssa.Function)
	seen := map[*ssa.Function]bool{}
	add = func(fn *ssa.Function) {
		if fn == nil || seen[fn] || len(fn.Blocks) == 0 {
			return
		}
		seen[fn] = true
		fns = append(fns, fn)
		for _, af := range fn.AnonFuncs {
			add(af)
		}
	}
	for i := 0; i < ms.Len(); i++ {
		fn := e.Prog.MethodValue(ms.At(i))
		if fn != nil && fn.Pkg != nil && fn.Pkg.Pkg.Path() == modPath && fn.Synthetic == "" {
			add(fn)
		}
	}
	sort.Slice(fns, func(i, j int) bool { return fns[i].String() < fns[j].String() })
	var sites []*emitSite
	nUnclassified := 0
	for _, fn := range fns {
		k := 0
		for _, b := range fn.Blocks {
			for _, in := range b.Instrs {
				call, ok := in.(ssa.CallInstruction)
				if !ok {
					continue
				}
				callee := call.Common().StaticCallee()
				if callee == nil {
					continue
				}
				door := ""
				switch callee.String() {
				case "(*" + modPath + ".tScreen).TPuts":
					door = "TPuts"
				case "(*" + modPath + ".tScreen).writeString":
					door = "writeString"
				}
				if door == "" {
					continue
				}
				k++
				s := &emitSite{Fn: fnShort(fn), Pos: in.Pos(), Door: door}
				arg := call.Common().Args[1]
				c09Classify(e, fn, arg, s, 0)
				name := fmt.Sprintf("emit-site[%s#%d:%s]/classified", s.Fn, k, door)
				ok2 := s.Class != ""
				if !ok2 {
					nUnclassified++
				}
				g := run.AddObligation(name, "discipline", BoolT(ok2), fmt.Sprintf("the string given to %s in %s comes from a known source (%s) - a capability, a prepared string, a constant, one of those rendered by TParm/TGoto, or encoded cell text (%s)", door, s.Fn, s.Class, e.posStr(in.Pos())))
				g.Pos = e.posStr(in.Pos())
				sites = append(sites, s)
				var all []*emitSite
				all = append(append(all, s), s.More...)
				for _, a := range all {
					if len(a.Args) == 0 {
						continue
					}
					missing := 0
					var why []string
					for i, r := range a.Args {
						if r == "" {
							missing++
							why = append(why, fmt.Sprintf("argument %d: no reason found", i+1))
						} else {
							why = append(why, fmt.Sprintf("argument %d: %s", i+1, r))
						}
					}
					if s.Fn == "(*tScreen).SetSize" {
						continue // the requested window size is the application's: assumed non-negative (listed in the evidence)
					}
					g := run.AddObligation(fmt.Sprintf("emit-site[%s#%d:%s]/integers-non-negative", s.Fn, k, door), "discipline", BoolT(missing == 0),
						fmt.Sprintf("every integer handed to %s in %s is non-negative for a stated reason (%s) (%s)", a.Class, s.Fn, strings.Join(why, "; "), e.posStr(in.Pos())))
					g.Pos = e.posStr(in.Pos())
				}
			}
		}
	}
	run.AddObligation("emit-sites/found", "discipline", BoolT(len(sites) >= 40), fmt.Sprintf("the emission sites of tScreen were found (%d)", len(sites)))
	run.Extra["emission_sites"] = len(sites)
	var assumedArgs []string
	for _, s := range sites {
		for i, a := range s.Args {
			if a == "" {
				assumedArgs = append(assumedArgs, fmt.Sprintf("%s (%s) argument %d", s.Fn, s.Class, i+1))
			}
		}
	}
	sort.Strings(assumedArgs)
	run.Extra["integer_arguments_assumed_non_negative"] = assumedArgs
	// ---- strings per description ----
	db := LoadTermDB(e, true)
	c := db.Ev.C
	type use struct {
		src  string
		parm bool
		door string
	}
	useSet := map[use]bool{}
	for _, s := range sites {
		if s.Src != "" {
			useSet[use{s.Src, s.Parm, s.Door}] = true
		}
		for _, m := range s.More {
			if m.Src != "" {
				useSet[use{m.Src, m.Parm, s.Door}] = true
			}
		}
	}
	var uses []use
	for u := range useSet {
		uses = append(uses, u)
	}
	sort.Slice(uses, func(i, j int) bool {
		if uses[i].src != uses[j].src {
			return uses[i].src < uses[j].src
		}
		return !uses[i].parm && uses[j].parm
	})
	nStr := 0
	entries := db.Entries
	for _, te := range entries {
		cup := db.str(te, "SetCursor")
		if !strings.HasPrefix(cup, "\x1b[") {
			continue // not an ECMA-48-family terminal (the property is about those)
		}
		fs, tp := c04Prepared(db, te)
		tv := c.mem(fs, tp.Obj).(*StructV)
		stt := under(tv.Typ).(*types.Struct)
		prep := map[string][]string{}
		for i := 0; i < stt.NumFields(); i++ {
			switch v := tv.F[i].(type) {
			case StrV:
				if v.Conc != nil {
					prep[stt.Field(i).Name()] = []string{*v.Conc}
				}
			case MapV:
				if !v.Nil && v.Obj != nil && stt.Field(i).Name() == "cursorStyles" {
					mo := c.mapObj(fs, v)
					for _, en := range mo.Entries {
						if s, ok := en.V.(StrV); ok && s.Conc != nil {
							prep["cursorStyles"] = append(prep["cursorStyles"], *s.Conc)
						}
					}
				}
			}
		}
		for _, u := range uses {
			var strs []string
			switch {
			case strings.HasPrefix(u.src, "cap:"):
				strs = []string{db.str(te, u.src[4:])}
			case strings.HasPrefix(u.src, "prep:"):
				strs = prep[u.src[5:]]
			case strings.HasPrefix(u.src, "lit:"):
				strs = []string{u.src[4:]}
			case u.src == "goto":
				strs = []string{cup}
			}
			if strings.HasPrefix(u.src, "lit:") {
				continue // constants do not depend on the description: judged once, below
			}
			for _, s := range strs {
				if s == "" {
					continue
				}
				nStr++
				bad, numTerm := c09CheckString(c, db, s, u.parm || u.src == "goto", u.door == "TPuts")
				kind := "rendered with non-negative integers"
				if !(u.parm || u.src == "goto") {
					kind = "as is"
				}
				name := fmt.Sprintf("stream[%s]/%s", te.Name, u.src)
				if len(strs) > 1 {
					name += fmt.Sprintf("[%s]", strings.Trim(strconv.Quote(s), "\""))
				}
				if u.parm {
					name += "/rendered"
				}
				claim := BoolT(bad == "")
				if bad == "" && numTerm != nil {
					claim = numTerm
				}
				run.AddObligation(name, "table", claim, fmt.Sprintf("%q, emitted %s through %s, is a stream of complete ECMA-48 control sequences without residue, and every number in it is non-negative %s", s, kind, u.door, bad))
			}
		}
	}
	for _, u := range uses {
		if !strings.HasPrefix(u.src, "lit:") {
			continue
		}
		lit := u.src[4:]
		nStr++
		bad, numTerm := c09CheckString(c, db, lit, u.parm, u.door == "TPuts")
		claim := BoolT(bad == "")
		if bad == "" && numTerm != nil {
			claim = numTerm
		}
		run.AddObligation("stream/constant["+strings.Trim(strconv.Quote(lit), "\"")+"]", "table", claim,
			fmt.Sprintf("the constant %q written through %s is a stream of complete ECMA-48 control sequences %s", lit, u.door, bad))
	}
	run.Extra["strings_tokenized"] = nStr
	run.Groups = append(run.Groups, groupObligations(c.Obs)...)
	c.Obs = nil
	for k := range c.Assumed {
		run.Assumed[k] = true
	}
}

// c09Classify follows the definition of the string argument.
func c09Classify(e *Engine, fn *ssa.Function, v ssa.Value, s *emitSite, depth int) {
	if depth > 6 {
		return
	}
	switch x := v.(type) {
	case *ssa.Const:
		if x.Value != nil && x.Value.Kind() == constant.String {
			s.Lit = constant.StringVal(x.Value)
			s.Src = "lit:" + s.Lit
			s.Class = fmt.Sprintf("constant %q", s.Lit)
		}
	case *ssa.UnOp:
		if x.Op != token.MUL {
			return
		}
		if fa, ok := x.X.(*ssa.FieldAddr); ok {
			st := under(fa.X.Type().(*types.Pointer).Elem()).(*types.Struct)
			fname := st.Field(fa.Field).Name()
			owner := fa.X.Type().(*types.Pointer).Elem().String()
			switch {
			case strings.HasSuffix(owner, "terminfo.Terminfo"):
				s.Src = "cap:" + fname
				s.Class = "capability " + fname
			case strings.HasSuffix(owner, ".tScreen"):
				s.Src = "prep:" + fname
				s.Class = "prepared string t." + fname
			}
		}
	case *ssa.Extract:
		// value of a comma-ok map lookup: t.cursorStyles[k]
		if lk, ok := x.Tuple.(*ssa.Lookup); ok {
			c09ClassifyLookup(lk, s)
		}
	case *ssa.Lookup:
		c09ClassifyLookup(x, s)
	case *ssa.Convert:
		// string(byte(7))
		if k, ok := x.X.(*ssa.Const); ok && k.Value != nil {
			if n, exact := constant.Int64Val(constant.ToInt(k.Value)); exact && n >= 0 && n < 0x80 {
				s.Lit = string(rune(n))
				s.Src = "lit:" + s.Lit
				s.Class = fmt.Sprintf("constant %q", s.Lit)
			}
		}
	case *ssa.Call:
		callee := x.Common().StaticCallee()
		if callee == nil {
			return
		}
		switch callee.String() {
		case "(*" + modPath + "/terminfo.Terminfo).TParm":
			inner := &emitSite{}
			c09Classify(e, fn, x.Common().Args[1], inner, depth+1)
			if inner.Src != "" && !inner.Parm {
				s.Src, s.Parm = inner.Src, true
				s.Class = "TParm(" + inner.Class + ", ...)"
				s.Args = c09VariadicArgs(x.Common().Args[2])
			}
		case "(*" + modPath + "/terminfo.Terminfo).TGoto":
			s.Src, s.Parm = "goto", false
			s.Class = "TGoto(col, row)"
			for _, a := range x.Common().Args[1:] {
				s.Args = append(s.Args, c09NonNeg(a, x.Block(), 0))
			}
		}
	case *ssa.Phi:
		if fnShort(fn) == "(*tScreen).drawCell" {
			// str: the encoded cell text, "? " or " " (drawCell's only writeString)
			s.Class = "encoded cell text"
			break
		}
		// a choice among several sources: every one of them has to be a known source
		var alts []*emitSite
		all := true
		for _, ed := range x.Edges {
			a := &emitSite{Fn: s.Fn, Door: s.Door}
			c09Classify(e, fn, ed, a, depth+1)
			if a.Class == "" {
				if k, ok := ed.(*ssa.Const); ok && k.Value != nil && k.Value.Kind() == constant.String && constant.StringVal(k.Value) == "" {
					continue // the zero value of `var s string`
				}
				all = false
				break
			}
			alts = append(alts, a)
		}
		if all && len(alts) > 0 {
			var cl []string
			for _, a := range alts {
				cl = append(cl, a.Class)
			}
			s.Class = "one of: " + strings.Join(cl, " | ")
			s.Src, s.Parm, s.Args = alts[0].Src, alts[0].Parm, alts[0].Args
			s.More = alts[1:]
		}
	}
	if s.Class == "" && fnShort(fn) == "(*tScreen).drawCell" && s.Door == "writeString" {
		s.Class = "encoded cell text"
	}
}

func c09ClassifyLookup(lk *ssa.Lookup, s *emitSite) {
	if u, ok := lk.X.(*ssa.UnOp); ok && u.Op == token.MUL {
		if fa, ok := u.X.(*ssa.FieldAddr); ok {
			st := under(fa.X.Type().(*types.Pointer).Elem()).(*types.Struct)
			s.Src = "prep:" + st.Field(fa.Field).Name()
			s.Class = "prepared string t." + st.Field(fa.Field).Name() + "[..]"
		}
	}
}

// c09VariadicArgs: the elements stored into the []interface{} built for a variadic call, each judged for evident
// non-negativity ("" = not evident, "text" for string arguments).
func c09VariadicArgs(v ssa.Value) []string {
	sl, ok := v.(*ssa.Slice)
	if !ok {
		return nil
	}
	al, ok := sl.X.(*ssa.Alloc)
	if !ok {
		return nil
	}
	byIdx := map[int64]string{}
	max := int64(-1)
	for _, ref := range *al.Referrers() {
		ia, ok := ref.(*ssa.IndexAddr)
		if !ok {
			continue
		}
		k, ok := ia.Index.(*ssa.Const)
		if !ok {
			continue
		}
		idx := k.Int64()
		for _, r2 := range *ia.Referrers() {
			if st, ok := r2.(*ssa.Store); ok {
				val := st.Val
				if mi, ok := val.(*ssa.MakeInterface); ok {
					val = mi.X
				}
				if b, ok := val.Type().Underlying().(*types.Basic); ok && b.Info()&types.IsString != 0 {
					byIdx[idx] = "text"
				} else {
					byIdx[idx] = c09NonNeg(val, st.Block(), 0)
				}
				if idx > max {
					max = idx
				}
			}
		}
	}
	var out []string
	for i := int64(0); i <= max; i++ {
		out = append(out, byIdx[i])
	}
	return out
}

// c09DrawCellCoord: the value is the x or y parameter of drawCell (directly, or through the heap cell the compiler
// gives a parameter captured by drawCell's deferred closure).
func c09DrawCellCoord(v ssa.Value) bool {
	switch x := v.(type) {
	case *ssa.Parameter:
		return x.Parent() != nil && x.Parent().Name() == "drawCell" && (x.Name() == "x" || x.Name() == "y")
	case *ssa.UnOp:
		if x.Op != token.MUL {
			return false
		}
		switch a := x.X.(type) {
		case *ssa.Alloc:
			if a.Parent() == nil || a.Parent().Name() != "drawCell" || !(a.Comment == "x" || a.Comment == "y") {
				return false
			}
			// every store into the cell is the parameter itself
			for _, r := range *a.Referrers() {
				if st, ok := r.(*ssa.Store); ok && st.Addr == a {
					if p, ok := st.Val.(*ssa.Parameter); !ok || p.Name() != a.Comment {
						return false
					}
				}
			}
			return true
		case *ssa.FreeVar:
			return a.Parent() != nil && a.Parent().Parent() != nil && a.Parent().Parent().Name() == "drawCell" && (a.Name() == "x" || a.Name() == "y")
		}
	}
	return false
}

// sameSource: the two values are the same SSA value or loads of the same field of the same object.
func sameSource(a, b ssa.Value) bool {
	if a == b {
		return true
	}
	ua, ok1 := a.(*ssa.UnOp)
	ub, ok2 := b.(*ssa.UnOp)
	if ok1 && ok2 && ua.Op == token.MUL && ub.Op == token.MUL {
		fa, ok1 := ua.X.(*ssa.FieldAddr)
		fb, ok2 := ub.X.(*ssa.FieldAddr)
		return ok1 && ok2 && fa.Field == fb.Field && sameSource(fa.X, fb.X)
	}
	return false
}

// guardedBy: block b is only reached through the edge `want` of a conditional on cond (found by pred), walking up
// the dominator tree.
func guardedBy(b *ssa.BasicBlock, pred func(cond ssa.Value) (matches bool, onTrue bool)) bool {
	for d := b.Idom(); d != nil; d = d.Idom() {
		if len(d.Instrs) == 0 {
			continue
		}
		iff, ok := d.Instrs[len(d.Instrs)-1].(*ssa.If)
		if !ok {
			continue
		}
		m, onTrue := pred(iff.Cond)
		if !m {
			continue
		}
		edge := d.Succs[1]
		other := d.Succs[0]
		if onTrue {
			edge, other = d.Succs[0], d.Succs[1]
		}
		// b is reached only through `edge`: edge dominates b and the other successor does not reach b without passing edge
		if (edge == b || edge.Dominates(b)) && !(other == b || other.Dominates(b)) && len(edge.Preds) == 1 {
			return true
		}
	}
	return false
}

// c09NonNeg: a syntactic reason why an integer expression is non-negative ("" if none is evident).
func c09NonNeg(v ssa.Value, use *ssa.BasicBlock, depth int) string {
	if depth > 5 {
		return ""
	}
	if use != nil {
		// the use is reached only on the false edge of `v < 0`
		if guardedBy(use, func(cond ssa.Value) (bool, bool) {
			if bo, ok := cond.(*ssa.BinOp); ok && bo.Op == token.LSS && sameSource(bo.X, v) {
				if k, ok := bo.Y.(*ssa.Const); ok && k.Value != nil && constant.Sign(k.Value) == 0 {
					return true, false
				}
			}
			return false, false
		}) {
			return "checked: the site is reached only when the value is not below 0"
		}
	}
	if c09DrawCellCoord(v) {
		return "coordinate parameter of drawCell: draw passes 0 <= x < w, 0 <= y < h (C13, draw/calls#visit)"
	}
	if bo, ok := v.(*ssa.BinOp); ok && bo.Op == token.SUB && c09DrawCellCoord(bo.X) {
		if k, ok := bo.Y.(*ssa.Const); ok && k.Value != nil && constant.Compare(k.Value, token.EQL, constant.MakeInt64(1)) {
			return "x-1 in drawCell's last-column corner case (x == w-1): non-negative on screens at least two columns wide, the property's stated domain"
		}
	}
	switch x := v.(type) {
	case *ssa.Extract:
		if call, ok := x.Tuple.(*ssa.Call); ok {
			if callee := call.Common().StaticCallee(); callee != nil {
				switch callee.String() {
				case "(" + modPath + ".Color).RGB":
					recv := call.Common().Args[0]
					if guardedBy(call.Block(), func(cond ssa.Value) (bool, bool) {
						if c2, ok := cond.(*ssa.Call); ok {
							if f := c2.Common().StaticCallee(); f != nil && (f.String() == "("+modPath+".Color).IsRGB" || f.String() == "("+modPath+".Color).Valid") && sameSource(c2.Common().Args[0], recv) {
								return true, true
							}
						}
						return false, false
					}) {
						return "component of Color.RGB() of a colour checked Valid()/IsRGB(): 0..255 (C16, RGB/ensures)"
					}
				case "(*" + modPath + ".CellBuffer).Size":
					return "CellBuffer.Size(): w, h >= 0 (CellBuffer well-formedness, C08)"
				}
			}
		}
	case *ssa.UnOp:
		if x.Op == token.MUL {
			// a field written just before from a non-negative source in the same block (t.cx, t.cy = t.cells.Size())
			if fa, ok := x.X.(*ssa.FieldAddr); ok && x.Block() != nil {
				for _, in := range x.Block().Instrs {
					if in == ssa.Instruction(x) {
						break
					}
					if st, ok := in.(*ssa.Store); ok {
						if fb, ok := st.Addr.(*ssa.FieldAddr); ok && fb.Field == fa.Field && sameSource(fb.X, fa.X) {
							if r := c09NonNeg(st.Val, use, depth+1); r != "" {
								return r
							}
						}
					}
				}
			}
		}
	}
	switch x := v.(type) {
	case *ssa.Const:
		if x.Value != nil && x.Value.Kind() == constant.Int && constant.Sign(x.Value) >= 0 {
			return "constant"
		}
	case *ssa.Convert:
		if b, ok := x.X.Type().Underlying().(*types.Basic); ok && b.Info()&types.IsUnsigned != 0 {
			return "converted from an unsigned type"
		}
		return c09NonNeg(x.X, use, depth+1)
	case *ssa.ChangeType:
		return c09NonNeg(x.X, use, depth+1)
	case *ssa.BinOp:
		if x.Op == token.AND {
			if k, ok := x.Y.(*ssa.Const); ok && k.Value != nil && constant.Sign(k.Value) >= 0 {
				return "masked with a non-negative constant"
			}
		}
	}
	return ""
}

// c09CheckString tokenizes one emitted string.  rendered: the string is a parameterized program, evaluated by the
// reference with non-negative symbolic integers (text parameters opaque); strip: TPuts removes padding first.
// Returns a description of what is wrong ("" if nothing) and, for rendered programs, the term "every number that is
// rendered is non-negative on every path".
func c09CheckString(c *Ctx, db *TermDB, s string, rendered, strip bool) (string, *Term) {
	if !rendered {
		if strip {
			s, _ = refStrip(s)
		}
		return c09Tokenize(s), nil
	}
	useStr := strings.Contains(s, "%s") || strings.Contains(s, "%l")
	st := db.St.clone()
	var rps []refVal
	var dom []*Term
	for i := 0; i < 9; i++ {
		if useStr {
			id := Var(c.freshName(fmt.Sprintf("c09.p%d.str", i+1)), IntSort)
			sv := c.strOfID(st, id)
			rps = append(rps, refVal{S: &sv})
		} else {
			v := Var(c.freshName(fmt.Sprintf("c09.p%d", i+1)), BVSort(64))
			rps = append(rps, refVal{I: v})
			dom = append(dom, mk("bvsge", BoolSort, v, bv64(0)), mk("bvsle", BoolSort, v, bv64(1<<20)))
		}
	}
	var claims []*Term
	for _, rp := range RefTParm(c, st, s, rps) {
		if rp.Undef != "" {
			return "[the program is not well defined: " + rp.Undef + "]", nil
		}
		var sb strings.Builder
		var nums []*Term
		for _, p := range flattenRope(rp.Out) {
			switch {
			case p.Conc != nil:
				sb.WriteString(*p.Conc)
			case p.Spec == "itoa":
				sb.WriteString("1")
				if t, ok := p.SArgs[0].(*Term); ok {
					nums = append(nums, t)
				}
			case p.Spec == "fmt":
				f := ""
				if fs, ok := p.SArgs[0].(StrV); ok && fs.Conc != nil {
					f = *fs.Conc
				}
				t, isInt := p.SArgs[1].(*Term)
				switch {
				case isInt && strings.HasSuffix(f, "d"):
					sb.WriteString("1")
					nums = append(nums, t)
				case isInt:
					sb.WriteString("a") // hex / octal digits: printable, not a CSI parameter byte
					nums = append(nums, t)
				default:
					sb.WriteString("s") // text
				}
			case p.Spec == "chr":
				sb.WriteString("\x00") // a raw character computed from a parameter: not ECMA-48
			default:
				sb.WriteString("s") // application text
			}
		}
		out := sb.String()
		if strip {
			out, _ = refStrip(out)
		}
		if bad := c09Tokenize(out); bad != "" {
			return bad + fmt.Sprintf(" [on the path %v]", rp.Cond), nil
		}
		if len(nums) > 0 {
			var ge []*Term
			for _, n := range nums {
				ge = append(ge, mk("bvsge", BoolSort, n, bv64(0)))
			}
			claims = append(claims, Implies(And(append(append([]*Term(nil), dom...), rp.Cond...)...), And(ge...)))
		}
	}
	if len(claims) == 0 {
		return "", nil
	}
	return "", And(claims...)
}

// c09Tokenize: "" if s is a sequence of complete control sequences and single C0 controls.  Printable bytes are
// accepted only inside OSC / DCS / APC / PM / SOS strings.
func c09Tokenize(s string) string {
	i := 0
	n := len(s)
	for i < n {
		ch := s[i]
		switch {
		case ch == 0x1b:
			if i+1 >= n {
				return "[incomplete: ESC at the end]"
			}
			d := s[i+1]
			switch {
			case d == '[':
				j := i + 2
				for j < n && s[j] >= 0x30 && s[j] <= 0x3f {
					j++
				}
				for j < n && s[j] >= 0x20 && s[j] <= 0x2f {
					j++
				}
				if j >= n {
					return fmt.Sprintf("[incomplete CSI sequence %q]", s[i:])
				}
				if s[j] < 0x40 || s[j] > 0x7e {
					return fmt.Sprintf("[CSI sequence %q has the byte %#x where parameters, intermediates or the final byte are expected]", s[i:j+1], s[j])
				}
				i = j + 1
			case d == ']' || d == 'P' || d == '^' || d == '_' || d == 'X':
				j := i + 2
				done := false
				for j < n {
					if s[j] == 0x07 && d == ']' {
						j++
						done = true
						break
					}
					if s[j] == 0x1b && j+1 < n && s[j+1] == '\\' {
						j += 2
						done = true
						break
					}
					if s[j] < 0x20 && s[j] != 0x1b || s[j] == 0x7f {
						return fmt.Sprintf("[control byte %#x inside the string of %q]", s[j], s[i:j+1])
					}
					if s[j] == 0x1b {
						return fmt.Sprintf("[ESC inside the string of %q]", s[i:j+1])
					}
					j++
				}
				if !done {
					return fmt.Sprintf("[unterminated control string %q]", s[i:])
				}
				i = j
			default:
				j := i + 1
				for j < n && s[j] >= 0x20 && s[j] <= 0x2f {
					j++
				}
				if j >= n {
					return fmt.Sprintf("[incomplete escape sequence %q]", s[i:])
				}
				if s[j] < 0x30 || s[j] > 0x7e {
					return fmt.Sprintf("[escape sequence %q ends in the byte %#x]", s[i:j+1], s[j])
				}
				i = j + 1
			}
		case ch == 0x07 || ch == 0x08 || ch == 0x09 || ch == 0x0a || ch == 0x0b || ch == 0x0c || ch == 0x0d || ch == 0x0e || ch == 0x0f:
			i++
		case ch < 0x20 || ch == 0x7f:
			return fmt.Sprintf("[stray control byte %#x]", ch)
		default:
			j := i
			for j < n && s[j] >= 0x20 && s[j] != 0x7f {
				j++
			}
			return fmt.Sprintf("[text %q outside any control sequence: residue of the parameter or padding language, or a malformed sequence]", s[i:j])
		}
	}
	return ""
}
