package main

// C13, "cells in a locked region are never written while locked", for the one place where drawCell writes a cell other
// than the one it was asked to draw: the last-column / last-row corner on terminals with automatic margins that
// cannot be switched off and that have an insert-character string.  There the corner's content is written one cell to
// the LEFT and then shifted into place.  Evaluation rule: the real drawCell is run on each such description, on a 3x2
// screen whose corner cell (2,1) changed and whose left neighbour (1,1) is clean and LOCKED; nothing may be written
// with the cursor parked on the locked cell.

import (
	"fmt"
	"go/types"
	"math/big"
	"strings"
	"time"
)

// c13LockRegion: the real baseScreen.LockRegion over the real terminfo screen, evaluated on a concrete 4x3 buffer
// for regions that touch the right-most column and the bottom row, reach past the buffer, or lie inside: afterwards
// exactly the cells of (region intersected with buffer) carry the lock flag, and unlocking the same region clears it.
func c13LockRegion(run *PropRun) {
	e := run.Eng
	db := LoadTermDB(e, true)
	c := db.Ev.C
	te := db.ByName["xterm"]
	lockRegion := e.FindFunc(modPath + ".(*baseScreen).LockRegion")
	resize := e.FindFunc(modPath + ".(*CellBuffer).Resize")
	bsT := e.SPkgs[modPath].Type("baseScreen")
	if te == nil || lockRegion == nil || resize == nil || bsT == nil {
		panic(VerErr{"UNDECIDED: baseScreen.LockRegion / xterm description not found"})
	}
	fs, tp := c04Prepared(db, te)
	tv := c.mem(fs, tp.Obj).(*StructV)
	stt := under(tv.Typ).(*types.Struct)
	cellsIdx := -1
	for i := 0; i < stt.NumFields(); i++ {
		if stt.Field(i).Name() == "cells" {
			cellsIdx = i
		}
	}
	const W, H = 4, 3
	for _, rg := range [][4]int64{{1, 1, 2, 1}, {2, 1, 2, 2}, {0, 0, 4, 3}, {3, 2, 1, 1}, {2, 1, 5, 5}, {-1, -1, 3, 3}, {0, 2, 4, 1}} {
		name := fmt.Sprintf("LockRegion[%d,%d,%d,%d]/exactly-the-region", rg[0], rg[1], rg[2], rg[3])
		st := fs.clone()
		st.Frames = nil
		st.PathID = 0
		st.CallLog = nil
		cells := PtrV{Obj: tp.Obj, Path: []PathElem{{Field: cellsIdx}}}
		ps, err := db.Ev.Call(st, resize, []Value{cells, c.idx(W), c.idx(H)})
		if err != nil || len(ps) != 1 {
			run.Errors = append(run.Errors, fmt.Sprintf("%s: Resize: %v", name, err))
			continue
		}
		st = ps[0].St
		st.Frames = nil
		bo := c.newObject("basescreen", bsT.Type())
		bv := c.zeroValue(st, bsT.Type()).(*StructV)
		nb := &StructV{Typ: bv.Typ, F: append([]Value(nil), bv.F...)}
		nb.F[0] = IfaceV{Dyn: types.NewPointer(tv.Typ), Val: tp, Iface: under(bsT.Type()).(*types.Struct).Field(0).Type()}
		st.Mem[bo] = nb
		locked := func(s *State) (map[[2]int]bool, bool) {
			out := map[[2]int]bool{}
			sv := c.mem(s, tp.Obj).(*StructV)
			cb := sv.F[cellsIdx].(*StructV)
			var sl SliceV
			for k := range cb.F {
				if v, ok := cb.F[k].(SliceV); ok {
					sl = v
				}
			}
			if sl.Heap || sl.Obj == nil {
				return nil, false
			}
			arr := c.mem(s, sl.Obj).(*ArrayV)
			for k := 0; k < sl.CLen; k++ {
				cv := arr.Elems[sl.COff+k].(*StructV)
				ct := under(cv.Typ).(*types.Struct)
				for f := 0; f < ct.NumFields(); f++ {
					if ct.Field(f).Name() == "lock" {
						t, ok := cv.F[f].(*Term)
						if !ok || !(t.IsTrue() || t.IsFalse()) {
							return nil, false
						}
						out[[2]int{k % W, k / W}] = t.IsTrue()
					}
				}
			}
			return out, true
		}
		ok := true
		why := ""
		cur := st
		for _, lk := range []bool{true, false} {
			ps, err := db.Ev.Call(cur, lockRegion, []Value{PtrV{Obj: bo}, c.idx(rg[0]), c.idx(rg[1]), c.idx(rg[2]), c.idx(rg[3]), BoolT(lk)})
			if err != nil || len(ps) != 1 {
				ok, why = false, fmt.Sprintf("evaluation: %v (%d paths)", err, len(ps))
				break
			}
			cur = ps[0].St
			cur.Frames = nil
			got, conc := locked(cur)
			if !conc {
				ok, why = false, "lock flags not concrete"
				break
			}
			for y := 0; y < H; y++ {
				for x := 0; x < W; x++ {
					in := int64(x) >= rg[0] && int64(x) < rg[0]+rg[2] && int64(y) >= rg[1] && int64(y) < rg[1]+rg[3]
					if got[[2]int{x, y}] != (in && lk) {
						ok = false
						why = fmt.Sprintf("after LockRegion(..., %v) the cell (%d,%d) has lock=%v", lk, x, y, got[[2]int{x, y}])
					}
				}
			}
		}
		g := run.AddObligation(name, "table", BoolT(ok), fmt.Sprintf("on a %dx%d screen LockRegion(%d,%d,%d,%d,true) locks exactly the cells of the region that are on the screen and LockRegion(...,false) unlocks them again %s", W, H, rg[0], rg[1], rg[2], rg[3], why))
		g.ReplayGo = replayTest("tcell", []string{modPath + "/terminfo"}, fmt.Sprintf(`
	scr := &tScreen{ti: &terminfo.Terminfo{}}
	scr.cells.Resize(%d, %d)
	b := &baseScreen{screenImpl: scr}
	for _, lk := range []bool{true, false} {
		b.LockRegion(%d, %d, %d, %d, lk)
		for y := 0; y < %d; y++ {
			for x := 0; x < %d; x++ {
				in := x >= %d && x < %d+%d && y >= %d && y < %d+%d
				if got := scr.cells.cells[y*%d+x].lock; got != (in && lk) { fail("after LockRegion(%d,%d,%d,%d,%%v) the cell (%%d,%%d) has lock=%%v", lk, x, y, got); return }
			}
		}
	}`, W, H, rg[0], rg[1], rg[2], rg[3], H, W, rg[0], rg[0], rg[2], rg[1], rg[1], rg[3], W, rg[0], rg[1], rg[2], rg[3]))
	}
}

func c13Corner(run *PropRun) {
	e := run.Eng
	db := LoadTermDB(e, true)
	c := db.Ev.C
	draw := e.FindFunc(modPath + ".(*tScreen).drawCell")
	resize := e.FindFunc(modPath + ".(*CellBuffer).Resize")
	setc := e.FindFunc(modPath + ".(*CellBuffer).SetContent")
	setd := e.FindFunc(modPath + ".(*CellBuffer).SetDirty")
	lock := e.FindFunc(modPath + ".(*CellBuffer).LockCell")
	if draw == nil || resize == nil || setc == nil || setd == nil || lock == nil {
		panic(VerErr{"UNDECIDED: drawCell / CellBuffer methods not found"})
	}
	n := 0
	for _, te := range db.Entries {
		am, ok := db.field(te, "AutoMargin").(*Term)
		if !ok || !am.IsTrue() || db.str(te, "DisableAutoMargin") != "" || db.str(te, "InsertChar") == "" {
			continue
		}
		n++
		name := fmt.Sprintf("drawCell[%s]/corner-trick-respects-lock", te.Name)
		fs, tp := c04Prepared(db, te)
		st := fs.clone()
		st.Frames = nil
		st.PathID = 0
		st.CallLog = nil
		tv := c.mem(st, tp.Obj).(*StructV)
		stt := under(tv.Typ).(*types.Struct)
		nf := &StructV{Typ: tv.Typ, F: append([]Value(nil), tv.F...)}
		bufIdx, cellsIdx := -1, -1
		for i := 0; i < stt.NumFields(); i++ {
			f := stt.Field(i)
			switch f.Name() {
			case "buf":
				bufIdx = i
			case "cells":
				cellsIdx = i
			case "buffering":
				nf.F[i] = True()
			case "w":
				nf.F[i] = NumC(big.NewInt(3), c.sortOfBasic(f.Type()))
			case "h":
				nf.F[i] = NumC(big.NewInt(2), c.sortOfBasic(f.Type()))
			case "cx", "cy":
				nf.F[i] = NumC(big.NewInt(-1), c.sortOfBasic(f.Type()))
			}
		}
		st.Mem[tp.Obj] = nf
		cells := PtrV{Obj: tp.Obj, Path: []PathElem{{Field: cellsIdx}}}
		step := func(what string, fn interface{}, args []Value) bool {
			var ps []EvalPath
			var err error
			switch f := fn.(type) {
			case func() ([]EvalPath, error):
				ps, err = f()
			}
			_ = args
			if err != nil || len(ps) != 1 {
				run.Errors = append(run.Errors, fmt.Sprintf("%s: %s: %v (%d paths)", name, what, err, len(ps)))
				return false
			}
			st = ps[0].St
			st.Frames = nil
			return true
		}
		i := func(v int64) Value { return c.idx(v) }
		r := func(ch rune) Value { return NumC(big.NewInt(int64(ch)), BVSort(32)) }
		styleT := e.SPkgs[modPath].Type("Style").Type()
		zeroStyle := c.zeroValue(st, styleT)
		nilRunes := SliceV{Elem: types.Typ[types.Int32]}
		okSetup := step("Resize", func() ([]EvalPath, error) { return db.Ev.Call(st, resize, []Value{cells, i(3), i(2)}) }, nil) &&
			step("SetContent(1,1)", func() ([]EvalPath, error) { return db.Ev.Call(st, setc, []Value{cells, i(1), i(1), r('n'), nilRunes, zeroStyle}) }, nil) &&
			step("SetDirty(1,1,false)", func() ([]EvalPath, error) { return db.Ev.Call(st, setd, []Value{cells, i(1), i(1), False()}) }, nil) &&
			step("LockCell(1,1)", func() ([]EvalPath, error) { return db.Ev.Call(st, lock, []Value{cells, i(1), i(1)}) }, nil) &&
			step("SetContent(2,1)", func() ([]EvalPath, error) { return db.Ev.Call(st, setc, []Value{cells, i(2), i(1), r('Q'), nilRunes, zeroStyle}) }, nil)
		if !okSetup {
			continue
		}
		paths, err := db.Ev.Call(st, draw, []Value{tp, i(2), i(1)})
		if err != nil || len(paths) == 0 {
			run.Errors = append(run.Errors, fmt.Sprintf("%s: drawCell: %v", name, err))
			continue
		}
		gotoOut, gerr := evalMethod(db, te, "TGoto", []Value{i(1), i(1)})
		if gerr != nil || len(gotoOut) != 1 || gotoOut[0].Out.Conc == nil {
			run.Errors = append(run.Errors, fmt.Sprintf("%s: TGoto(1,1): %v", name, gerr))
			continue
		}
		at11 := *gotoOut[0].Out.Conc
		ok = true
		why := ""
		for _, p := range paths {
			text := ""
			if rp, isS := p.St.Ghost["rope:"+pathKey(tp.Obj, []int{bufIdx})].(StrV); isS {
				for _, piece := range flattenRope(rp) {
					if piece.Conc != nil {
						text += *piece.Conc
					} else {
						text += "\x00"
					}
				}
			}
			// any printable byte emitted right after the cursor was put on (1,1) is cell text written into the locked cell
			for k := strings.Index(text, at11); k >= 0; {
				rest := text[k+len(at11):]
				if len(rest) > 0 && rest[0] >= 0x20 && rest[0] != 0x7f {
					ok = false
					why = fmt.Sprintf("[the real code emits %q: the corner's content is written at the locked cell (1,1) and shifted from there]", text)
				}
				n2 := strings.Index(rest, at11)
				if n2 < 0 {
					break
				}
				k = k + len(at11) + n2
			}
		}
		g := run.AddObligation(name, "table", BoolT(ok), "painting the bottom-right corner does not write into its left neighbour while that neighbour is locked "+why)
		g.ReplayGo = replayTest("tcell", []string{"bytes", "strings", modPath + "/terminfo", "_ " + modPath + "/terminfo/extended"}, fmt.Sprintf(`
	ti, err := terminfo.LookupTerminfo(%q)
	if err != nil { fail("lookup: %%v", err); return }
	scr := &tScreen{ti: ti, buffering: true, w: 3, h: 2, cx: -1, cy: -1}
	scr.cells.Resize(3, 2)
	scr.cells.SetContent(1, 1, 'n', nil, StyleDefault)
	scr.cells.SetDirty(1, 1, false)
	scr.cells.LockCell(1, 1)
	scr.cells.SetContent(2, 1, 'Q', nil, StyleDefault)
	scr.drawCell(2, 1)
	var b bytes.Buffer
	ti.TPuts(&b, ti.TGoto(1, 1))
	out := scr.buf.String()
	for k := strings.Index(out, b.String()); k >= 0; {
		rest := out[k+b.Len():]
		if len(rest) > 0 && rest[0] >= 0x20 && rest[0] != 0x7f {
			fail("drawing the corner cell (2,1) wrote %%q: its content goes to the LOCKED cell (1,1) first and is shifted from there", out)
			return
		}
		n2 := strings.Index(rest, b.String())
		if n2 < 0 { break }
		k = k + b.Len() + n2
	}`, te.Name))
	}
	for _, g := range run.Groups {
		switch g.Name {
		case "tcell.(*CellBuffer).UnlockCell/ensures#never-locked":
			g.ReplayGo = replayTest("tcell", nil, `
	var cb CellBuffer
	cb.Resize(4, 2)
	cb.SetContent(1, 1, 'n', nil, StyleDefault)
	cb.SetDirty(1, 1, false)
	cb.UnlockCell(1, 1) // never locked
	if cb.Dirty(1, 1) { fail("UnlockCell on a cell that was never locked made the clean cell dirty: it will be repainted although nothing changed"); return }`)
		case "tcell.(*CellBuffer).SetContent/ensures#selfdirty":
			g.ReplayGo = replayTest("tcell", nil, `
	var cb CellBuffer
	cb.Resize(4, 2)
	cb.SetContent(1, 1, 'a', nil, StyleDefault)
	cb.SetDirty(1, 1, false) // 'a' is on the terminal
	cb.Fill(' ', StyleDefault) // the usual frame loop: clear ...
	cb.SetContent(1, 1, 'a', nil, StyleDefault) // ... and draw the same thing again
	if cb.Dirty(1, 1) { fail("Clear followed by the identical content left the cell dirty: every frame repaints every non-blank cell"); return }
	cb.SetContent(1, 1, 'b', nil, StyleDefault)
	cb.SetContent(1, 1, 'a', nil, StyleDefault)
	if cb.Dirty(1, 1) { fail("a -> b -> a between two Shows left the cell dirty although it shows what the terminal shows"); return }
	cb.SetContent(1, 1, 'c', nil, StyleDefault)
	if !cb.Dirty(1, 1) { fail("a real change is not reported dirty"); return }`)
		}
	}
	run.Extra["descriptions_with_the_corner_trick"] = n
	for k := range c.Assumed {
		run.Assumed[k] = true
	}
}

// c13PaintedClean: the painting path of drawCell is outside the contract's reach (its effect on the buffer is assumed,
// see the drawCell contract), so "a cell that has been painted is clean, and a second pass with no change writes
// nothing" is decided by a bounded native stand-in: the real drawCell, driven the way draw drives it, over row 0 of a
// 4x2 screen (the corner rule only concerns the bottom row) on several descriptions, with narrow, combining and wide
// runes - a wide rune in the middle, ending exactly at the margin, and in the last column where it does not fit.
func c13PaintedClean(run *PropRun) {
	src := replayTest("tcell", []string{"golang.org/x/text/encoding/unicode", modPath + "/terminfo", "_ " + modPath + "/terminfo/extended"}, `
	type put struct { x int; r rune; comb []rune }
	scenarios := [][]put{
		{{0, 'a', nil}, {1, 0x4e16, nil}, {3, 'b', nil}},
		{{0, 'a', nil}, {3, 0x4e16, nil}},
		{{0, 'e', []rune{0x0301}}, {2, 0x4e16, nil}},
		{{0, 0x4e16, nil}, {2, 0x4e16, []rune{0x0301}}},
		{{1, 'x', nil}, {2, 0x7f, nil}, {3, 0x4e16, []rune{0x0301}}},
	}
	bad := ""
	n := 0
	for _, name := range []string{"xterm-256color", "xterm", "linux", "vt100", "vt220", "tmux", "screen", "rxvt", "beterm", "sun", "wy50", "cygwin"} {
		ti, err := terminfo.LookupTerminfo(name)
		if err != nil { bad = "lookup " + name + ": " + err.Error(); break }
		for si, sc := range scenarios {
			for _, styled := range []bool{false, true} {
				scr := &tScreen{ti: ti, buffering: true, w: 4, h: 2, cx: -1, cy: -1}
				scr.encoder = unicode.UTF8.NewEncoder()
				scr.charset = "UTF-8"
				scr.cells.Resize(4, 2)
				st := StyleDefault
				if styled { st = st.Bold(true).Reverse(true) }
				for _, p := range sc { scr.cells.SetContent(p.x, 0, p.r, p.comb, st) }
				pass := func() []int {
					var visited []int
					for x := 0; x < scr.w; x++ {
						visited = append(visited, x)
						width := scr.drawCell(x, 0)
						if width > 1 && x+1 < scr.w { scr.cells.SetDirty(x+1, 0, true) }
						if width < 1 { width = 1 }
						x += width - 1
					}
					return visited
				}
				for _, x := range pass() {
					n++
					if scr.cells.Dirty(x, 0) {
						bad = fmt.Sprintf("%s, scenario %d, styled=%v: cell (%d,0) is still dirty after drawCell painted it - it is written again by every Show", name, si, styled, x)
					}
				}
				scr.buf.Reset()
				pass()
				if out := scr.buf.String(); out != "" && bad == "" {
					bad = fmt.Sprintf("%s, scenario %d, styled=%v: a second pass with no change wrote %q", name, si, styled, out)
				}
				if bad != "" { break }
			}
			if bad != "" { break }
		}
		if bad != "" { break }
	}
	if bad != "" { fmt.Println("PAINTCLEAN FAIL " + bad); fail("%s", bad); return }
	fmt.Printf("PAINTCLEAN OK %d\n", n)`)
	out, err := runOverlayTest(run.Eng.Repo, run.Eng.Repo, src, 300*time.Second, nil)
	ok, detail := false, ""
	for _, ln := range strings.Split(out, "\n") {
		if strings.HasPrefix(ln, "PAINTCLEAN OK ") {
			ok = true
			detail = strings.TrimPrefix(ln, "PAINTCLEAN OK ") + " painted cells"
		}
		if strings.HasPrefix(ln, "PAINTCLEAN FAIL ") && detail == "" {
			detail = strings.TrimPrefix(ln, "PAINTCLEAN FAIL ")
		}
	}
	if !ok && detail == "" {
		run.Errors = append(run.Errors, fmt.Sprintf("painted-cell check did not run: %v %s", err, tail(out, 600)))
		return
	}
	g := run.AddObligation("drawCell/painted-cell-is-clean-and-second-pass-silent", "bounded", BoolT(ok),
		"every cell drawCell paints is clean afterwards and a second pass with no change emits nothing (native; 12 descriptions x 5 row scenarios with narrow, combining and wide runes incl. a wide rune in the last column x plain/styled): "+detail)
	g.ReplayDir = run.Eng.Repo
	g.ReplayGo = src
}
