package main

// C14: the built-in terminal database (every entry registered by the real init functions) and LookupTerminfo.

import (
	"fmt"
	"go/types"
	"sort"
	"strings"
)

// paramArity: how many parameters the library supplies for each parameterized capability (from the TParm call
// sites in tscreen.go / terminfo.go; trusted table, one line per field).
var paramArity = map[string]int{
	"SetCursor": 2, "SetFg": 1, "SetBg": 1, "SetFgBg": 2, "SetFgRGB": 3, "SetBgRGB": 3, "SetFgBgRGB": 6,
	"CursorColorRGB": 1, "EnterUrl": 2, "SetWindowSize": 2, "SetWindowTitle": 1, "UnderlineColor": 1, "UnderlineColorRGB": 3,
	"SetClipboard": 1,
}

const std256Fg = "\x1b[%?%p1%{8}%<%t3%p1%d%e%p1%{16}%<%t9%p1%{8}%-%d%e38;5;%p1%d%;m"
const std256Bg = "\x1b[%?%p1%{8}%<%t4%p1%d%e%p1%{16}%<%t10%p1%{8}%-%d%e48;5;%p1%d%;m"
const stdFgRGB = "\x1b[38;2;%p1%d;%p2%d;%p3%dm"
const stdBgRGB = "\x1b[48;2;%p1%d;%p2%d;%p3%dm"

func wellFormedProgram(prog string) string {
	depth := 0
	for i := 0; i < len(prog); i++ {
		if prog[i] != '%' {
			continue
		}
		i++
		if i >= len(prog) {
			return "dangling %"
		}
		switch prog[i] {
		case '?':
			depth++
		case ';':
			depth--
			if depth < 0 {
				return "%; without %?"
			}
		case 't', 'e':
			if depth == 0 {
				return fmt.Sprintf("%%%c outside a conditional", prog[i])
			}
		case 'p':
			i++
			if i >= len(prog) || prog[i] < '1' || prog[i] > '9' {
				return "bad %p"
			}
		case 'P', 'g':
			i++
			if i >= len(prog) || !(prog[i] >= 'a' && prog[i] <= 'z' || prog[i] >= 'A' && prog[i] <= 'Z') {
				return "bad variable name"
			}
		case '\'':
			if i+2 >= len(prog) || prog[i+2] != '\'' {
				return "bad character constant"
			}
			i += 2
		case '{':
			j := i + 1
			for j < len(prog) && prog[j] >= '0' && prog[j] <= '9' {
				j++
			}
			if j >= len(prog) || prog[j] != '}' || j == i+1 {
				return "bad integer constant"
			}
			i = j
		case '%', 'i', 'd', 'c', 's', 'l', '+', '-', '*', '/', 'm', '&', '|', '^', '~', '!', '=', '>', '<', 'A', 'O':
		case ':', '#', ' ', '.', '0', '1', '2', '3', '4', '5', '6', '7', '8', '9', 'x', 'X', 'o':
			j := i
			for j < len(prog) && strings.IndexByte(":#- +.0123456789", prog[j]) >= 0 {
				j++
			}
			if j >= len(prog) || strings.IndexByte("doxXsc", prog[j]) < 0 {
				return "bad printf-style format"
			}
			i = j
		default:
			return fmt.Sprintf("unknown operator %%%c", prog[i])
		}
	}
	if depth != 0 {
		return "unterminated %?"
	}
	return ""
}

func c14Database(run *PropRun) {
	e := run.Eng
	db := LoadTermDB(e, true)
	c := db.Ev.C
	n := 0
	for _, te := range db.Entries {
		nm := te.Name
		run.AddObligation(fmt.Sprintf("termdb[%s]/cursor-addressing", nm), "table", BoolT(db.str(te, "SetCursor") != ""), nm+" has a cup string")
		colors := db.num(te, "Colors")
		setaf, setab := db.str(te, "SetFg"), db.str(te, "SetBg")
		okc := (colors == 0) == (setaf == "" && setab == "") && (colors == 0 || (setaf != "" && setab != ""))
		run.AddObligation(fmt.Sprintf("termdb[%s]/colors-consistent", nm), "table", BoolT(okc && colors >= 0),
			fmt.Sprintf("%s: Colors=%d is zero exactly when there are no setaf/setab strings (setaf=%q setab=%q)", nm, colors, setaf, setab))
		n += 2
		// the colour count is what TColor elides against: an entry whose setaf/setab are the indexed 256-colour programs
		// (38;5;N / 48;5;N) has no palette entries beyond 255, whatever else it can do through the RGB strings
		{
			indexed := strings.Contains(setaf, "38;5;%p1%d") && !strings.Contains(setaf, "38;2") && !strings.Contains(setaf, "65536") && !strings.Contains(setaf, "38:2")
			g := run.AddObligation(fmt.Sprintf("termdb[%s]/colour-count-matches-palette-strings", nm), "table", BoolT(!indexed || colors <= 256),
				fmt.Sprintf("%s: Colors=%d with the indexed 256-colour setaf %q - an index beyond 255 is out of range for these strings and has to be elided by TColor", nm, colors, setaf))
			g.ReplayGo = replayTest("tcell", []string{"strings", modPath + "/terminfo", "_ " + modPath + "/terminfo/extended"}, fmt.Sprintf(`
	ti, err := terminfo.LookupTerminfo(%q)
	if err != nil { fail("lookup: %%v", err); return }
	if out := ti.TColor(300, -1); strings.Contains(out, ";5;300") {
		fail("%%s: TColor(300,-1) = %%q selects palette entry 300 of a 256-entry palette (Colors = %%d)", ti.Name, out, ti.Colors)
		return
	}`, nm))
			n++
		}
		for i := 0; i < db.TI.NumFields(); i++ {
			f := db.TI.Field(i)
			if !isString(f.Type()) || strings.HasPrefix(f.Name(), "Key") {
				continue
			}
			s := db.str(te, f.Name())
			if !strings.Contains(s, "%") {
				continue
			}
			// padding specs ($<..>) are not part of the parameter language
			why := wellFormedProgram(s)
			run.AddObligation(fmt.Sprintf("termdb[%s]/wellformed[%s]", nm, f.Name()), "table", BoolT(why == ""), fmt.Sprintf("%s.%s = %q is a well-formed terminfo(5) program %s", nm, f.Name(), s, why))
			ar, known := paramArity[f.Name()]
			mp := maxParam(s)
			run.AddObligation(fmt.Sprintf("termdb[%s]/arity[%s]", nm, f.Name()), "table", BoolT(known && mp <= ar),
				fmt.Sprintf("%s.%s uses parameters up to %%p%d; the library supplies %d (known parameterized field: %v)", nm, f.Name(), mp, ar, known))
			n += 2
		}
		tab, _, _ := buildKeyTable(db, te)
		var seqs []string
		for s := range tab {
			seqs = append(seqs, s)
		}
		sort.Strings(seqs)
		bad := ""
		for i, a := range seqs {
			for j, b := range seqs {
				if i != j && len(a) < len(b) && strings.HasPrefix(b, a) {
					bad = fmt.Sprintf("%q < %q", a, b)
				}
			}
		}
		run.AddObligation(fmt.Sprintf("termdb[%s]/keys-prefix-free", nm), "table", BoolT(bad == ""), nm+": no key sequence is a proper prefix of another "+bad)
		n++
		// every alias resolves to this entry
		for _, a := range append([]string{te.Name}, te.Aliases...) {
			run.AddObligation(fmt.Sprintf("termdb[%s]/resolves[%s]", nm, a), "table", BoolT(db.ByName[a] == te), a+" resolves to the entry "+nm)
			n++
		}
	}
	run.Extra["entries"] = len(db.Entries)
	run.Extra["database_obligations"] = n
	c14Lookups(run, db)
	run.Groups = append(run.Groups, groupObligations(c.Obs)...)
	c.Obs = nil
	for k := range c.Assumed {
		run.Assumed[k] = true
	}
}

// c14Lookups evaluates the real LookupTerminfo on concrete names with a symbolic environment.
func c14Lookups(run *PropRun, db *TermDB) {
	e := run.Eng
	c := db.Ev.C
	fn := e.FindFunc(modPath + "/terminfo.LookupTerminfo")
	if fn == nil {
		panic(VerErr{"UNDECIDED: terminfo.LookupTerminfo not found"})
	}
	tiPkg := e.SPkgs[modPath+"/terminfo"]
	errNF := tiPkg.Var("ErrTermNotFound")
	names := map[string]bool{"": true, "no-such-terminal": true, "no-such-terminal-256color": true, "no-such-terminal-truecolor": true}
	for n := range db.ByName {
		names[n] = true
	}
	// synthesised variants of every base that has a -color / -88color entry but no -256color, and -truecolor of a sample
	for n := range db.ByName {
		for _, suf := range []string{"-color", "-88color"} {
			if strings.HasSuffix(n, suf) {
				base := strings.TrimSuffix(n, suf)
				names[base+"-256color"] = true
				names[base+"-truecolor"] = true
			}
		}
	}
	for _, n := range []string{"xterm", "screen", "vt220", "tmux", "linux", "konsole", "rxvt", "st"} {
		if db.ByName[n] != nil {
			names[n+"-truecolor"] = true
		}
	}
	var nl []string
	for n := range names {
		nl = append(nl, n)
	}
	sort.Strings(nl)
	if false && run.Tier != "thorough" && len(nl) > 70 { // every name in both tiers (a lookup costs milliseconds; names with capitals such as the alias X-hpterm must not fall through a sample)
		// quick tier: all unregistered names plus a deterministic sample of registered ones
		var keep []string
		for i, n := range nl {
			if db.ByName[n] == nil || i%3 == 0 {
				keep = append(keep, n)
			}
		}
		nl = keep
	}
	lookups := 0
	for _, name := range nl {
		st := db.St.clone()
		st.Frames = nil
		st.PathID = 0
		// snapshot of every registered entry
		before := map[*Object]Value{}
		for _, te := range db.Entries {
			before[te.Ptr.Obj] = c.mem(st, te.Ptr.Obj)
		}
		ct := c.envVar(st, "COLORTERM")
		tt := c.envVar(st, "TCELL_TRUECOLOR")
		enfObj := c.globalObj(st, errNF)
		enf := c.mem(st, enfObj)
		paths, err := db.Ev.Call(st, fn, []Value{conc(name)})
		if err != nil {
			run.Errors = append(run.Errors, fmt.Sprintf("lookup[%s]: %v", name, err))
			continue
		}
		lookups++
		// specification of the expected outcome
		var base *TermEntry
		synth256 := false
		reg := db.ByName[name]
		sufTC := false
		if reg != nil {
			base = reg
		} else if strings.HasSuffix(name, "-truecolor") {
			b := strings.TrimSuffix(name, "-truecolor")
			for _, s := range []string{"-256color", "-88color", "-color", ""} {
				if t := db.ByName[b+s]; t != nil {
					base = t
					sufTC = true
					break
				}
				// a synthesised -256color of the base counts too
				if s == "-256color" {
					for _, s2 := range []string{"-88color", "-color"} {
						if t := db.ByName[b+s2]; t != nil && base == nil {
							base = t
							synth256 = true
							sufTC = true
						}
					}
					if base != nil {
						break
					}
				}
			}
		} else if strings.HasSuffix(name, "-256color") {
			b := strings.TrimSuffix(name, "-256color")
			for _, s := range []string{"-88color", "-color"} {
				if t := db.ByName[b+s]; t != nil {
					base = t
					synth256 = true
					break
				}
			}
		}
		frameName := fmt.Sprintf("lookup[%s]/registered-entries-unchanged", name)
		resName := fmt.Sprintf("lookup[%s]/result", name)
		fg := &ObGroup{Name: frameName, Kind: "table", Fn: "table", Src: "LookupTerminfo(" + name + ") leaves every registered entry as it was (so later lookups cannot depend on this one), for every COLORTERM / TCELL_TRUECOLOR"}
		rg := &ObGroup{Name: resName, Kind: "table", Fn: "table", Src: "LookupTerminfo(" + name + ") returns the specified entry / ErrTermNotFound, with direct colour exactly as COLORTERM / TCELL_TRUECOLOR say"}
		for _, p := range paths {
			fs := p.St
			// frame
			changed := ""
			for _, te := range db.Entries {
				if !sameValue(before[te.Ptr.Obj], c.mem(fs, te.Ptr.Obj)) {
					changed += " " + te.Name
				}
			}
			fg.Instances = append(fg.Instances, &Obligation{Name: frameName, Kind: "table", PC: p.PC, Claim: BoolT(changed == ""), Src: fg.Src + " [modified:" + changed + "]"})
			// result
			ret := p.Ret.(*TupleV)
			rptr := ret.V[0].(PtrV)
			rerr := ret.V[1].(IfaceV)
			var claim *Term
			if base == nil {
				claim = BoolT(rptr.Nil && !rerr.Nil && sameValue(rerr, enf))
			} else if rptr.Nil || rptr.Obj == nil || !rerr.Nil {
				claim = False()
			} else {
				rv := c.mem(fs, rptr.Obj).(*StructV)
				get := func(v *StructV, f string) Value {
					for i := 0; i < db.TI.NumFields(); i++ {
						if db.TI.Field(i).Name() == f {
							return v.F[i]
						}
					}
					return nil
				}
				bv := before[base.Ptr.Obj].(*StructV)
				// direct colour requested?
				isLit := func(s StrV, lit string) *Term { return c.strEq(fs, s, conc(lit)) }
				on := Or(isLit(ct, "truecolor"), isLit(ct, "24bit"), isLit(ct, "24-bit"), BoolT(termInt2(get(bv, "TrueColor")) != 0), BoolT(sufTC))
				on = Ite(isLit(tt, ""), on, Ite(isLit(tt, "disable"), False(), True()))
				hasRGB := *get(bv, "SetFgRGB").(StrV).Conc != "" || *get(bv, "SetBgRGB").(StrV).Conc != "" || *get(bv, "SetFgBgRGB").(StrV).Conc != ""
				strIs := func(f, want string) *Term { return BoolT(*get(rv, f).(StrV).Conc == want) }
				same := func(f string) *Term { return BoolT(sameValue(get(rv, f), get(bv, f))) }
				var cs []*Term
				if hasRGB {
					cs = append(cs, same("SetFgRGB"), same("SetBgRGB"))
				} else {
					cs = append(cs, Ite(on, And(strIs("SetFgRGB", stdFgRGB), strIs("SetBgRGB", stdBgRGB), strIs("SetFgBgRGB", "\x1b[38;2;%p1%d;%p2%d;%p3%d;48;2;%p4%d;%p5%d;%p6%dm")), And(same("SetFgRGB"), same("SetBgRGB"), same("SetFgBgRGB"))))
				}
				if synth256 {
					cs = append(cs, BoolT(termInt2(get(rv, "Colors")) == 256), strIs("SetFg", std256Fg), strIs("SetBg", std256Bg))
					if x := db.ByName["xterm-256color"]; x != nil {
						// the combined form is the registered xterm-256color's (foreground from parameter 1, background from parameter 2)
						cs = append(cs, strIs("SetFgBg", db.str(x, "SetFgBg")))
					}
				} else {
					cs = append(cs, same("Colors"), same("SetFg"), same("SetBg"))
				}
				cs = append(cs, same("SetCursor"), same("Name"), same("Mouse"), same("KeyUp"), same("EnterCA"))
				claim = And(cs...)
			}
			rg.Instances = append(rg.Instances, &Obligation{Name: resName, Kind: "table", PC: p.PC, Claim: claim, Src: rg.Src})
		}
		nm := name
		fg.ReplayDir = e.Repo + "/terminfo"
		fg.ReplayGo = replayTest("terminfo_test", []string{"os", "reflect", "strings", modPath + "/terminfo", "_ " + modPath + "/terminfo/extended"}, fmt.Sprintf(`
	names := []string{"xterm", "xterm-256color", "eterm", "eterm-color", "sun-color", "screen", "rxvt-88color", "rxvt", "vt220", "linux", "tmux", "st", "konsole"}
	for _, suf := range []string{"", "-truecolor", "-256color"} {
		b := strings.TrimSuffix(LOOKUPNAME, suf)
		for _, s2 := range []string{"", "-color", "-88color", "-256color"} { names = append(names, b+s2) }
	}
	snap := map[string]terminfo.Terminfo{}
	os.Setenv("COLORTERM", ""); os.Setenv("TCELL_TRUECOLOR", "")
	for _, n := range names { if ti, err := terminfo.LookupTerminfo(n); err == nil { snap[n] = *ti } }
	for _, env := range [][2]string{{"", ""}, {"truecolor", ""}, {"", "enable"}, {"truecolor", "disable"}} {
		os.Setenv("COLORTERM", env[0]); os.Setenv("TCELL_TRUECOLOR", env[1])
		terminfo.LookupTerminfo(%q)
		os.Setenv("COLORTERM", ""); os.Setenv("TCELL_TRUECOLOR", "")
		for _, n := range names {
			ti, err := terminfo.LookupTerminfo(n)
			if err != nil { continue }
			if !reflect.DeepEqual(*ti, snap[n]) { fail("after LookupTerminfo(%%q) with COLORTERM=%%q TCELL_TRUECOLOR=%%q the entry %%q differs from what it was (Colors %%d -> %%d, SetFgRGB %%q -> %%q)", %q, env[0], env[1], n, snap[n].Colors, ti.Colors, snap[n].SetFgRGB, ti.SetFgRGB); return }
		}
	}`, nm, nm))
		fg.ReplayGo = strings.ReplaceAll(fg.ReplayGo, "LOOKUPNAME", fmt.Sprintf("%q", nm))
		baseName, wantErr := "", base == nil
		if base != nil {
			baseName = base.Name
		}
		rg.ReplayDir = e.Repo + "/terminfo"
		rg.ReplayGo = replayTest("terminfo_test", []string{"os", modPath + "/terminfo", "_ " + modPath + "/terminfo/extended"}, fmt.Sprintf(`
	os.Setenv("COLORTERM", ""); os.Setenv("TCELL_TRUECOLOR", "")
	var base terminfo.Terminfo
	if !%v { b, err := terminfo.LookupTerminfo(%q); if err != nil { fail("base lookup: %%v", err); return }; base = *b }
	for _, ct := range []string{"", "truecolor", "24bit", "24-bit", "other"} {
		for _, tt := range []string{"", "disable", "enable", "1"} {
			os.Setenv("COLORTERM", ct); os.Setenv("TCELL_TRUECOLOR", tt)
			ti, err := terminfo.LookupTerminfo(%q)
			if %v { if err != terminfo.ErrTermNotFound || ti != nil { fail("LookupTerminfo(%%q) = %%v, %%v; want ErrTermNotFound", %q, ti, err); return }; continue }
			if err != nil || ti == nil { fail("LookupTerminfo(%%q) with COLORTERM=%%q TCELL_TRUECOLOR=%%q failed: %%v", %q, ct, tt, err); return }
			on := ct == "truecolor" || ct == "24bit" || ct == "24-bit" || base.TrueColor || %v
			if tt == "disable" { on = false } else if tt != "" { on = true }
			hasRGB := base.SetFgRGB != "" || base.SetBgRGB != "" || base.SetFgBgRGB != ""
			wantFg := base.SetFgRGB
			if !hasRGB && on { wantFg = %q }
			if ti.SetFgRGB != wantFg { fail("LookupTerminfo(%%q) COLORTERM=%%q TCELL_TRUECOLOR=%%q: SetFgRGB=%%q want %%q", %q, ct, tt, ti.SetFgRGB, wantFg); return }
			if %v { if ti.Colors != 256 || ti.SetFg != %q { fail("LookupTerminfo(%%q): Colors=%%d SetFg=%%q, want the standard 256-colour strings", %q, ti.Colors, ti.SetFg); return } } else if ti.Colors != base.Colors || ti.SetFg != base.SetFg { fail("LookupTerminfo(%%q): Colors=%%d SetFg=%%q, want those of %%q (%%d)", %q, ti.Colors, ti.SetFg, base.Name, base.Colors); return }
		}
	}`, wantErr, baseName, nm, wantErr, nm, nm, sufTC, stdFgRGB, nm, synth256, std256Fg, nm, nm))
		run.Groups = append(run.Groups, fg, rg)
	}
	run.Extra["lookups_evaluated"] = lookups
}

func termInt2(v Value) int64 {
	t, ok := v.(*Term)
	if !ok {
		return 0
	}
	if t.Sort.Kind == SBool {
		if t.BVal {
			return 1
		}
		return 0
	}
	return termInt(t)
}

// envVar: the value of an environment variable is an arbitrary string, fixed per evaluation.
func (c *Ctx) envVar(st *State, name string) StrV {
	k := "env:" + name
	if v, ok := st.Ghost[k].(StrV); ok {
		return v
	}
	id := Var(c.freshName("env."+name), IntSort)
	st.assume(Cmp(">=", id, IntC(0), true))
	v := c.strOfID(st, id)
	st.Ghost[k] = v
	return v
}

var _ types.Type
