package main

// C19: table evaluation of the JavaScript key callback of the js/wasm screen on the real code.
// (*wScreen).onKeyEvent is evaluated (EV mode, every function inlined) for every KeyboardEvent.key name in
// WebKeyNames, every letter of a "Ctrl-x" entry in both cases, a few printable samples and the modifier
// names, times the 16 modifier combinations; the posted event is compared with an oracle derived by rule
// from the DOM key name (not from the table's values).

import (
	"fmt"
	"go/constant"
	"go/types"
	"math/big"
	"os"
	"path/filepath"
	"regexp"
	"sort"
	"strings"
	"time"
	"unicode"
	"unicode/utf8"

	"golang.org/x/tools/go/ssa"
)

func init() {
	jsGet := func(c *Ctx, args []Value) (Value, bool) {
		if c.JSVals == nil || len(args) == 0 {
			return nil, false
		}
		sv, ok := args[0].(*StructV)
		if !ok {
			return nil, false
		}
		for _, f := range sv.F {
			if t, ok := f.(*Term); ok && isNum(t) {
				v, ok := c.JSVals[t.Val.Int64()]
				return v, ok
			}
		}
		return nil, false
	}
	for _, m := range []string{"String", "Bool", "Int"} {
		intrinsics["(syscall/js.Value)."+m] = func(c *Ctx, st *State, in ssa.Instruction, args []Value) Value {
			if v, ok := jsGet(c, args); ok {
				return v
			}
			return notIntrinsic{}
		}
	}
}

// domKeyConst: the tcell key constant a DOM KeyboardEvent.key name corresponds to, by rule.
func domKeyConst(name string) string {
	if strings.HasPrefix(name, "Ctrl-") {
		r := []rune(name[5:])
		if len(r) != 1 {
			return ""
		}
		switch {
		case r[0] >= 'a' && r[0] <= 'z':
			return "KeyCtrl" + strings.ToUpper(string(r[0]))
		case r[0] == ' ':
			return "KeyCtrlSpace"
		case r[0] == '_':
			return "KeyCtrlUnderscore"
		case r[0] == ']':
			return "KeyCtrlRightSq"
		case r[0] == '\\':
			return "KeyCtrlBackslash"
		case r[0] == '^':
			return "KeyCtrlCarat"
		}
		return ""
	}
	if strings.HasPrefix(name, "Arrow") {
		return "Key" + name[5:]
	}
	if name == "Escape" {
		return "KeyEsc"
	}
	return "Key" + name
}

func c19KeyTable(run *PropRun) {
	e := run.Eng
	ev := e.NewEvaluator(true, "C19.keys")
	c := ev.C
	sp := e.SPkgs[modPath]
	fn := e.FindFunc(modPath + ".(*wScreen).onKeyEvent")
	if fn == nil || sp == nil {
		panic(VerErr{"UNDECIDED: (*wScreen).onKeyEvent not found"})
	}
	scope := e.PkgBy[modPath].Types.Scope()
	constVal := func(name string) (int64, bool) {
		o, ok := scope.Lookup(name).(*types.Const)
		if !ok {
			return 0, false
		}
		v, ok := constant.Int64Val(o.Val())
		return v, ok
	}
	// the table's key set, read from the real initialiser
	st0 := ev.NewState()
	g := sp.Var("WebKeyNames")
	if g == nil {
		panic(VerErr{"UNDECIDED: WebKeyNames not found"})
	}
	mv, _ := c.mem(st0, c.globalObj(st0, g)).(MapV)
	mo := c.mapObj(st0, mv)
	table := map[string]int64{}
	for _, en := range mo.Entries {
		k, ok := en.K.(StrV)
		if !ok || k.Conc == nil {
			panic(VerErr{"UNDECIDED: WebKeyNames has a non-literal key"})
		}
		table[*k.Conc] = termInt(en.V)
	}
	var names []string
	inputs := map[string]bool{}
	for n := range table {
		names = append(names, n)
		if strings.HasPrefix(n, "Ctrl-") {
			x := n[5:]
			inputs[x] = true
			inputs[strings.ToUpper(x)] = true
		} else {
			inputs[n] = true
		}
	}
	sort.Strings(names)
	// oracle for the table values themselves
	for _, n := range names {
		cn := domKeyConst(n)
		want, ok := constVal(cn)
		run.AddObligation(fmt.Sprintf("tcell.WebKeyNames/key[%s]", n), "table", BoolT(ok && want == table[n]),
			fmt.Sprintf("WebKeyNames[%q] == %s", n, cn))
	}
	for _, x := range []string{"Control", "Alt", "Meta", "Shift", "a", "Z", "0", "/", " ", "é", "日", "€", "h", "i", "m", "H"} {
		inputs[x] = true
	}
	var ins []string
	for k := range inputs {
		ins = append(ins, k)
	}
	sort.Strings(ins)
	jsT := fn.Params[1].Type() // js.Value
	argsT := fn.Params[2].Type().(*types.Slice)
	wsT := sp.Type("wScreen").Type()
	modBits := []string{"ModShift", "ModAlt", "ModCtrl", "ModMeta"} // callback argument order: shift, alt, ctrl, meta
	keyRune, _ := constVal("KeyRune")
	modCtrl, _ := constVal("ModCtrl")
	mkJS := func(st *State, ref int64) *StructV {
		zv := c.zeroValue(st, jsT).(*StructV)
		n := &StructV{Typ: zv.Typ, F: append([]Value(nil), zv.F...)}
		stt := under(jsT).(*types.Struct)
		for i := 0; i < stt.NumFields(); i++ {
			if stt.Field(i).Name() == "ref" {
				n.F[i] = NumC(big.NewInt(ref), c.sortOfBasic(stt.Field(i).Type()))
			}
		}
		return n
	}
	evaluated := 0
	for _, key := range ins {
		for m := 0; m < 16; m++ {
			st := ev.NewState()
			c.JSVals = map[int64]Value{100: conc(key)}
			var wantMod int64
			for b := 0; b < 4; b++ {
				on := m&(1<<b) != 0
				c.JSVals[int64(101+b)] = BoolT(on)
				if on {
					v, _ := constVal(modBits[b])
					wantMod |= v
				}
			}
			av := &ArrayV{Elem: argsT.Elem()}
			for i := 0; i < 5; i++ {
				av.Elems = append(av.Elems, mkJS(st, int64(100+i)))
			}
			ao := c.newObject("jsargs", types.NewArray(argsT.Elem(), 5))
			st.Mem[ao] = av
			wobj := c.newObject("wscreen", wsT)
			st.Mem[wobj] = c.zeroValue(st, wsT)
			paths, err := ev.Call(st, fn, []Value{PtrV{Obj: wobj}, mkJS(st, 99), SliceV{Elem: argsT.Elem(), Obj: ao, CLen: 5, CCap: 5}})
			c.JSVals = nil
			name := fmt.Sprintf("tcell.(*wScreen).onKeyEvent/key[%s]/mods[%d]", key, m)
			if err != nil {
				panic(VerErr{"evaluating onKeyEvent(" + key + "): " + err.Error()})
			}
			evaluated++
			// expected
			isModKey := key == "Control" || key == "Alt" || key == "Meta" || key == "Shift"
			wantKey, wantCh := int64(-1), int64(0)
			wm := wantMod
			switch {
			case isModKey:
			case wantMod == modCtrl && domKeyConst("Ctrl-"+strings.ToLower(key)) != "" && hasKey(table, "Ctrl-"+strings.ToLower(key)):
				wantKey, _ = constVal(domKeyConst("Ctrl-" + strings.ToLower(key)))
			case hasKey(table, key):
				wantKey, _ = constVal(domKeyConst(key))
			default:
				r, _ := utf8.DecodeRuneInString(key)
				wantKey, wantCh = keyRune, int64(r)
				if r < ' ' || r == 0x7f {
					wantKey = int64(r)
					if wantMod == 0 && r < ' ' && r != 8 && r != 9 && r != 13 && r != 27 {
						wm = modCtrl
					}
				}
			}
			okAll := true
			why := ""
			sends := 0
			for _, p := range paths {
				var sent []CallRec
				for _, r := range p.St.CallLog {
					if r.Callee == "send:evch" || r.Callee == "selsend:evch" {
						sent = append(sent, r)
					}
				}
				if isModKey {
					if len(sent) != 0 {
						okAll, why = false, "a modifier key alone produced an event"
					}
					continue
				}
				if len(sent) == 0 {
					okAll, why = false, "a path posts no event"
					continue
				}
				sends++
				if len(sent) != 1 {
					okAll, why = false, "more than one event posted"
					continue
				}
				iv, _ := sent[0].Args[0].(IfaceV)
				pv, _ := iv.Val.(PtrV)
				if pv.Obj == nil {
					okAll, why = false, "posted value is not an event pointer"
					continue
				}
				es, _ := c.mem(p.St, pv.Obj).(*StructV)
				if es == nil {
					okAll, why = false, "posted value is not an event"
					continue
				}
				est := under(es.Typ).(*types.Struct)
				var gk, gm, gc int64 = -2, -2, -2
				for i := 0; i < est.NumFields(); i++ {
					switch est.Field(i).Name() {
					case "key":
						gk = termInt(es.F[i])
					case "mod":
						gm = termInt(es.F[i])
					case "ch":
						gc = termInt(es.F[i])
					}
				}
				if gk != wantKey || gm != wm || gc != wantCh {
					okAll = false
					why = fmt.Sprintf("posted key=%d ch=%d mod=%d, want key=%d ch=%d mod=%d", gk, gc, gm, wantKey, wantCh, wm)
				}
			}
			if !isModKey && sends == 0 {
				okAll, why = false, "no path posts an event"
			}
			gname := name
			g := run.AddObligation(gname, "table", BoolT(okAll), fmt.Sprintf("onKeyEvent(%q, mods %04b) posts the event the DOM key name stands for %s", key, m, why))
			g.ReplayGo = c19KeyReplay(key, m, isModKey, wantKey, wantCh, wm)
		}
	}
	run.Extra["key_callbacks_evaluated_on_real_code"] = evaluated
	for k := range c.Assumed {
		run.Assumed[k] = true
	}
}

func hasKey(m map[string]int64, k string) bool { _, ok := m[k]; return ok }

var _ = unicode.IsUpper

// c19KeyReplay: the same callback under node with real js values.
func c19KeyReplay(key string, m int, isModKey bool, wantKey, wantCh, wantMod int64) string {
	b := func(i int) string { return fmt.Sprint(m&(1<<i) != 0) }
	return replayTest("tcell", []string{"syscall/js"}, wasmStubs+fmt.Sprintf(`
	s := &wScreen{}
	s.fallback = make(map[rune]string)
	s.Init()
	s.onKeyEvent(js.Undefined(), []js.Value{js.ValueOf(%q), js.ValueOf(%s), js.ValueOf(%s), js.ValueOf(%s), js.ValueOf(%s)})
	select {
	case ev := <-s.evch:
		if %v {
			fail("a modifier key alone produced an event")
			return
		}
		ek, ok := ev.(*EventKey)
		if !ok {
			fail("posted %%T", ev)
			return
		}
		if int64(ek.Key()) != %d || int64(ek.Rune()) != %d || int64(ek.Modifiers()) != %d {
			fail("onKeyEvent(%%q, mods %04b) posted key=%%d rune=%%d mod=%%d, want key=%d rune=%d mod=%d", %q, ek.Key(), ek.Rune(), ek.Modifiers())
			return
		}
	default:
		if !%v {
			fail("no event posted for key %%q", %q)
			return
		}
	}`, key, b(0), b(1), b(2), b(3), isModKey, wantKey, wantCh, wantMod, m, wantKey, wantCh, wantMod, key, isModKey, key))
}

// c19InitHandlers: webfiles/tcell.js calls a fixed set of Go handlers (onKeyEvent, onMouseClick, onMouseMove, onFocus,
// onPaste) from its DOM listeners, unconditionally. Each of them has to exist from Init on - a listener that calls an
// undefined global throws, and what it was about to deliver (the pasted characters, which arrive as key callbacks
// between onPaste(true) and onPaste(false)) is lost. Scan of the SSA of (*wScreen).Init for js.Global().Set(<constant name>, ..).
func c19InitHandlers(run *PropRun) {
	e := run.Eng
	data, err := os.ReadFile(filepath.Join(e.Repo, "webfiles", "tcell.js"))
	if err != nil {
		run.Errors = append(run.Errors, "cannot read webfiles/tcell.js: "+err.Error())
		return
	}
	want := map[string]bool{}
	for _, m := range regexp.MustCompile(`\b(on[A-Z][A-Za-z]*)\(`).FindAllStringSubmatch(string(data), -1) {
		want[m[1]] = true
	}
	fn := e.FindFunc(modPath + ".(*wScreen).Init")
	if fn == nil {
		run.Errors = append(run.Errors, "(*wScreen).Init not found")
		return
	}
	set := map[string]bool{}
	for _, b := range fn.Blocks {
		for _, in := range b.Instrs {
			c, ok := in.(*ssa.Call)
			if !ok {
				continue
			}
			callee := c.Common().StaticCallee()
			if callee == nil || callee.Name() != "Set" || callee.Pkg == nil || callee.Pkg.Pkg.Path() != "syscall/js" {
				continue
			}
			if len(c.Common().Args) >= 2 {
				if k, isC := c.Common().Args[1].(*ssa.Const); isC && k.Value != nil {
					set[constant.StringVal(k.Value)] = true
				}
			}
		}
	}
	var names []string
	for n := range want {
		names = append(names, n)
	}
	sort.Strings(names)
	for _, n := range names {
		g := run.AddObligation(fmt.Sprintf("wScreen.(*wScreen).Init/defines-handler[%s]", n), "discipline", BoolT(set[n]),
			fmt.Sprintf("webfiles/tcell.js calls %s() from a DOM listener: Init defines that global (to the handler or the no-op), otherwise the listener throws and what it was delivering is lost", n))
		g.Pos = e.posStr(fn.Pos())
		g.ReplayGo = replayTest("tcell", []string{"syscall/js"}, wasmStubs+fmt.Sprintf(`
	js.Global().Delete(%q)
	s := &wScreen{}
	s.fallback = make(map[rune]string)
	s.Init()
	if ty := js.Global().Get(%q).Type(); ty != js.TypeFunction {
		fail("after Init the global %s is %%v, not a function: the page's listener calls it unconditionally and throws", ty)
		return
	}`, n, n, n))
	}
	run.AddObligation("wScreen/page-handlers-found", "discipline", BoolT(len(names) >= 4), "the handler names the page script calls were found in webfiles/tcell.js")
	run.Extra["page_handlers_called_by_tcell_js"] = len(names)
}

// c19MouseModes: demonstration-backed obligation for the flag semantics the enableMouse contract states: each of
// MouseButtonEvents, MouseDragEvents ("includes button events") and MouseMotionEvents ("includes click and drag
// events") makes a click callback an event; with no flag it is dropped. Runs the real wasm screen under node.
func c19MouseModes(run *PropRun) {
	src := replayTest("tcell", []string{"syscall/js"}, wasmStubs+`
	for _, f := range []MouseFlags{0, MouseButtonEvents, MouseDragEvents, MouseMotionEvents} {
		s := &wScreen{}
		s.fallback = make(map[rune]string)
		s.Init()
		if f != 0 { s.EnableMouse(f) }
		js.Global().Call("onMouseClick", 3, 2, 1, false, false, false)
		got := len(s.evch)
		want := 1
		if f == 0 { want = 0 }
		if got != want {
			fail("EnableMouse(%d), then a click callback from the page: %d event(s) queued, want %d", f, got, want)
			return
		}
	}`)
	out, err := runOverlayTest(run.Eng.Repo, run.Eng.Repo, src, 120*time.Second, []string{"GOOS=js", "GOARCH=wasm"})
	detail := ""
	ok := false
	switch {
	case strings.Contains(out, "VERIF-REPLAY-FAIL"):
		detail = firstLine(out[strings.Index(out, "VERIF-REPLAY-FAIL"):])
	case strings.Contains(out, "VERIF-REPLAY-PASS"):
		ok = true
	default:
		run.Errors = append(run.Errors, fmt.Sprintf("mouse mode demonstration did not run: %v %s", err, tail(out, 400)))
		return
	}
	g := run.AddObligation("wScreen.enableMouse/click-delivered-in-every-mouse-mode", "bounded", BoolT(ok),
		"under node: after EnableMouse(f) for each single flag a click callback from the page queues one mouse event, without a flag none "+detail)
	g.ReplayGo = src
}
