package main

// Calls: by contract (assert pre / havoc frame / assume post), by inlining, or by intrinsic model.

import (
	"fmt"
	"go/token"
	"go/types"
	"math/big"
	"strings"

	"golang.org/x/tools/go/ssa"
)

type ChanObj struct {
	Cap    *Term
	Closed *Term
	Tag    string
}

func (c *Ctx) mkDeferred(st *State, d *ssa.Defer) deferred {
	cc := d.Common()
	df := deferred{Call: d}
	if cc.IsInvoke() {
		df.Fn = c.val(st, cc.Value)
	} else {
		df.Fn = c.val(st, cc.Value)
	}
	for _, a := range cc.Args {
		df.Args = append(df.Args, c.val(st, a))
	}
	return df
}

func (c *Ctx) ghostSpawn(st *State, g *ssa.Go) {
	cc := g.Common()
	name := "?"
	if f := cc.StaticCallee(); f != nil {
		name = fnDisplay(f)
	}
	var args []Value
	for _, a := range cc.Args {
		args = append(args, c.val(st, a))
	}
	st.CallLog = append(st.CallLog, CallRec{Callee: "go:" + name, Args: args})
	c.Assumed["goroutine creation is a ghost event: bodies of spawned goroutines are not interleaved"] = true
}

// doReturn pops the frame.
func (c *Ctx) doReturn(st *State, ret Value, onReturn func(*State, Value)) bool {
	fr := st.top()
	if len(st.Frames) == 1 {
		onReturn(st, ret)
		c.EndedPaths++
		return true
	}
	st.Frames = st.Frames[:len(st.Frames)-1]
	// drop loop records belonging to the popped frame
	for len(st.Loops) > 0 && st.Loops[len(st.Loops)-1].Frame > len(st.Frames) {
		st.Loops = st.Loops[:len(st.Loops)-1]
		st.Record = st.Record[:len(st.Record)-1]
	}
	caller := st.top()
	if fr.CallInst != nil {
		if v, ok := fr.CallInst.(*ssa.Call); ok {
			caller.Env[v] = ret
		}
	}
	return false
}

func (c *Ctx) runDefers(st *State, onReturn func(*State, Value)) ([]*State, bool) {
	fr := st.top()
	if len(fr.Defers) == 0 {
		return nil, false
	}
	// run last deferred; re-execute RunDefers afterwards (PC is rewound)
	d := fr.Defers[len(fr.Defers)-1]
	fr.Defers = fr.Defers[:len(fr.Defers)-1]
	fr.PC-- // come back to RunDefers
	return c.invoke(st, d.Call, d.Call.Common(), d.Fn, d.Args, nil, onReturn)
}

func (c *Ctx) doCall(st *State, in ssa.Instruction, cc *ssa.CallCommon, res *ssa.Call, onReturn func(*State, Value)) ([]*State, bool) {
	var fnv Value
	var args []Value
	fnv = c.val(st, cc.Value)
	for _, a := range cc.Args {
		args = append(args, c.val(st, a))
	}
	return c.invoke(st, in, cc, fnv, args, res, onReturn)
}

// invoke performs a call. res is the SSA value receiving the result (nil for defer/go).
func (c *Ctx) invoke(st *State, in ssa.Instruction, cc *ssa.CallCommon, fnv Value, args []Value, res *ssa.Call, onReturn func(*State, Value)) ([]*State, bool) {
	fr := st.top()
	setRes := func(v Value) {
		if res != nil {
			fr.Env[res] = v
		}
	}
	var callee *ssa.Function
	if cc.IsInvoke() {
		// interface method call
		iv, ok := fnv.(IfaceV)
		if !ok {
			unsupported("invoke on %T", fnv)
		}
		if iv.Nil {
			c.safety(st, in, "nil-deref", False())
			return nil, true
		}
		if iv.Dyn != nil {
			ms := c.Eng.Prog.MethodSets.MethodSet(iv.Dyn)
			sel := ms.Lookup(cc.Method.Pkg(), cc.Method.Name())
			if sel == nil {
				unsupported("method %s not found on %s", cc.Method.Name(), iv.Dyn)
			}
			callee = c.Eng.Prog.MethodValue(sel)
			args = append([]Value{iv.Val}, args...)
		} else {
			if c.assumedNonNilIface(cc) {
				st.assume(Not(Eq(iv.Sym, IntC(0))))
			} else {
				c.safety(st, in, "nil-deref", Not(Eq(iv.Sym, IntC(0))))
			}
			// abstract interface method: needs an assumed contract keyed by interface type + method
			key := ifaceMethodKey(cc)
			sp := c.Eng.Specs.Funcs[key]
			if sp == nil {
				unsupported("call of interface method %s without assumed contract", key)
			}
			names := []string{"recv"}
			sig := cc.Method.Type().(*types.Signature)
			for i := 0; i < sig.Params().Len(); i++ {
				names = append(names, sig.Params().At(i).Name())
			}
			r := c.callByContract(st, in, sp, key, names, append([]Value{iv}, args...), sig, nil)
			setRes(r)
			return nil, false
		}
	} else {
		switch f := fnv.(type) {
		case FuncV:
			if f.Builtin != "" {
				r := c.builtin(st, in, f.Builtin, cc, args)
				setRes(r)
				return nil, false
			}
			if f.Nil {
				c.safety(st, in, "nil-func-call", False())
				return nil, true
			}
			if f.Fn == nil {
				// unknown function value
				key := "func-value"
				if cc.Value != nil {
					key = "funcval:" + cc.Value.Name()
				}
				unsupported("call through unknown function value (%s) in %s", key, fr.Fn)
			}
			callee = f.Fn
			if len(f.Bindings) > 0 {
				// closure: bindings become free vars
				return c.enterFunction(st, in, callee, args, f.Bindings, res)
			}
		default:
			unsupported("call of %T", fnv)
		}
	}
	// intrinsic?
	if r, ok := c.intrinsic(st, in, callee, args); ok {
		setRes(r)
		return nil, false
	}
	key := fullKey(callee)
	sp := c.Eng.Specs.Funcs[key]
	useSpec := sp != nil
	if useSpec && c.wantInline(fr, callee) {
		useSpec = false
	}
	if useSpec {
		var names []string
		for _, p := range callee.Params {
			names = append(names, p.Name())
		}
		r := c.callByContract(st, in, sp, key, names, args, callee.Signature, callee)
		setRes(r)
		return nil, false
	}
	if len(callee.Blocks) == 0 {
		unsupported("call to external function %s without contract or intrinsic", callee.String())
	}
	if callee.Pkg == nil || !c.isRepoPkg(callee.Pkg.Pkg.Path()) {
		if !c.allowExternalInline(callee) {
			unsupported("call to dependency function %s without contract or intrinsic (in %s)", callee.String(), fr.Fn)
		}
	}
	c.Inlined[fnDisplay(callee)] = true
	return c.enterFunction(st, in, callee, args, nil, res)
}

func (c *Ctx) isRepoPkg(path string) bool {
	return strings.HasPrefix(path, "github.com/gdamore/tcell/v2")
}

func (c *Ctx) allowExternalInline(fn *ssa.Function) bool {
	// small, well-understood standard-library code is executed from its own source (go/ssa of the
	// installed toolchain) rather than modelled: bytes.Buffer accessors, unicode/utf8 helpers
	for _, p := range []string{"(*bytes.Buffer).", "bytes.", "unicode/utf8.", "(*strings.Builder).", "io.WriteString"} {
		if strings.HasPrefix(fn.String(), p) {
			c.Assumed["standard-library function executed from source: "+fn.String()] = true
			return true
		}
	}
	if c.Spec != nil {
		if v, ok := c.Spec.Opts["inline-external"]; ok {
			for _, p := range strings.Fields(v) {
				if strings.Contains(fn.String(), p) {
					return true
				}
			}
		}
	}
	return false
}

func (c *Ctx) wantInline(fr *Frame, callee *ssa.Function) bool {
	if c.InlineAll {
		return true
	}
	sp := c.Spec
	if sp == nil {
		return false
	}
	k := funcKey(callee)
	for _, n := range sp.Inline {
		if n == k || n == callee.Name() {
			return true
		}
	}
	return false
}

func ifaceMethodKey(cc *ssa.CallCommon) string {
	t := cc.Value.Type()
	name := ""
	if n, ok := t.(*types.Named); ok {
		if n.Obj().Pkg() != nil {
			name = n.Obj().Pkg().Path() + "."
		}
		name += n.Obj().Name()
	} else {
		name = t.String()
	}
	return name + "." + cc.Method.Name()
}

const maxDepth = 40

func (c *Ctx) enterFunction(st *State, in ssa.Instruction, callee *ssa.Function, args []Value, bindings []Value, res *ssa.Call) ([]*State, bool) {
	if len(st.Frames) > maxDepth {
		panic(VerErr{"recursion depth exceeded inlining " + callee.String() + " (recursive function needs a contract)"})
	}
	if len(callee.Blocks) == 0 {
		unsupported("function %s has no body", callee)
	}
	nf := &Frame{Fn: callee, Env: map[ssa.Value]Value{}, Block: callee.Blocks[0], Depth: len(st.Frames)}
	if ci, ok := in.(ssa.CallInstruction); ok {
		nf.CallInst = ci
	}
	if len(args) != len(callee.Params) {
		panic(VerErr{fmt.Sprintf("arity mismatch calling %s: %d args, %d params", callee, len(args), len(callee.Params))})
	}
	for i, p := range callee.Params {
		nf.Env[p] = args[i]
	}
	for i, fv := range callee.FreeVars {
		nf.Env[fv] = bindings[i]
	}
	nf.Spec = c.Eng.SpecFor(callee)
	st.Frames = append(st.Frames, nf)
	return nil, false
}

// callByContract: assert requires, havoc modifies, assume ensures.  Returns the (symbolic) result.
func (c *Ctx) callByContract(st *State, in ssa.Instruction, sp *FuncSpec, key string, names []string, args []Value, sig *types.Signature, callee *ssa.Function) Value {
	c.UsedSpecs[key] = true
	if sp.Trusted {
		c.Assumed["assumed contract: "+key] = true
	}
	env := &SpecEnv{c: c, st: st, vars: map[string]Value{}, pkg: sp.Pkg}
	for i, n := range names {
		if i < len(args) {
			env.vars[n] = args[i]
		}
	}
	if callee != nil && callee.Signature.Recv() != nil && len(names) > 0 {
		env.vars["recv"] = args[0]
	}
	for _, l := range sp.Lets {
		env.vars[l.Name] = c.evalSpec(env, l.Expr)
	}
	fr := st.top()
	base := fnDisplay(c.Fn)
	if fr.Fn != c.Fn {
		base += "/in:" + fnDisplay(fr.Fn)
	}
	short := key[strings.LastIndex(key, "/")+1:]
	for i, rq := range sp.Requires {
		t := c.evalBool(env, rq.Expr)
		lbl := rq.Label
		if lbl == "" {
			lbl = fmt.Sprint(i + 1)
		}
		nm := fmt.Sprintf("%s/%s/requires(%s)#%s", base, c.instrName(in, "call"), short, lbl)
		c.oblige(st, nm, "callee-requires", t, rq.Src, in.Pos())
		st.assume(t)
	}
	// log the call (ghost); the result is filled in below
	st.CallLog = append(st.CallLog, CallRec{Callee: short, Args: args, Names: names})
	logIdx := len(st.CallLog) - 1
	old := st.snapshot()
	// the callee may allocate: the allocation mark moves (by an unknown amount), so that what it hands back may be a
	// region that did not exist before the call; fresh() in its postconditions is relative to the mark at the call
	callMark := st.Alloc
	if callMark != nil {
		na := Fresh("alloc.call", IntSort)
		st.assume(Cmp(">=", na, st.Alloc, true))
		st.Alloc = na
	}
	// havoc frame
	for _, m := range sp.Modifies {
		c.havocLocation(env, m)
	}
	// results
	var result Value
	rs := sig.Results()
	switch rs.Len() {
	case 0:
	case 1:
		result = c.symbolic(st, rs.At(0).Type(), "ret."+short)
	default:
		tv := &TupleV{}
		for i := 0; i < rs.Len(); i++ {
			tv.V = append(tv.V, c.symbolic(st, rs.At(i).Type(), fmt.Sprintf("ret%d.%s", i, short)))
		}
		result = tv
	}
	st.CallLog[logIdx].Ret = result
	env2 := &SpecEnv{c: c, st: st, vars: env.vars, old: old, result: result, hasResult: true, pkg: sp.Pkg, sig: sig, allocMark: callMark}
	for i := 0; i < rs.Len(); i++ {
		if n := rs.At(i).Name(); n != "" && n != "_" {
			if rs.Len() == 1 {
				env2.vars[n] = result
			} else {
				env2.vars[n] = result.(*TupleV).V[i]
			}
		}
	}
	for _, g := range sp.Ghost {
		if g.At == "exit" {
			c.ghostAssign(env2, g)
		}
	}
	internalGhost := map[string]bool{}
	for _, g := range sp.Ghost {
		if g.At != "exit" {
			internalGhost[g.Name] = true
		}
	}
	for _, g := range sp.Ghost {
		if g.At == "exit" {
			delete(internalGhost, g.Name)
		}
	}
	for _, en := range sp.Ensures {
		if mentionsCallLog(en.Expr) {
			continue // a clause about the callee's own ghost call log says nothing in the caller's state
		}
		if len(internalGhost) > 0 && mentionsIdent(en.Expr, internalGhost) {
			continue // a clause over ghost variables internal to the callee's proof (not exported at exit)
		}
		if t, ok := c.tryEvalBool(env2, en.Expr); ok {
			st.assume(t)
		} else {
			c.Assumed["postcondition of "+short+" not usable in this arithmetic mode (skipped, weaker assumption): "+en.Src] = true
		}
	}
	for _, en := range sp.Assumes {
		if t, ok := c.tryEvalBool(env2, en.Expr); ok {
			st.assume(t)
			c.Assumed["assumed (unverified) postcondition of "+short+": "+en.Src] = true
		}
	}
	if sp.Pure {
		// a pure function is a mathematical function of its scalar arguments
		var ts []*Term
		ok := true
		for _, a := range args {
			at, isT := pureArgTerms(a)
			if !isT {
				ok = false
				break
			}
			ts = append(ts, at...)
		}
		if ok {
			for i := 0; i < rs.Len(); i++ {
				var rv Value = result
				if rs.Len() > 1 {
					rv = result.(*TupleV).V[i]
				}
				if rt, isT := rv.(*Term); isT {
					st.assume(Eq(rt, c.pureApp(key, sig, i, ts)))
				}
			}
		}
	}
	return result
}

// pureArgTerms flattens an argument of a pure function to its scalar leaves (a struct contributes its
// scalar fields and symbolic pointer identities; anything else makes the call non-functional).
func pureArgTerms(v Value) ([]*Term, bool) {
	switch x := v.(type) {
	case *Term:
		return []*Term{x}, true
	case *StructV:
		var out []*Term
		for _, f := range x.F {
			ts, ok := pureArgTerms(f)
			if !ok {
				return nil, false
			}
			out = append(out, ts...)
		}
		return out, true
	case StructV:
		return pureArgTerms(&x)
	case *ArrayV:
		var out []*Term
		for _, f := range x.Elems {
			ts, ok := pureArgTerms(f)
			if !ok {
				return nil, false
			}
			out = append(out, ts...)
		}
		return out, true
	case PtrV:
		if x.Nil {
			return []*Term{IntC(0)}, true
		}
		if x.Sym != nil {
			return []*Term{x.Sym}, true
		}
		return nil, false
	case FuncV:
		return nil, true // function-typed padding fields carry no data
	}
	return nil, false
}

func (c *Ctx) pureApp(key string, sig *types.Signature, i int, ts []*Term) *Term {
	rt := sig.Results().At(i).Type()
	mode := "int"
	if c.BV {
		mode = "bv"
	}
	return App(fmt.Sprintf("pure.%s#%d.%s", key[strings.LastIndex(key, "/")+1:], i, mode), c.sortOfBasic(rt), ts...)
}

// ---- builtins ----

func (c *Ctx) builtin(st *State, in ssa.Instruction, name string, cc *ssa.CallCommon, args []Value) Value {
	switch name {
	case "len":
		switch x := args[0].(type) {
		case StrV:
			return c.strLen(st, x)
		case SliceV:
			return c.sliceLen(x)
		case MapV:
			return c.mapLen(st, x)
		case *ArrayV:
			return c.idx(int64(len(x.Elems)))
		case PtrV:
			at := under(cc.Args[0].Type().(*types.Pointer).Elem()).(*types.Array)
			return c.idx(at.Len())
		case ChanV:
			return c.chanLen(st, x)
		}
	case "cap":
		switch x := args[0].(type) {
		case SliceV:
			return c.sliceCap(x)
		case ChanV:
			return c.chanCap(st, x)
		}
	case "append":
		return c.appendOp(st, in, args[0].(SliceV), args[1], cc.Args[0].Type())
	case "copy":
		return c.copyOp(st, in, args[0].(SliceV), args[1])
	case "delete":
		c.mapDelete(st, in, args[0].(MapV), args[1])
		return nil
	case "close":
		c.chanClose(st, in, args[0].(ChanV))
		return nil
	case "min", "max":
		r := args[0].(*Term)
		signed := !isUnsigned(cc.Args[0].Type())
		for _, a := range args[1:] {
			t := a.(*Term)
			if name == "min" {
				r = Ite(Cmp("<", t, r, signed), t, r)
			} else {
				r = Ite(Cmp(">", t, r, signed), t, r)
			}
		}
		return r
	case "recover":
		return IfaceV{Nil: true}
	case "print", "println":
		return nil
	case "ssa:wrapnilchk":
		return args[0]
	}
	unsupported("builtin %s on %T", name, args[0])
	return nil
}

func (c *Ctx) appendOp(st *State, in ssa.Instruction, s SliceV, more Value, st0 types.Type) Value {
	elem := under(st0).(*types.Slice).Elem()
	s.Elem = elem
	// append([]byte, string...)
	if str, ok := more.(StrV); ok {
		more = c.stringToSlice(st, str, elem)
	}
	m := more.(SliceV)
	m.Elem = elem
	if !s.Heap && !m.Heap {
		// concrete append: always reallocate when capacity is insufficient, else write in place (Go semantics)
		n := m.CLen
		if m.Obj == nil {
			n = 0
		}
		if n == 0 {
			return s
		}
		if s.Obj != nil && s.CLen+n <= s.CCap {
			av := c.mem(st, s.Obj).(*ArrayV)
			nav := &ArrayV{Elem: av.Elem, Elems: append([]Value(nil), av.Elems...)}
			src := c.mem(st, m.Obj).(*ArrayV)
			for i := 0; i < n; i++ {
				nav.Elems[s.COff+s.CLen+i] = src.Elems[m.COff+i]
			}
			c.noteObjWrite(st, s.Obj, nil)
			st.Mem[s.Obj] = nav
			return SliceV{Elem: elem, Obj: s.Obj, COff: s.COff, CLen: s.CLen + n, CCap: s.CCap}
		}
		var elems []Value
		if s.Obj != nil {
			av := c.mem(st, s.Obj).(*ArrayV)
			elems = append(elems, av.Elems[s.COff:s.COff+s.CLen]...)
		}
		src := c.mem(st, m.Obj).(*ArrayV)
		elems = append(elems, src.Elems[m.COff:m.COff+n]...)
		ncap := len(elems) * 2
		zv := c.zeroValue(st, elem)
		for len(elems) < ncap {
			elems = append(elems, zv)
		}
		o := c.newObject("append", types.NewArray(elem, int64(ncap)))
		st.Mem[o] = &ArrayV{Elem: elem, Elems: elems}
		return SliceV{Elem: elem, Obj: o, CLen: s.CLen + n, CCap: ncap}
	}
	// symbolic append: model as always reallocating into a fresh array (sound for code that only
	// uses the result; aliasing with spare capacity of the old array is not modelled) unless src is empty
	// append(s, x) with s at offset 0: the new array is the old one with x stored at index len(s)
	if s.Heap && !m.Heap && m.Obj != nil && m.CLen == 1 && isNum(s.Off) && s.Off.Val.Sign() == 0 {
		c.Assumed["append on symbolic slices modelled as reallocating (writes into spare capacity of the old backing array are not tracked)"] = true
		ref := c.allocRef(st)
		x := c.mem(st, m.Obj).(*ArrayV).Elems[m.COff]
		for _, lf := range c.leavesOf(elem) {
			h := c.heapArr(st, lf)
			st.Heap[lf.Key] = Store(h, ref, Select(h, s.Ref))
		}
		c.heapWrite(st, elem, ref, s.Len, nil, x)
		newLen := Arith("+", s.Len, c.idx(1))
		capT := Fresh("append.cap", c.IntSort())
		st.assume(Cmp(">=", capT, newLen, true))
		return SliceV{Elem: elem, Heap: true, Ref: ref, Off: c.idx(0), Len: newLen, Cap: capT}
	}
	hs := c.toHeapSlice(st, s, elem)
	hm := c.toHeapSlice(st, m, elem)
	c.Assumed["append on symbolic slices modelled as reallocating (writes into spare capacity of the old backing array are not tracked)"] = true
	ref := c.allocRef(st)
	newLen := Arith("+", hs.Len, hm.Len)
	for _, lf := range c.leavesOf(elem) {
		h := c.heapArr(st, lf)
		fresh := Fresh("append."+lf.Key, ArraySort(c.IntSort(), lf.Sort))
		k := BoundVar("k", c.IntSort())
		oldA := Select(h, hs.Ref)
		srcA := Select(h, hm.Ref)
		body := And(
			Implies(And(Cmp("<=", c.idx(0), k, true), Cmp("<", k, hs.Len, true)), Eq(Select(fresh, k), Select(oldA, Arith("+", hs.Off, k)))),
			Implies(And(Cmp("<=", hs.Len, k, true), Cmp("<", k, newLen, true)), Eq(Select(fresh, k), Select(srcA, Arith("+", hm.Off, Arith("-", k, hs.Len))))))
		st.assume(Forall([]*Term{k}, body))
		st.Heap[lf.Key] = Store(h, ref, fresh)
	}
	capT := Fresh("append.cap", c.IntSort())
	st.assume(Cmp(">=", capT, newLen, true))
	// appending nothing returns the slice itself (a nil slice stays nil)
	if isNum(hm.Len) && hm.Len.Val.Sign() != 0 {
		return SliceV{Elem: elem, Heap: true, Ref: ref, Off: c.idx(0), Len: newLen, Cap: capT}
	}
	none := Eq(hm.Len, c.idx(0))
	return SliceV{Elem: elem, Heap: true, Ref: Ite(none, hs.Ref, ref), Off: Ite(none, hs.Off, c.idx(0)), Len: newLen, Cap: Ite(none, hs.Cap, capT)}
}

func (c *Ctx) copyOp(st *State, in ssa.Instruction, dst SliceV, srcv Value) Value {
	if str, ok := srcv.(StrV); ok {
		srcv = c.stringToSlice(st, str, dst.Elem)
	}
	src := srcv.(SliceV)
	if !dst.Heap && !src.Heap {
		n := dst.CLen
		if src.CLen < n {
			n = src.CLen
		}
		if n > 0 {
			dav := c.mem(st, dst.Obj).(*ArrayV)
			sav := c.mem(st, src.Obj).(*ArrayV)
			nav := &ArrayV{Elem: dav.Elem, Elems: append([]Value(nil), dav.Elems...)}
			tmp := append([]Value(nil), sav.Elems[src.COff:src.COff+n]...)
			for i := 0; i < n; i++ {
				nav.Elems[dst.COff+i] = tmp[i]
			}
			c.noteObjWrite(st, dst.Obj, nil)
			st.Mem[dst.Obj] = nav
		}
		return c.idx(int64(n))
	}
	hd := c.toHeapSlice(st, dst, dst.Elem)
	hs := c.toHeapSlice(st, src, dst.Elem)
	n := Ite(Cmp("<", hd.Len, hs.Len, true), hd.Len, hs.Len)
	for _, lf := range c.leavesOf(dst.Elem) {
		h := c.heapArr(st, lf)
		c.noteHeapWrite(st, lf, hd.Ref)
		fresh := Fresh("copy."+lf.Key, ArraySort(c.IntSort(), lf.Sort))
		k := BoundVar("k", c.IntSort())
		oldD := Select(h, hd.Ref)
		srcA := Select(h, hs.Ref)
		inR := And(Cmp("<=", hd.Off, k, true), Cmp("<", k, Arith("+", hd.Off, n), true))
		st.assume(Forall([]*Term{k}, And(
			Implies(inR, Eq(Select(fresh, k), Select(srcA, Arith("+", hs.Off, Arith("-", k, hd.Off))))),
			Implies(Not(inR), Eq(Select(fresh, k), Select(oldD, k))))))
		st.Heap[lf.Key] = Store(h, hd.Ref, fresh)
	}
	return n
}

// ---- type assertions ----

func (c *Ctx) typeAssert(st *State, x *ssa.TypeAssert) ([]*State, bool) {
	fr := st.top()
	v := c.val(st, x.X)
	iv, ok := v.(IfaceV)
	if !ok {
		unsupported("type assert on %T", v)
	}
	_, toIface := under(x.AssertedType).(*types.Interface)
	if iv.Nil || iv.Dyn != nil {
		okv := false
		var out Value
		if !iv.Nil {
			if toIface {
				okv = types.Implements(iv.Dyn, under(x.AssertedType).(*types.Interface))
				out = iv
			} else {
				okv = types.Identical(iv.Dyn, x.AssertedType)
				out = iv.Val
			}
		}
		if x.CommaOk {
			if !okv {
				out = c.zeroValue(st, x.AssertedType)
			}
			fr.Env[x] = &TupleV{V: []Value{out, BoolT(okv)}}
			return nil, false
		}
		if !okv {
			c.safety(st, x, "type-assertion", False())
			return nil, true
		}
		fr.Env[x] = out
		return nil, false
	}
	// unknown dynamic type: the outcome is a fresh boolean (uninterpreted on the identity)
	tag := "dyn_is_" + sanitize(typeKey(x.AssertedType))
	okT := App(tag, BoolSort, iv.Sym)
	var out Value
	if toIface {
		out = iv
	} else {
		out = c.symbolic(st, x.AssertedType, "assert."+sanitize(typeKey(x.AssertedType)))
	}
	if x.CommaOk {
		// value is only meaningful when ok
		fr.Env[x] = &TupleV{V: []Value{out, And(okT, Not(Eq(iv.Sym, IntC(0))))}}
		return nil, false
	}
	c.safety(st, x, "type-assertion", And(okT, Not(Eq(iv.Sym, IntC(0)))))
	fr.Env[x] = out
	return nil, false
}

// ---- maps ----

func (c *Ctx) mapObj(st *State, m MapV) *MapObj {
	if m.Nil || m.Obj == nil {
		return &MapObj{}
	}
	return c.mem(st, m.Obj).(*MapObj)
}

func (c *Ctx) keyEq(st *State, a, b Value) *Term { return c.valueEq(st, a, b) }

func (c *Ctx) absKeyTerm(st *State, k Value) *Term {
	switch x := k.(type) {
	case *Term:
		return x
	}
	return nil
}

func (c *Ctx) lookup(st *State, x *ssa.Lookup) Value {
	base := c.val(st, x.X)
	if s, ok := base.(StrV); ok {
		idx := c.toIdx(c.val(st, x.Index).(*Term), x.Index.Type())
		c.boundsCheck(st, x, idx, c.strLen(st, s))
		return c.strAt(st, s, idx)
	}
	m := base.(MapV)
	key := c.val(st, x.Index)
	mt := under(x.X.Type()).(*types.Map)
	val, present := c.mapGet(st, m, key, mt)
	if x.CommaOk {
		return &TupleV{V: []Value{val, present}}
	}
	return val
}

func (c *Ctx) mapGet(st *State, m MapV, key Value, mt *types.Map) (Value, *Term) {
	mo := c.mapObj(st, m)
	zero := c.zeroValue(st, mt.Elem())
	var val Value = zero
	present := False()
	if mo.Abstract {
		kt := c.absKeyTerm(st, key)
		if kt == nil {
			// string-keyed abstract map: uninterpreted per-map lookups keyed by fresh symbols are not modelled
			unsupported("lookup in abstract map %s with non-scalar key (entries %d)", mo.Tag, len(mo.Entries))
		}
		present = App("mapHas."+mo.Tag, BoolSort, kt)
		v := c.absMapValue(st, mo, kt, mt.Elem())
		val = c.valueIte(present, v, zero)
	}
	// later entries override earlier ones
	for _, e := range mo.Entries {
		eq := c.keyEq(st, e.K, key)
		if eq.IsFalse() {
			continue
		}
		if e.V == nil { // tombstone
			present = And(present, Not(eq))
			val = c.valueIte(eq, zero, val)
			continue
		}
		val = c.valueIte(eq, e.V, val)
		present = Or(eq, present)
	}
	return val, present
}

func (c *Ctx) absMapValue(st *State, mo *MapObj, kt *Term, et types.Type) Value {
	switch u := under(et).(type) {
	case *types.Basic:
		if !isString(et) {
			v := App("mapVal."+mo.Tag, c.sortOfBasic(et), kt)
			st.assume(c.rangeFact(v, et))
			return v
		}
		id := App("mapVal."+mo.Tag, IntSort, kt)
		st.assume(Cmp(">=", id, IntC(0), true))
		return c.strOfID(st, id)
	case *types.Pointer:
		s := App("mapVal."+mo.Tag, IntSort, kt)
		return PtrV{Sym: s, Typ: u.Elem()}
	}
	unsupported("abstract map value of type %s", et)
	return nil
}

func (c *Ctx) mapUpdate(st *State, in ssa.Instruction, mv Value, key, val Value) {
	m := mv.(MapV)
	if m.Nil || m.Obj == nil {
		c.safety(st, in, "nil-map-write", False())
		panic(pathDead{})
	}
	mo := c.mem(st, m.Obj).(*MapObj)
	n := &MapObj{Entries: append([]MapEntry(nil), mo.Entries...), Abstract: mo.Abstract, Tag: mo.Tag, AbsPresent: mo.AbsPresent}
	// replace syntactically identical concrete key
	replaced := false
	for i, e := range n.Entries {
		if c.keyEq(st, e.K, key).IsTrue() {
			n.Entries = append(n.Entries[:i:i], n.Entries[i+1:]...)
			n.Entries = append(n.Entries, MapEntry{key, val})
			replaced = true
			break
		}
	}
	if !replaced {
		n.Entries = append(n.Entries, MapEntry{key, val})
	}
	c.noteObjWrite(st, m.Obj, nil)
	st.Mem[m.Obj] = n
}

func (c *Ctx) mapDelete(st *State, in ssa.Instruction, m MapV, key Value) {
	if m.Nil || m.Obj == nil {
		return
	}
	mo := c.mem(st, m.Obj).(*MapObj)
	n := &MapObj{Abstract: mo.Abstract, Tag: mo.Tag}
	for _, e := range mo.Entries {
		if c.keyEq(st, e.K, key).IsTrue() {
			continue
		}
		n.Entries = append(n.Entries, e)
	}
	n.Entries = append(n.Entries, MapEntry{key, nil})
	c.noteObjWrite(st, m.Obj, nil)
	st.Mem[m.Obj] = n
}

func (c *Ctx) mapLen(st *State, m MapV) *Term {
	mo := c.mapObj(st, m)
	if mo.Abstract {
		l := App("mapLen."+mo.Tag, c.IntSort())
		st.assume(Cmp(">=", l, c.idx(0), true))
		if len(mo.Entries) == 0 {
			return l
		}
		unsupported("len of abstract map with updates")
	}
	// concrete distinct keys only
	n := 0
	for _, e := range mo.Entries {
		if e.V == nil {
			unsupported("len of map with deletions")
		}
		n++
	}
	for i := range mo.Entries {
		for j := i + 1; j < len(mo.Entries); j++ {
			if !c.keyEq(st, mo.Entries[i].K, mo.Entries[j].K).IsFalse() {
				unsupported("len of map with possibly equal symbolic keys")
			}
		}
	}
	return c.idx(int64(n))
}

// ---- range ----

type RangeIter struct {
	Str   *StrV
	Map   *MapObj
	Pos   int
	MapT  *types.Map
	Order []int
	Abs   *MapObj // abstract (symbolic) map: every Next yields an arbitrary entry (only inside cut loops)
}

func (c *Ctx) rangeInit(st *State, x *ssa.Range) Value {
	v := c.val(st, x.X)
	switch b := v.(type) {
	case StrV:
		if b.Conc == nil {
			unsupported("range over symbolic string")
		}
		return &RangeIter{Str: &b}
	case MapV:
		mo := c.mapObj(st, b)
		if mo.Abstract {
			if len(mo.Entries) > 0 {
				unsupported("range over an abstract map with concrete updates")
			}
			c.Assumed["range over a symbolic map: every iteration sees an arbitrary (key, value) pair - an over-approximation of the real iteration; termination of such loops is not proved"] = true
			return &RangeIter{Abs: mo, MapT: under(x.X.Type()).(*types.Map)}
		}
		c.Assumed["range over a concrete map evaluated in insertion order and in reverse insertion order (other orders not evaluated)"] = true
		if c.MapReverse {
			rev := &MapObj{}
			for i := len(mo.Entries) - 1; i >= 0; i-- {
				rev.Entries = append(rev.Entries, mo.Entries[i])
			}
			mo = rev
		}
		return &RangeIter{Map: mo, MapT: under(x.X.Type()).(*types.Map)}
	}
	unsupported("range over %T", v)
	return nil
}

func (c *Ctx) rangeNext(st *State, x *ssa.Next) ([]*State, bool) {
	fr := st.top()
	it := c.val(st, x.Iter).(*RangeIter)
	if it.Str != nil {
		s := *it.Str.Conc
		if it.Pos >= len(s) {
			fr.Env[x] = &TupleV{V: []Value{False(), c.idx(0), c.intC(0, types.Typ[types.Int32])}}
			return nil, false
		}
		r, sz := decodeRune(s[it.Pos:])
		nit := &RangeIter{Str: it.Str, Pos: it.Pos + sz}
		fr.Env[x] = &TupleV{V: []Value{True(), c.idx(int64(it.Pos)), c.intC(int64(r), types.Typ[types.Int32])}}
		// the iterator value is immutable in SSA; we rebind the iterator operand
		fr.Env[x.Iter] = nit
		return nil, false
	}
	if it.Abs != nil {
		ok := Fresh("range.ok", BoolSort)
		k := c.symbolic(st, it.MapT.Key(), "range.key")
		v := c.symbolic(st, it.MapT.Elem(), "range.val")
		if ks, isStr := k.(StrV); isStr {
			// the map-level fact `keysNonEmpty(m)` (a precondition where the loop needs it) speaks about every key
			st.assume(Implies(And(ok, App("mapKeysNonEmpty."+it.Abs.Tag, BoolSort)), Cmp(">", c.strLen(st, ks), c.idx(0), true)))
		}
		if pv, isPtr := v.(PtrV); isPtr && pv.Sym != nil {
			st.assume(Implies(And(ok, App("mapValsNonNil."+it.Abs.Tag, BoolSort)), Not(Eq(pv.Sym, IntC(0)))))
		}
		fr.Env[x] = &TupleV{V: []Value{ok, k, v}}
		return nil, false
	}
	if it.Map != nil {
		// skip tombstones/overridden entries
		for it.Pos < len(it.Map.Entries) {
			e := it.Map.Entries[it.Pos]
			if e.V == nil {
				unsupported("range over map with deletions")
			}
			break
		}
		if it.Pos >= len(it.Map.Entries) {
			fr.Env[x] = &TupleV{V: []Value{False(), c.zeroValue(st, it.MapT.Key()), c.zeroValue(st, it.MapT.Elem())}}
			return nil, false
		}
		e := it.Map.Entries[it.Pos]
		fr.Env[x] = &TupleV{V: []Value{True(), e.K, e.V}}
		fr.Env[x.Iter] = &RangeIter{Map: it.Map, MapT: it.MapT, Pos: it.Pos + 1}
		return nil, false
	}
	unsupported("next on unknown iterator")
	return nil, false
}

func decodeRune(s string) (rune, int) {
	for i, r := range s {
		_ = i
		n := len(string(r))
		if r == 0xFFFD {
			// invalid byte decodes as RuneError width 1 (unless literally encoded)
			if len(s) >= 3 && s[:3] == "\xef\xbf\xbd" {
				return r, 3
			}
			return r, 1
		}
		return r, n
	}
	return 0, 0
}

// ---- channels (ghost model: sequential contracts only) ----

func (c *Ctx) chanLen(st *State, ch ChanV) *Term {
	l := Fresh("chanlen", c.IntSort())
	st.assume(Cmp(">=", l, c.idx(0), true))
	return l
}
func (c *Ctx) chanCap(st *State, ch ChanV) *Term {
	if ch.Obj != nil {
		return c.mem(st, ch.Obj).(*ChanObj).Cap
	}
	l := Fresh("chancap", c.IntSort())
	st.assume(Cmp(">=", l, c.idx(0), true))
	return l
}

func chanName(v ssa.Value) string {
	// name a channel operand by the field / variable it was loaded from
	switch x := v.(type) {
	case *ssa.UnOp:
		if x.Op == token.MUL {
			if fa, ok := x.X.(*ssa.FieldAddr); ok {
				st := under(fa.X.Type().(*types.Pointer).Elem()).(*types.Struct)
				return st.Field(fa.Field).Name()
			}
			if g, ok := x.X.(*ssa.Global); ok {
				return g.Name()
			}
		}
	case *ssa.Parameter:
		return x.Name()
	case *ssa.Call:
		if f := x.Common().StaticCallee(); f != nil {
			return f.Name() + "()"
		}
		if x.Common().IsInvoke() {
			return x.Common().Method.Name() + "()"
		}
	case *ssa.MakeChan:
		return "make"
	case *ssa.Phi:
		return x.Comment
	case *ssa.FreeVar:
		return x.Name()
	}
	return v.Name()
}

func (c *Ctx) chanClose(st *State, in ssa.Instruction, ch ChanV) {
	name := "?"
	if call, ok := in.(ssa.CallInstruction); ok {
		name = chanName(call.Common().Args[0])
	}
	st.CallLog = append(st.CallLog, CallRec{Callee: "close:" + name})
}

func (c *Ctx) recv(st *State, x *ssa.UnOp, ch Value, commaOk bool) Value {
	name := chanName(x.X)
	st.CallLog = append(st.CallLog, CallRec{Callee: "recv:" + name})
	et := under(x.X.Type()).(*types.Chan).Elem()
	v := c.symbolic(st, et, "recv."+name)
	if commaOk {
		return &TupleV{V: []Value{v, Fresh("recvok."+name, BoolSort)}}
	}
	return v
}

func (c *Ctx) doSend(st *State, x *ssa.Send) ([]*State, bool) {
	name := chanName(x.Chan)
	st.CallLog = append(st.CallLog, CallRec{Callee: "send:" + name, Args: []Value{c.val(st, x.X)}})
	return nil, false
}

// doSelect: the chosen case is an unconstrained symbolic index; every case (and default if non-blocking) is explored.
func (c *Ctx) doSelect(st *State, x *ssa.Select) ([]*State, bool) {
	fr := st.top()
	n := len(x.States)
	var names []string
	for _, s := range x.States {
		d := "recv:"
		if s.Dir == types.SendOnly {
			d = "send:"
		}
		names = append(names, d+chanName(s.Chan))
	}
	blocking := "blocking"
	if !x.Blocking {
		blocking = "nonblocking"
	}
	st.CallLog = append(st.CallLog, CallRec{Callee: "select:" + blocking + ":" + strings.Join(names, ",")})
	idx := Fresh("select.idx", c.IntSort())
	lo := 0
	if !x.Blocking {
		lo = -1
	}
	st.assume(And(Cmp(">=", idx, c.idx(int64(lo)), true), Cmp("<", idx, c.idx(int64(n)), true)))
	tv := &TupleV{V: []Value{idx, Fresh("select.recvok", BoolSort)}}
	for _, s := range x.States {
		if s.Dir == types.RecvOnly {
			et := under(s.Chan.Type()).(*types.Chan).Elem()
			tv.V = append(tv.V, c.symbolic(st, et, "select.recv."+chanName(s.Chan)))
		}
	}
	ri := 2
	for i, s := range x.States {
		if s.Dir == types.SendOnly {
			st.CallLog = append(st.CallLog, CallRec{Callee: "selsend:" + chanName(s.Chan), Args: []Value{c.val(st, s.Send)}, Cond: Eq(idx, c.idx(int64(i)))})
		} else {
			// the value received if this case is chosen
			st.CallLog = append(st.CallLog, CallRec{Callee: "selrecv:" + chanName(s.Chan), Args: []Value{tv.V[ri]}, Cond: Eq(idx, c.idx(int64(i)))})
			ri++
		}
	}
	fr.Env[x] = tv
	return nil, false
}

var _ = big.NewInt

// tryEvalBool evaluates a callee postcondition; clauses that need bit-vector operators cannot be
// expressed for a math-mode caller and are dropped (assuming less is sound).
func (c *Ctx) tryEvalBool(env *SpecEnv, e *SExpr) (t *Term, ok bool) {
	defer func() {
		if r := recover(); r != nil {
			// a callee clause that cannot be expressed in the caller's arithmetic / float mode is not assumed (sound:
			// the caller knows less); the callee's own verification evaluates it in its own mode
			if ve, isV := r.(VerErr); isV && (strings.Contains(ve.Msg, "in math mode") || strings.Contains(ve.Msg, "not supported on sort Int") || strings.Contains(ve.Msg, "needs float fp mode") || strings.HasPrefix(ve.Msg, "SPEC-ERROR: sort mismatch")) {
				t, ok = nil, false
				return
			}
			panic(r)
		}
	}()
	return c.evalBool(env, e), true
}

func mentionsCallLog(e *SExpr) bool {
	if e == nil {
		return false
	}
	if e.Kind == "call" && len(e.Args) > 0 && e.Args[0].Kind == "ident" && e.Args[0].Name == "calls" {
		return true
	}
	for _, a := range e.Args {
		if mentionsCallLog(a) {
			return true
		}
	}
	return false
}

func mentionsIdent(e *SExpr, names map[string]bool) bool {
	if e == nil {
		return false
	}
	if e.Kind == "ident" && names[e.Name] {
		return true
	}
	for _, a := range e.Args {
		if mentionsIdent(a, names) {
			return true
		}
	}
	return false
}

// assumedNonNilIface: `opt assume-nonnil iface:Widget` - method calls on values of the named interface type are
// assumed to have a non-nil receiver (application-provided objects stored in a data structure).
func (c *Ctx) assumedNonNilIface(cc *ssa.CallCommon) bool {
	if c.Spec == nil || c.Spec.Opts["assume-nonnil"] == "" {
		return false
	}
	nt, ok := cc.Value.Type().(*types.Named)
	if !ok {
		return false
	}
	for _, n := range strings.Fields(c.Spec.Opts["assume-nonnil"]) {
		if n == "iface:"+nt.Obj().Name() {
			c.Assumed["values of interface "+nt.Obj().Name()+" stored in the data structure are assumed non-nil, not checked (opt assume-nonnil iface:"+nt.Obj().Name()+")"] = true
			return true
		}
	}
	return false
}
