package main

// `govc check <Cxx> quick|thorough`: runs every task of a property on /repo's working tree,
// discharges the obligations, compares with the committed baseline and known findings,
// writes evidence/<id>.json and replays/<id>/..., prints VIOLATION / KNOWN-FINDING lines.

import (
	"encoding/json"
	"fmt"
	"os"
	"path/filepath"
	"sort"
	"strconv"
	"strings"
	"time"
)

type PropDef struct {
	ID        string
	Funcs     []string // contract keys (short form: tcell.X, terminfo.X, views.X)
	Lemmas    []string // lemma names ("" = none); "*prefix" selects by prefix
	Custom    []func(run *PropRun)
	Level     string
	Trusted   []string
	Assume    []string
	WasmLoad  bool
	Bounded   []string
}

type PropRun struct {
	Def     *PropDef
	Eng     *Engine
	Tier    string
	Seed    int
	Groups  []*ObGroup
	Errors  []string
	Assumed map[string]bool
	Inlined map[string]bool
	Funcs   []string
	LoopsCut int
	LoopsEval int
	Paths   int
	Extra   map[string]interface{}
	Timeout time.Duration
}

// AddObligation lets custom checks add (usually concrete, folded) obligations.
func (r *PropRun) AddObligation(name, kind string, claim *Term, src string) *ObGroup {
	g := &ObGroup{Name: name, Kind: kind, Fn: "table", Src: src}
	g.Instances = []*Obligation{{Name: name, Kind: kind, Claim: claim, Src: src}}
	r.Groups = append(r.Groups, g)
	return g
}

// replayTest wraps a Go test body: it must print VERIF-REPLAY-FAIL <what> when the real code violates
// the claim and VERIF-REPLAY-PASS otherwise.
func replayTest(pkgName string, imports []string, body string) string {
	var sb strings.Builder
	fmt.Fprintf(&sb, "package %s\n\nimport (\n\t\"fmt\"\n\t\"testing\"\n", pkgName)
	for _, i := range imports {
		if strings.HasPrefix(i, "_ ") {
			fmt.Fprintf(&sb, "\t_ %q\n", i[2:])
		} else {
			fmt.Fprintf(&sb, "\t%q\n", i)
		}
	}
	sb.WriteString(")\n\nfunc TestVerifReplay(t *testing.T) {\n\tfail := func(f string, a ...interface{}) { fmt.Println(\"VERIF-REPLAY-FAIL \" + fmt.Sprintf(f, a...)) }\n\t_ = fail\n")
	sb.WriteString(body)
	sb.WriteString("\n\tfmt.Println(\"VERIF-REPLAY-PASS\")\n}\n")
	return sb.String()
}

type Finding struct {
	Fixed      bool
	Property   string
	Obligation string
	Witness    string
	Text       string
}

func loadFindings() []Finding {
	data, err := os.ReadFile(filepath.Join(verifDir(), "known_findings.txt"))
	if err != nil {
		return nil
	}
	var out []Finding
	for _, ln := range strings.Split(string(data), "\n") {
		ln = strings.TrimSpace(ln)
		if ln == "" || strings.HasPrefix(ln, "#") {
			continue
		}
		f := Finding{Text: ln}
		if strings.HasPrefix(ln, "fixed:") {
			f.Fixed = true
			ln = strings.TrimSpace(ln[6:])
		}
		for _, fld := range strings.Fields(ln) {
			if strings.HasPrefix(fld, "property=") {
				f.Property = fld[9:]
			}
			if strings.HasPrefix(fld, "obligation=") {
				f.Obligation = fld[11:]
			}
		}
		if i := strings.Index(ln, "witness="); i >= 0 {
			f.Witness = ln[i+8:]
		}
		out = append(out, f)
	}
	return out
}

type Baseline struct {
	Property    string   `json:"property"`
	Obligations []string `json:"obligations"` // contract-level obligations proved on the pinned tree
}

func loadBaseline(id string) *Baseline {
	data, err := os.ReadFile(filepath.Join(verifDir(), "baseline", id+".json"))
	if err != nil {
		return nil
	}
	var b Baseline
	if json.Unmarshal(data, &b) != nil {
		return nil
	}
	return &b
}

func contractLevel(kind string) bool {
	switch {
	case strings.HasPrefix(kind, "safety"), kind == "canary":
		return false
	}
	return true
}

func cmdCheck(args []string) int {
	if len(args) < 2 {
		fmt.Println("usage: govc check <Cxx> quick|thorough [-update-baseline]")
		return 2
	}
	id, tier := args[0], args[1]
	update := len(args) > 2 && args[2] == "-update-baseline"
	def := propDefs[id]
	if def == nil {
		fmt.Printf("UNDECIDED property=%s: no check defined\n", id)
		return 3
	}
	seed := 0
	if s := os.Getenv("VERIF_SEED"); s != "" {
		seed, _ = strconv.Atoi(s)
	}
	t0 := time.Now()
	var extraEnv []string
	pats := []string{".", "./terminfo", "./views", "./terminfo/base", "./terminfo/extended"}
	if def.WasmLoad {
		pats = []string{"."}
		extraEnv = []string{"GOOS=js", "GOARCH=wasm"}
	}
	e, err := LoadEngine(pats, extraEnv)
	if err != nil {
		fmt.Printf("UNDECIDED property=%s: cannot load the repository: %v\n", id, err)
		return 3
	}
	run := &PropRun{Def: def, Eng: e, Tier: tier, Seed: seed, Assumed: map[string]bool{}, Inlined: map[string]bool{}, Extra: map[string]interface{}{}}
	run.Timeout = 20 * time.Second
	if tier == "thorough" {
		run.Timeout = 90 * time.Second
	}
	if def.WasmLoad {
		// obligation 0: the package type-checks for GOOS=js GOARCH=wasm (which includes `*wScreen implements screenImpl`,
		// checked by the assignment in NewTerminfoScreen)
		g := run.AddObligation("tcell/js-wasm/type-checks", "compile", BoolT(len(e.Errors) == 0), "the package compiles for GOOS=js GOARCH=wasm against the common Screen interface")
		g.ReplayGo = "//verif:wasmbuild\n"
		if len(e.Errors) > 0 {
			discharge(run.Groups, DischargeOpts{Timeout: run.Timeout, Seed: seed, Par: 14, ModelTerms: defaultModelTerms})
			g.Model = map[string]string{"type errors": strings.Join(e.Errors, "; ")}
			g.RawOut = strings.Join(e.Errors, "\n")
			return finishCheck(run, t0, update)
		}
	} else if len(e.Errors) > 0 {
		run.Errors = append(run.Errors, "package load errors: "+strings.Join(e.Errors, "; "))
	}
	for _, k := range def.Funcs {
		key := expandKey(k)
		r := e.VerifyFunc(key)
		run.Funcs = append(run.Funcs, k)
		if r.Err != "" {
			run.Errors = append(run.Errors, k+": "+r.Err)
			continue
		}
		run.Paths += r.Paths
		run.LoopsCut += r.LoopsCut
		run.LoopsEval += len(r.Loops) - r.LoopsCut
		for _, a := range r.Assumed {
			run.Assumed[a] = true
		}
		for _, a := range r.Inlined {
			run.Inlined[a] = true
		}
		run.Groups = append(run.Groups, groupObligations(r.Obs)...)
	}
	for _, ln := range def.Lemmas {
		found := false
		for _, l := range e.Specs.Lemmas {
			if l.Name == ln || (strings.HasPrefix(ln, "*") && strings.HasPrefix(l.Name, ln[1:])) {
				found = true
				r := e.VerifyLemma(l)
				if r.Err != "" {
					run.Errors = append(run.Errors, "lemma "+l.Name+": "+r.Err)
					continue
				}
				run.Groups = append(run.Groups, groupObligations(r.Obs)...)
			}
		}
		if !found {
			run.Errors = append(run.Errors, "lemma "+ln+" not found in the contract files")
		}
	}
	for _, cf := range def.Custom {
		func() {
			defer func() {
				if r := recover(); r != nil {
					if ve, ok := r.(VerErr); ok {
						run.Errors = append(run.Errors, ve.Msg)
						return
					}
					run.Errors = append(run.Errors, fmt.Sprintf("INTERNAL: %v", r))
				}
			}()
			cf(run)
		}()
	}
	discharge(run.Groups, DischargeOpts{Timeout: run.Timeout, Seed: seed, NeedTwo: tier == "thorough", Par: 14, ModelTerms: defaultModelTerms})
	return finishCheck(run, t0, update)
}

func finishCheck(run *PropRun, t0 time.Time, update bool) int {
	id := run.Def.ID
	findings := loadFindings()
	base := loadBaseline(id)
	var violations []string
	known := 0
	nOb, nDis, nTriv := 0, 0, 0
	solverWins := map[string]int{}
	solverSecs := 0.0
	var samples []interface{}
	var undecided []string
	seen := map[string]*ObGroup{}
	replayDir := filepath.Join(outDir(), "replays", id)
	os.MkdirAll(replayDir, 0o755)
	nReplays := 0
	isKnown := func(name string) *Finding {
		for i := range findings {
			f := &findings[i]
			if !f.Fixed && f.Property == id && f.Obligation == name {
				return f
			}
		}
		return nil
	}
	report := func(g *ObGroup, reason string) {
		if f := isKnown(g.Name); f != nil {
			fmt.Printf("KNOWN-FINDING: property=%s obligation=%s %s\n", id, g.Name, f.Witness)
			known++
			return
		}
		path := writeReplay(run, g, reason, replayDir)
		suffix := ""
		nReplays++
		if nReplays > 8 {
			suffix = " no-failing-input-found (replay skipped: more than 8 violations in this run)"
		} else if !replayConfirms(run, g, path) {
			suffix = " no-failing-input-found"
		}
		violations = append(violations, g.Name)
		fmt.Printf("VIOLATION property=%s replay=%s obligation=%s (%s)%s\n", id, path, g.Name, reason, suffix)
	}
	for _, g := range run.Groups {
		seen[g.Name] = g
		if g.Canary {
			if g.Status == "vacuous" {
				run.Errors = append(run.Errors, "VACUITY: "+g.Name+" is unreachable (contradictory requires/invariant)")
			}
			continue
		}
		nOb++
		solverSecs += g.Secs
		switch g.Status {
		case "trivial":
			nDis++
			nTriv++
		case "proved":
			nDis++
			solverWins[strings.TrimSuffix(g.Solver, "(single)")]++
		case "failed":
			report(g, "refuted by "+g.Solver)
		case "unknown":
			inBase := false
			if base != nil {
				for _, n := range base.Obligations {
					if n == g.Name {
						inBase = true
					}
				}
			}
			if inBase {
				report(g, "proved on the pinned tree, now undischarged: "+strings.Join(g.Tried, ","))
			} else {
				undecided = append(undecided, g.Name+" ("+strings.Join(g.Tried, ",")+")")
			}
		}
		if len(samples) < 6 && (g.Status == "proved" || g.Status == "failed") {
			samples = append(samples, map[string]interface{}{"obligation": g.Name, "kind": g.Kind, "clause": g.Src, "instances": len(g.Instances), "smt_bytes": g.SMTSize, "result": g.Status, "solver": g.Solver, "secs": round2(g.Secs)})
		}
	}
	if len(samples) == 0 {
		for _, g := range run.Groups {
			if !g.Canary && len(samples) < 4 {
				samples = append(samples, map[string]interface{}{"obligation": g.Name, "kind": g.Kind, "clause": g.Src, "result": g.Status})
			}
		}
	}
	// baseline presence: every contract-level obligation proved on the pinned tree must be generated again
	var missing []string
	if base != nil && !update {
		for _, n := range base.Obligations {
			if _, ok := seen[n]; !ok {
				missing = append(missing, n)
			}
		}
	}
	known2 := 0
	// known findings listed but no longer failing: still print nothing (they only suppress)
	_ = known2
	wall := time.Since(t0).Seconds()
	// assumptions
	var assumptions []string
	for a := range run.Assumed {
		assumptions = append(assumptions, a)
	}
	assumptions = append(assumptions, run.Def.Assume...)
	for _, f := range run.Eng.Specs.Files {
		for _, ln := range run.Eng.Specs.Raw[f] {
			t := strings.TrimSpace(ln)
			if strings.HasPrefix(t, "trusted") || strings.HasPrefix(t, "uninterp") {
				// scanned below via UsedSpecs; keep the scan result compact
				_ = t
			}
		}
	}
	sort.Strings(assumptions)
	var inl []string
	for a := range run.Inlined {
		inl = append(inl, a)
	}
	sort.Strings(inl)
	trusted := append([]string{"x/tools go/packages+go/types+go/ssa (v0.29.0) as the reading of the source", "govc's SSA semantics (see DESIGN.md section 3)", "z3 4.8.12 / z3 5.1.0 / cvc5 1.0.3"}, run.Def.Trusted...)
	ev := map[string]interface{}{
		"property_id": id,
		"tier":        run.Tier,
		"seed":        run.Seed,
		"level":       run.Def.Level,
		"wall_s":      round2(wall),
		"violations":  len(violations),
		"assumptions": assumptions,
	}
	cov := map[string]interface{}{
		"obligations":            nOb,
		"discharged":             nDis,
		"discharged_by_folding":  nTriv,
		"discharged_by_solver":   solverWins,
		"solver_seconds":         round2(solverSecs),
		"checker_cmd":            fmt.Sprintf("/verif/check %s %s", id, run.Tier),
		"trusted_base":           trusted,
		"functions_under_contract": run.Funcs,
		"functions_inlined":      inl,
		"loops_cut_by_invariant": run.LoopsCut,
		"loops_evaluated":        run.LoopsEval,
		"paths":                  run.Paths,
		"samples":                samples,
		"undischarged_not_claimed": undecided,
		"known_findings":         known,
		"engine_errors":          run.Errors,
		"explanation":            "obligations generated from go/ssa of /repo's working tree against the //@ contracts; each named obligation is the disjunction over all paths reaching it; discharged = folded to true by the term builder or unsat from a solver",
		"bounded_stand_ins":      run.Def.Bounded,
	}
	for k, v := range run.Extra {
		cov[k] = v
	}
	ev["coverage"] = cov
	os.MkdirAll(filepath.Join(outDir(), "evidence"), 0o755)
	data, _ := json.MarshalIndent(ev, "", " ")
	os.WriteFile(filepath.Join(outDir(), "evidence", id+".json"), data, 0o644)

	if update {
		var names []string
		for _, g := range run.Groups {
			if !g.Canary && contractLevel(g.Kind) && (g.Status == "proved" || g.Status == "trivial") {
				names = append(names, g.Name)
			}
		}
		sort.Strings(names)
		os.MkdirAll(filepath.Join(verifDir(), "baseline"), 0o755)
		bd, _ := json.MarshalIndent(Baseline{Property: id, Obligations: names}, "", " ")
		os.WriteFile(filepath.Join(verifDir(), "baseline", id+".json"), bd, 0o644)
		fmt.Printf("baseline for %s: %d contract-level obligations\n", id, len(names))
	}
	fmt.Printf("property=%s tier=%s obligations=%d discharged=%d (folded %d) known-findings=%d violations=%d undischarged-unclaimed=%d wall=%.1fs\n",
		id, run.Tier, nOb, nDis, nTriv, known, len(violations), len(undecided), wall)
	if len(violations) > 0 {
		return 1
	}
	if len(run.Errors) > 0 || len(missing) > 0 {
		for _, e := range run.Errors {
			fmt.Printf("UNDECIDED property=%s: %s\n", id, e)
		}
		for _, m := range missing {
			fmt.Printf("UNDECIDED property=%s: baseline obligation %s was not generated\n", id, m)
		}
		return 3
	}
	if len(undecided) > 0 && base == nil {
		for _, u := range undecided {
			fmt.Printf("UNDECIDED property=%s: %s\n", id, u)
		}
		return 3
	}
	return 0
}

// outDir: evidence and replay files of runs against a scratch copy (VERIF_REPO set: self-test, seeded changes)
// go to a scratch directory, never into /verif/evidence.
func outDir() string {
	if os.Getenv("VERIF_REPO") != "" {
		d := filepath.Join(os.TempDir(), "govc-scratch-out")
		os.MkdirAll(d, 0o755)
		return d
	}
	return verifDir()
}

func round2(f float64) float64 { return float64(int(f*100+0.5)) / 100 }

// writeReplay stores the failed obligation with the solver's model / output.
func writeReplay(run *PropRun, g *ObGroup, reason, dir string) string {
	name := sanitize(g.Name)
	if len(name) > 150 {
		name = name[:150]
	}
	path := filepath.Join(dir, name+".json")
	out := g.RawOut
	if len(out) > 20000 {
		out = out[:20000]
	}
	rp := map[string]interface{}{
		"property":   run.Def.ID,
		"obligation": g.Name,
		"kind":       g.Kind,
		"function":   g.Fn,
		"clause":     g.Src,
		"position":   g.Pos,
		"reason":     reason,
		"solver":     g.Solver,
		"tried":      g.Tried,
		"model":      g.Model,
		"solver_output": out,
		"replay":     "see replay_status",
	}
	data, _ := json.MarshalIndent(rp, "", " ")
	os.WriteFile(path, data, 0o644)
	if g.Script != "" {
		os.WriteFile(strings.TrimSuffix(path, ".json")+".smt2", []byte(g.Script), 0o644)
	}
	return path
}
