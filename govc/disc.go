package main

// Lock-ownership discipline (C10, C19): a summary-based dataflow analysis over go/ssa.
// Every field of a screen type is classified in the contract file (`//@ lockclass`):
//   guarded   - may only be read or written while the screen's mutex is held
//   initonly  - written only by the listed init functions (before the screen is shared); read anywhere
//   confined  - touched only by the listed goroutine-confined functions
//   channel   - channels / sync primitives: safe by construction
// Obligations: one per access site of a guarded field ("held"), per Lock ("not held: no self-deadlock"),
// per Unlock ("held"), per exit of an entry point ("lock released"), per write of an initonly field.

import (
	"fmt"
	"go/token"
	"go/types"
	"sort"
	"strings"

	"golang.org/x/tools/go/ssa"
)

type LockClass struct {
	Type      string
	Guarded   map[string]bool
	InitOnly  map[string]bool
	Confined  map[string]bool
	Channel   map[string]bool
	InitFuncs map[string]bool
	ConfFuncs map[string]bool
	Entry     map[string]bool // extra entry points (goroutine bodies, callbacks) analysed with the lock not held
	HeldFuncs map[string]bool // methods documented to be called with the lock held
	// Serial: initonly fields holding a stateful object shared by all goroutines (the tty's write side, the charset
	// encoder): a method call through the field (all methods, or the listed ones) and every call that is handed the
	// field's value must be made with the lock held.  "F" = all methods, "F:M1,M2" = those methods.
	Serial map[string]map[string]bool
	BalanceOnly bool          // only lock/unlock/exit obligations (no field-access obligations)
	Pkg       string
}

func parseLockClass(lines []string, pkg string, typ string) *LockClass {
	lc := &LockClass{Type: typ, Pkg: pkg, Guarded: map[string]bool{}, InitOnly: map[string]bool{}, Confined: map[string]bool{}, Channel: map[string]bool{},
		InitFuncs: map[string]bool{}, ConfFuncs: map[string]bool{}, Entry: map[string]bool{}, HeldFuncs: map[string]bool{},
		Serial: map[string]map[string]bool{}}
	for _, ln := range lines {
		w, rest := firstWord(ln)
		var m map[string]bool
		switch w {
		case "serial":
			for _, f := range strings.Fields(rest) {
				name, ms, has := strings.Cut(f, ":")
				set := map[string]bool{}
				if has {
					for _, mn := range strings.Split(ms, ",") {
						set[mn] = true
					}
				}
				lc.Serial[name] = set
			}
			continue
		case "guarded":
			m = lc.Guarded
		case "initonly":
			m = lc.InitOnly
		case "confined":
			m = lc.Confined
		case "channel":
			m = lc.Channel
		case "initfuncs":
			m = lc.InitFuncs
		case "conffuncs":
			m = lc.ConfFuncs
		case "entry":
			m = lc.Entry
		case "heldfuncs":
			m = lc.HeldFuncs
		case "balanceonly":
			lc.BalanceOnly = true
			continue
		default:
			continue
		}
		for _, f := range strings.Fields(rest) {
			m[f] = true
		}
	}
	return lc
}

// held-state domain: bit 1 = "not held possible", bit 2 = "held possible"
type heldSet uint8

const (
	hsNot  heldSet = 1
	hsHeld heldSet = 2
	// the same two states with a deferred Unlock registered on this path
	hsNotD  heldSet = 4
	hsHeldD heldSet = 8
)

func (h heldSet) mayNotHeld() bool { return h&(hsNot|hsNotD) != 0 }
func (h heldSet) mayHeld() bool    { return h&(hsHeld|hsHeldD) != 0 }
func (h heldSet) lock() heldSet {
	var r heldSet
	if h&(hsNot|hsHeld) != 0 {
		r |= hsHeld
	}
	if h&(hsNotD|hsHeldD) != 0 {
		r |= hsHeldD
	}
	return r
}
func (h heldSet) unlock() heldSet {
	var r heldSet
	if h&(hsNot|hsHeld) != 0 {
		r |= hsNot
	}
	if h&(hsNotD|hsHeldD) != 0 {
		r |= hsNotD
	}
	return r
}
func (h heldSet) deferUnlock() heldSet {
	var r heldSet
	if h&(hsNot|hsNotD) != 0 {
		r |= hsNotD
	}
	if h&(hsHeld|hsHeldD) != 0 {
		r |= hsHeldD
	}
	return r
}

// plain drops the deferred flag (for callee entry / exit states)
func (h heldSet) plain() heldSet {
	var r heldSet
	if h.mayNotHeld() {
		r |= hsNot
	}
	if h.mayHeld() {
		r |= hsHeld
	}
	return r
}

type discSite struct {
	Name string
	Ok   bool
	Src  string
	Pos  token.Pos
}

type discAnalysis struct {
	e     *Engine
	lc    *LockClass
	named *types.Named
	sites map[string]*discSite
	memo  map[string]heldSet // fn+entry -> exit set
	inprog map[string]bool
	ctxInit bool
	impls []*types.Named // implementation types reachable through an embedded interface (baseScreen -> tScreen)
	waitSites map[string]bool // C06: wg.Wait call sites -> reached only with the lock released
	closeSites map[string]*chanSite // close(ch) sites -> lock definitely held there
	blockSites map[string]*chanSite // blocking channel operations -> lock definitely NOT held there
}

// chanSite: a channel operation with the lock state it is reached in
type chanSite struct {
	Fn   *ssa.Function
	Ok   bool
	Pos  token.Pos
	Chan string
}

func (d *discAnalysis) chanSite(m map[string]*chanSite, key string, fn *ssa.Function, ok bool, pos token.Pos, ch string) {
	if m == nil {
		return
	}
	if s, seen := m[key]; seen {
		s.Ok = s.Ok && ok
		return
	}
	m[key] = &chanSite{Fn: fn, Ok: ok, Pos: pos, Chan: ch}
}

func (d *discAnalysis) site(name string, ok bool, src string, pos token.Pos) {
	s, exists := d.sites[name]
	if !exists {
		d.sites[name] = &discSite{Name: name, Ok: ok, Src: src, Pos: pos}
		return
	}
	if !ok {
		s.Ok = false
		s.Src = src
	}
}

func isMutexMethod(fn *ssa.Function, name string) bool {
	if fn == nil {
		return false
	}
	s := fn.String()
	return s == "(*sync.Mutex)."+name || s == "(*sync.RWMutex)."+name
}

// screenLockArg: the mutex operated on is THE screen lock (the embedded Mutex field, or a mutex reached otherwise), not
// another mutex field of the screen such as one that only serialises the lifecycle calls.
func screenLockArg(cc *ssa.CallCommon) bool {
	if len(cc.Args) == 0 {
		return true
	}
	if fa, ok := cc.Args[0].(*ssa.FieldAddr); ok {
		st := under(fa.X.Type().(*types.Pointer).Elem()).(*types.Struct)
		return st.Field(fa.Field).Name() == "Mutex"
	}
	return true
}

// recvRoot: does value v denote (a pointer derived from) the method's receiver object of the analysed type?
func (d *discAnalysis) isRecv(fn *ssa.Function, v ssa.Value) bool {
	if len(fn.Params) > 0 && v == fn.Params[0] && fn.Signature.Recv() != nil {
		return d.isScreenPtr(v.Type())
	}
	switch x := v.(type) {
	case *ssa.FreeVar:
		return d.isScreenPtr(x.Type())
	case *ssa.Phi:
		for _, e := range x.Edges {
			if !d.isRecv(fn, e) {
				return false
			}
		}
		return len(x.Edges) > 0
	case *ssa.TypeAssert:
		return d.isScreenPtr(x.Type())
	case *ssa.UnOp:
		return false
	}
	return d.isScreenPtr(v.Type()) && false
}

func (d *discAnalysis) isScreenPtr(t types.Type) bool {
	p, ok := t.(*types.Pointer)
	if !ok {
		return false
	}
	n, ok := p.Elem().(*types.Named)
	return ok && n.Obj() == d.named.Obj()
}

// fieldOf: FieldAddr / Field on the screen struct -> field name
func (d *discAnalysis) fieldOf(in ssa.Instruction) (string, ssa.Value, bool) {
	switch x := in.(type) {
	case *ssa.FieldAddr:
		if d.isScreenPtr(x.X.Type()) {
			st := d.named.Underlying().(*types.Struct)
			return st.Field(x.Field).Name(), x.X, true
		}
	case *ssa.Field:
		if n, ok := x.X.Type().(*types.Named); ok && n.Obj() == d.named.Obj() {
			st := d.named.Underlying().(*types.Struct)
			return st.Field(x.Field).Name(), x.X, true
		}
	}
	return "", nil, false
}

// serialField: v is (an interface conversion of) the value loaded from a field of the screen listed under `serial`.
func (d *discAnalysis) serialField(v ssa.Value) (string, bool) {
	for {
		switch x := v.(type) {
		case *ssa.ChangeInterface:
			v = x.X
			continue
		case *ssa.MakeInterface:
			v = x.X
			continue
		case *ssa.UnOp:
			if x.Op != token.MUL {
				return "", false
			}
			if fa, ok := x.X.(*ssa.FieldAddr); ok {
				if fld, _, ok := d.fieldOf(fa); ok {
					if _, is := d.lc.Serial[fld]; is {
						return fld, true
					}
				}
			}
		}
		return "", false
	}
}

func fnShort(fn *ssa.Function) string {
	if fn.Parent() != nil {
		return fnShort(fn.Parent()) + "$" + strings.TrimPrefix(fn.Name(), fn.Parent().Name()+"$")
	}
	return funcKey(fn)
}

// analyse returns the set of possible lock states at the exits of fn when entered with state `in`.
func (d *discAnalysis) analyse(fn *ssa.Function, in heldSet) heldSet {
	key := fmt.Sprintf("%s@%d@%v", fn.String(), in, d.ctxInit)
	if r, ok := d.memo[key]; ok {
		return r
	}
	if d.inprog[key] {
		return in // recursion: assume balanced
	}
	d.inprog[key] = true
	defer delete(d.inprog, key)
	if len(fn.Blocks) == 0 {
		d.memo[key] = in
		return in
	}
	name := fnShort(fn)
	isInit := d.ctxInit || d.lc.InitFuncs[fn.Name()]
	isConf := d.lc.ConfFuncs[fn.Name()] || (fn.Parent() != nil && d.lc.ConfFuncs[fn.Parent().Name()])
	state := make([]heldSet, len(fn.Blocks))
	state[0] = in
	var exit heldSet
	deferred := map[*ssa.BasicBlock][]string{} // deferred lock ops per function (approximation: all defers run at every RunDefers)
	var defers []string
	work := []*ssa.BasicBlock{fn.Blocks[0]}
	inWork := map[*ssa.BasicBlock]bool{fn.Blocks[0]: true}
	_ = deferred
	counts := map[string]int{}
	ord := func(kind string, in ssa.Instruction) string {
		// stable ordinal: index among instructions of that kind in the function
		k := fmt.Sprintf("%s/%p", kind, in)
		_ = k
		n := 0
		for _, b := range fn.Blocks {
			for _, i := range b.Instrs {
				if i == in {
					return fmt.Sprintf("%d", n+1)
				}
				switch kind {
				case "field":
					if _, _, ok := d.fieldOf(i); ok {
						n++
					}
				default:
					if c, ok := i.(ssa.CallInstruction); ok {
						_ = c
						n++
					}
				}
			}
		}
		counts[kind]++
		return fmt.Sprint(counts[kind])
	}
	for len(work) > 0 {
		b := work[0]
		work = work[1:]
		inWork[b] = false
		cur := state[b.Index]
		if cur == 0 {
			continue
		}
		for _, ins := range b.Instrs {
			if fld, base, ok := d.fieldOf(ins); ok && !d.lc.BalanceOnly && accessesMemory(ins) {
				_ = base
				switch {
				case d.lc.Guarded[fld]:
					okh := !cur.mayNotHeld() || isInit
					d.site(fmt.Sprintf("%s.%s/guarded[%s]#%s", d.lc.Type, name, fld, ord("field", ins)), okh,
						fmt.Sprintf("field %s.%s is guarded by the screen lock; %s touches it%s", d.lc.Type, fld, name, map[bool]string{true: " with the lock held", false: " while the lock may not be held"}[okh]), ins.Pos())
				case d.lc.InitOnly[fld]:
					// writes only in init functions
					if fa, ok := ins.(*ssa.FieldAddr); ok {
						for _, ref := range *fa.Referrers() {
							if st, ok := ref.(*ssa.Store); ok && st.Addr == fa {
								d.site(fmt.Sprintf("%s.%s/initonly-write[%s]#%s", d.lc.Type, name, fld, ord("field", ins)), isInit,
									fmt.Sprintf("field %s.%s is written only before the screen is shared; %s writes it", d.lc.Type, fld, name), ins.Pos())
							}
						}
					}
				case d.lc.Confined[fld]:
					d.site(fmt.Sprintf("%s.%s/confined[%s]#%s", d.lc.Type, name, fld, ord("field", ins)), isConf || isInit,
						fmt.Sprintf("field %s.%s is confined to %v; %s touches it", d.lc.Type, fld, keysOf(d.lc.ConfFuncs), name), ins.Pos())
				case d.lc.Channel[fld]:
				default:
					d.site(fmt.Sprintf("%s/unclassified-field[%s]", d.lc.Type, fld), false, "field "+fld+" of "+d.lc.Type+" has no lock class in the contract file", ins.Pos())
				}
			}
			switch x := ins.(type) {
			case *ssa.Send:
				d.chanSite(d.blockSites, fmt.Sprintf("%s.%s/blocking[send:%s]/not-holding-lock", d.lc.Type, name, chanName(x.Chan)), fn, !cur.mayHeld(), x.Pos(), chanName(x.Chan))
			case *ssa.UnOp:
				if x.Op == token.ARROW {
					d.chanSite(d.blockSites, fmt.Sprintf("%s.%s/blocking[recv:%s]/not-holding-lock", d.lc.Type, name, chanName(x.X)), fn, !cur.mayHeld(), x.Pos(), chanName(x.X))
				}
			case *ssa.Select:
				if x.Blocking {
					var cs []string
					for _, st := range x.States {
						dir := "recv:"
						if st.Dir == types.SendOnly {
							dir = "send:"
						}
						cs = append(cs, dir+chanName(st.Chan))
					}
					d.chanSite(d.blockSites, fmt.Sprintf("%s.%s/blocking[%s]/not-holding-lock", d.lc.Type, name, strings.Join(cs, ",")), fn, !cur.mayHeld(), x.Pos(), strings.Join(cs, ","))
				}
			case *ssa.Defer:
				callee := x.Common().StaticCallee()
				if b, isB := x.Common().Value.(*ssa.Builtin); isB && b.Name() == "close" {
					// a deferred close runs at function exit; the lock state there is not tracked: count as not serialised
					d.chanSite(d.closeSites, fmt.Sprintf("%s.%s/close[%s]", d.lc.Type, name, chanName(x.Common().Args[0])), fn, false, x.Pos(), chanName(x.Common().Args[0]))
				}
				if isMutexMethod(callee, "Unlock") && screenLockArg(x.Common()) {
					cur = cur.deferUnlock()
				} else if isMutexMethod(callee, "Lock") && screenLockArg(x.Common()) {
					defers = append(defers, "lock")
				} else if callee != nil && d.sameScreenMethod(callee) {
					defers = append(defers, "call:"+callee.String())
				} else if mc, ok := x.Common().Value.(*ssa.MakeClosure); ok {
					defers = append(defers, "closure:"+mc.Fn.String())
				}
			case *ssa.RunDefers:
				if cur&(hsNotD|hsHeldD) != 0 {
					d.site(fmt.Sprintf("%s.%s/deferred-unlock-held", d.lc.Type, name), cur&hsNotD == 0, "the deferred Unlock of "+name+" runs with the lock held on every path that registered it", x.Pos())
					var r heldSet
					if cur&(hsNot|hsHeld) != 0 {
						r |= cur & (hsNot | hsHeld)
					}
					r |= hsNot
					cur = r
				}
				for i := len(defers) - 1; i >= 0; i-- {
					switch {
					case defers[i] == "lock":
						cur = hsHeld
					case strings.HasPrefix(defers[i], "closure:"):
						for _, af := range fn.AnonFuncs {
							if "closure:"+af.String() == defers[i] {
								cur = d.callWith(af, cur)
							}
						}
					}
				}
			case *ssa.Go:
				// goroutine bodies are separate entry points (lock not held)
				if callee := x.Common().StaticCallee(); callee != nil && d.sameScreenMethod(callee) {
					d.entry(callee)
				}
			case *ssa.MakeClosure:
				// closures handed to other code run later, without the lock (unless deferred: handled above)
				if f, ok := x.Fn.(*ssa.Function); ok {
					isDeferred := false
					for _, ref := range *x.Referrers() {
						if _, ok := ref.(*ssa.Defer); ok {
							isDeferred = true
						}
					}
					if !isDeferred {
						d.entry(f)
					}
				}
			case *ssa.Call:
				cc := x.Common()
				callee := cc.StaticCallee()
				if b, isB := cc.Value.(*ssa.Builtin); isB && b.Name() == "close" {
					d.chanSite(d.closeSites, fmt.Sprintf("%s.%s/close[%s]", d.lc.Type, name, chanName(cc.Args[0])), fn, !cur.mayNotHeld(), x.Pos(), chanName(cc.Args[0]))
				}
				if len(d.lc.Serial) > 0 && !d.lc.BalanceOnly {
					if cc.IsInvoke() {
						if fld, ok := d.serialField(cc.Value); ok {
							if ms := d.lc.Serial[fld]; len(ms) == 0 || ms[cc.Method.Name()] {
								okh := !cur.mayNotHeld() || isInit
								d.site(fmt.Sprintf("%s.%s/serial[%s.%s]#%s", d.lc.Type, name, fld, cc.Method.Name(), ord("call", ins)), okh,
									fmt.Sprintf("the object behind %s.%s is shared by all goroutines and not safe for concurrent %s: %s calls it%s", d.lc.Type, fld, cc.Method.Name(), name, map[bool]string{true: " with the lock held", false: " while the lock may not be held"}[okh]), x.Pos())
							}
						}
					}
					for _, a := range cc.Args {
						if fld, ok := d.serialField(a); ok {
							okh := !cur.mayNotHeld() || isInit
							d.site(fmt.Sprintf("%s.%s/serial[%s:passed]#%s", d.lc.Type, name, fld, ord("call", ins)), okh,
								fmt.Sprintf("the object behind %s.%s is shared by all goroutines; %s hands it to a call%s", d.lc.Type, fld, name, map[bool]string{true: " with the lock held", false: " while the lock may not be held"}[okh]), x.Pos())
						}
					}
				}
				if d.waitSites != nil && callee != nil && callee.String() == "(*sync.WaitGroup).Wait" {
					k := fmt.Sprintf("%s.%s/wait-not-holding-lock#%s", d.lc.Type, name, ord("call", ins))
					ok, seen := d.waitSites[k]
					d.waitSites[k] = (!seen || ok) && !cur.mayHeld()
				}
				switch {
				case isMutexMethod(callee, "Lock") && screenLockArg(cc):
					d.site(fmt.Sprintf("%s.%s/lock-not-held#%s", d.lc.Type, name, ord("call", ins)), !cur.mayHeld(),
						name+" locks the screen mutex; it must not already be held here (self-deadlock)", x.Pos())
					cur = cur.lock()
				case isMutexMethod(callee, "Unlock") && screenLockArg(cc):
					d.site(fmt.Sprintf("%s.%s/unlock-held#%s", d.lc.Type, name, ord("call", ins)), !cur.mayNotHeld(),
						name+" unlocks the screen mutex; it must be held here", x.Pos())
					cur = cur.unlock()
				case callee != nil && d.sameScreenMethod(callee):
					cur = d.callWith(callee, cur)
				case cc.IsInvoke():
					// method of the embedded implementation interface (baseScreen -> screenImpl): same lock
					mname := cc.Method.Name()
					if mname == "Lock" && d.isImplIface(cc.Value) {
						d.site(fmt.Sprintf("%s.%s/lock-not-held#%s", d.lc.Type, name, ord("call", ins)), !cur.mayHeld(), name+" locks the screen; it must not already be held", x.Pos())
						cur = cur.lock()
					} else if mname == "Unlock" && d.isImplIface(cc.Value) {
						d.site(fmt.Sprintf("%s.%s/unlock-held#%s", d.lc.Type, name, ord("call", ins)), !cur.mayNotHeld(), name+" unlocks the screen; it must be held", x.Pos())
						cur = cur.unlock()
					} else if d.isImplIface(cc.Value) {
						// a method of the implementation reached through the wrapper's embedded interface: same lock
						ms := d.e.Prog.MethodSets.MethodSet(types.NewPointer(d.named))
						if sel := ms.Lookup(cc.Method.Pkg(), mname); sel != nil {
							if f := d.e.Prog.MethodValue(sel); f != nil && f.Pkg != nil && f.Pkg.Pkg.Path() == d.lc.Pkg {
								cur = d.callWith(f, cur)
							}
						}
					}
				}
			}
		}
		// successors
		if len(b.Succs) == 0 {
			exit |= cur.plain()
		}
		for _, s := range b.Succs {
			n := state[s.Index] | cur
			if n != state[s.Index] {
				state[s.Index] = n
				if !inWork[s] {
					work = append(work, s)
					inWork[s] = true
				}
			}
		}
	}
	if exit == 0 {
		exit = in // no normal exit (infinite loop)
	}
	d.memo[key] = exit
	return exit
}

func keysOf(m map[string]bool) []string {
	var ks []string
	for k := range m {
		ks = append(ks, k)
	}
	sort.Strings(ks)
	return ks
}

func (d *discAnalysis) isImplIface(v ssa.Value) bool {
	_, ok := v.Type().Underlying().(*types.Interface)
	return ok
}

func (d *discAnalysis) sameScreenMethod(fn *ssa.Function) bool {
	if fn.Signature.Recv() == nil {
		return fn.Parent() != nil && d.sameScreenMethod(fn.Parent())
	}
	return d.isScreenPtr(fn.Signature.Recv().Type())
}

// callWith: the callee runs with each state possible at the call site.
func (d *discAnalysis) callWith(callee *ssa.Function, cur heldSet) heldSet {
	var out heldSet
	for _, pending := range []bool{false, true} {
		var sub heldSet
		if pending {
			if cur&hsNotD != 0 {
				sub |= d.analyse(callee, hsNot)
			}
			if cur&hsHeldD != 0 {
				sub |= d.analyse(callee, hsHeld)
			}
			out |= sub.plain().deferUnlock()
		} else {
			if cur&hsNot != 0 {
				sub |= d.analyse(callee, hsNot)
			}
			if cur&hsHeld != 0 {
				sub |= d.analyse(callee, hsHeld)
			}
			out |= sub.plain()
		}
	}
	return out
}

// entry analyses fn as an entry point (lock not held on entry, must not be held on exit).
func (d *discAnalysis) entry(fn *ssa.Function) {
	in := hsNot
	if d.lc.HeldFuncs[fn.Name()] {
		in = hsHeld
	}
	saved := d.ctxInit
	d.ctxInit = d.lc.InitFuncs[fn.Name()]
	out := d.analyse(fn, in)
	d.ctxInit = saved
	want := in
	d.site(fmt.Sprintf("%s.%s/lock-balanced", d.lc.Type, fnShort(fn)), out == want,
		fmt.Sprintf("%s returns with the lock %s on every path (entered %s)", fnShort(fn), map[heldSet]string{hsNot: "released", hsHeld: "still held"}[want], map[heldSet]string{hsNot: "without it", hsHeld: "holding it"}[in]), fn.Pos())
}

// RunDiscipline analyses every method of the classified type as an entry point when exported (or listed), and
// produces one obligation per site.
func RunDiscipline(run *PropRun, e *Engine, lc *LockClass) {
	sp := e.SPkgs[lc.Pkg]
	if sp == nil {
		panic(VerErr{"UNDECIDED: package " + lc.Pkg + " not loaded"})
	}
	tm := sp.Type(lc.Type)
	if tm == nil {
		panic(VerErr{"UNDECIDED: type " + lc.Type + " not found"})
	}
	named := tm.Type().(*types.Named)
	d := &discAnalysis{e: e, lc: lc, named: named, sites: map[string]*discSite{}, memo: map[string]heldSet{}, inprog: map[string]bool{}}
	if !lc.BalanceOnly {
		d.closeSites = map[string]*chanSite{}
	}
	// every field classified?
	st := named.Underlying().(*types.Struct)
	for i := 0; i < st.NumFields(); i++ {
		f := st.Field(i).Name()
		if !(lc.Guarded[f] || lc.InitOnly[f] || lc.Confined[f] || lc.Channel[f]) && !lc.BalanceOnly {
			d.site(fmt.Sprintf("%s/unclassified-field[%s]", lc.Type, f), false, "field "+f+" of "+lc.Type+" has no lock class in the contract file", token.NoPos)
		}
	}
	ms := e.Prog.MethodSets.MethodSet(types.NewPointer(named))
	var fns []*ssa.Function
	for i := 0; i < ms.Len(); i++ {
		fn := e.Prog.MethodValue(ms.At(i))
		if fn == nil || fn.Synthetic != "" && !strings.Contains(fn.Synthetic, "wrapper") {
			continue
		}
		if fn.Pkg == nil || fn.Pkg.Pkg.Path() != lc.Pkg {
			continue // promoted methods of embedded types (Mutex.Lock ...)
		}
		fns = append(fns, fn)
	}
	sort.Slice(fns, func(i, j int) bool { return fns[i].Name() < fns[j].Name() })
	// entry points: the methods of the public Screen interface (through the baseScreen wrapper where it defines
	// them, else the implementation's own method, which is promoted), plus the listed goroutine bodies
	apiDone := false
	if io := sp.Pkg.Scope().Lookup("Screen"); io != nil && sp.Type("baseScreen") != nil {
		if it, ok := io.Type().Underlying().(*types.Interface); ok {
			apiDone = true
			wms := e.Prog.MethodSets.MethodSet(types.NewPointer(sp.Type("baseScreen").Type()))
			for i := 0; i < it.NumMethods(); i++ {
				mn := it.Method(i).Name()
				var target *ssa.Function
				if sel := wms.Lookup(sp.Pkg, mn); sel != nil && len(sel.Index()) == 1 {
					target = e.Prog.MethodValue(sel)
				} else if sel := ms.Lookup(sp.Pkg, mn); sel != nil {
					target = e.Prog.MethodValue(sel)
				}
				if target != nil && target.Pkg != nil && target.Pkg.Pkg.Path() == lc.Pkg {
					d.entry(target)
				}
			}
		}
	}
	for _, fn := range fns {
		if (!apiDone && fn.Object() != nil && fn.Object().Exported()) || lc.Entry[fn.Name()] || lc.HeldFuncs[fn.Name()] {
			d.entry(fn)
		}
	}
	var names []string
	for n := range d.sites {
		names = append(names, n)
	}
	sort.Strings(names)
	for _, n := range names {
		s := d.sites[n]
		g := run.AddObligation(n, "discipline", BoolT(s.Ok), s.Src+" ("+e.posStr(s.Pos)+")")
		g.Pos = e.posStr(s.Pos)
	}
	// close(ch) of one of the screen's own channels: closing twice is a runtime fault, so every such close is either
	// serialised by the screen lock (and then guarded by state the same critical section updates - a functional
	// clause of the closing method) or sits in a function that only runs through sync.Once
	stf := map[string]bool{}
	for i := 0; i < st.NumFields(); i++ {
		stf[st.Field(i).Name()] = true
	}
	var cks []string
	for k := range d.closeSites {
		cks = append(cks, k)
	}
	sort.Strings(cks)
	for _, k := range cks {
		cs := d.closeSites[k]
		if !stf[cs.Chan] {
			continue
		}
		once := onlyThroughOnce(e, cs.Fn)
		how := "with the screen lock held"
		if once {
			how = "in a function that only runs through sync.Once"
		}
		g := run.AddObligation(k+"/at-most-once", "discipline", BoolT(cs.Ok || once),
			fmt.Sprintf("close(%s) in %s is executed %s; otherwise two concurrent (or repeated) calls close the channel twice, a runtime fault (%s)", cs.Chan, fnShort(cs.Fn), how, e.posStr(cs.Pos)))
		g.Pos = e.posStr(cs.Pos)
	}
	run.Extra["discipline_sites_"+lc.Type] = len(names)
	run.Extra["methods_analysed_"+lc.Type] = len(d.memo)
}

// onlyThroughOnce: fn (or the function literal it is) is referenced only as the argument of (*sync.Once).Do
func onlyThroughOnce(e *Engine, fn *ssa.Function) bool {
	if fn == nil || fn.Pkg == nil {
		return false
	}
	isOnceArg := func(v ssa.Value) bool {
		refs := v.Referrers()
		if refs == nil || len(*refs) == 0 {
			return false
		}
		for _, r := range *refs {
			c, ok := r.(*ssa.Call)
			if _, dbg := r.(*ssa.DebugRef); dbg {
				continue
			}
			if !ok {
				return false
			}
			callee := c.Common().StaticCallee()
			if callee == nil || callee.String() != "(*sync.Once).Do" {
				return false
			}
		}
		return true
	}
	found := false
	var scan func(f *ssa.Function) bool
	scan = func(f *ssa.Function) bool {
		for _, b := range f.Blocks {
			for _, in := range b.Instrs {
				switch x := in.(type) {
				case ssa.CallInstruction:
					if x.Common().StaticCallee() == fn {
						// a direct call: only the synthetic bound-method wrapper of fn itself may do that
						if !(f.Synthetic != "" && strings.HasPrefix(f.Name(), fn.Name()+"$bound")) {
							return false
						}
					}
				}
				if mc, ok := in.(*ssa.MakeClosure); ok {
					if tf, ok := mc.Fn.(*ssa.Function); ok {

						if tf == fn || (tf.Synthetic != "" && tf.Name() == fn.Name()+"$bound" && tf.Signature.Recv() == nil && (tf.Object() != nil && tf.Object() == fn.Object() || boundOf(tf) == fn)) {
							if !isOnceArg(mc) {
								return false
							}
							found = true
						}
					}
				}
			}
		}
		for _, af := range f.AnonFuncs {
			if !scan(af) {
				return false
			}
		}
		return true
	}
	for _, m := range fn.Pkg.Members {
		switch x := m.(type) {
		case *ssa.Function:
			if !scan(x) {
				return false
			}
		case *ssa.Type:
			for _, t := range []types.Type{x.Type(), types.NewPointer(x.Type())} {
				ms := e.Prog.MethodSets.MethodSet(t)
				for i := 0; i < ms.Len(); i++ {
					if f := e.Prog.MethodValue(ms.At(i)); f != nil && f.Pkg == fn.Pkg && f.Synthetic == "" {
						if !scan(f) {
							return false
						}
					}
				}
			}
		}
	}
	return found
}

// boundOf: the method a synthetic bound-method closure (t.m as a value) calls
func boundOf(w *ssa.Function) *ssa.Function {
	for _, b := range w.Blocks {
		for _, in := range b.Instrs {
			if c, ok := in.(ssa.CallInstruction); ok {
				if f := c.Common().StaticCallee(); f != nil {
					return f
				}
			}
		}
	}
	return nil
}

// accessesMemory: a field address counts as an access only if something is read or written through it
// (taking and returning the address, as GetCells does, touches no data).
func accessesMemory(in ssa.Instruction) bool {
	v, ok := in.(ssa.Value)
	if !ok {
		return true
	}
	if _, isField := in.(*ssa.Field); isField {
		return true
	}
	seen := map[ssa.Value]bool{}
	var rec func(v ssa.Value) bool
	rec = func(v ssa.Value) bool {
		if seen[v] {
			return false
		}
		seen[v] = true
		refs := v.Referrers()
		if refs == nil {
			return true
		}
		for _, r := range *refs {
			switch x := r.(type) {
			case *ssa.UnOp:
				if x.Op == token.MUL {
					return true
				}
			case *ssa.Store:
				if x.Addr == v {
					return true
				}
				return true // the address is stored somewhere: conservatively an access
			case *ssa.FieldAddr:
				if rec(x) {
					return true
				}
			case *ssa.IndexAddr:
				if rec(x) {
					return true
				}
			case *ssa.Return, *ssa.DebugRef:
			case *ssa.Phi:
				if rec(x) {
					return true
				}
			default:
				return true
			}
		}
		return false
	}
	return rec(v)
}
