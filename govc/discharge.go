package main

// Grouping of obligation instances by name and discharge through the solver portfolio.

import (
	"fmt"
	"go/types"
	"os"
	"regexp"
	"sort"
	"strings"
	"sync"
	"time"
)

type ObGroup struct {
	Name      string
	Kind      string
	Fn        string
	Src       string
	Pos       string
	Canary    bool
	Instances []*Obligation
	ReplayGo  string
	ReplayDir string
	ReplayGen func(model map[string]string) string // builds the replay test from the solver's model
	// result
	Status  string // proved | trivial | failed | unknown | vacuous(canary proved) | reachable(canary ok)
	Solver  string
	Secs    float64
	Tried   []string
	Model   map[string]string
	RawOut  string
	SMTSize int
	Script  string
	Candidate bool // Model comes from the quantifier-weakened query (a candidate input, to be confirmed by replay)
}

func groupObligations(obs []*Obligation) []*ObGroup {
	by := map[string]*ObGroup{}
	var order []string
	for _, o := range obs {
		g, ok := by[o.Name]
		if !ok {
			g = &ObGroup{Name: o.Name, Kind: o.Kind, Fn: o.Fn, Src: o.Src, Pos: o.Pos, Canary: o.Canary}
			by[o.Name] = g
			order = append(order, o.Name)
		}
		g.Instances = append(g.Instances, o)
	}
	var out []*ObGroup
	for _, n := range order {
		out = append(out, by[n])
	}
	return out
}

// arraySyms collects array-sorted variables and UF names of t.
func arraySyms(t *Term, out map[string]bool, seen map[int]bool) {
	if seen[t.id] {
		return
	}
	seen[t.id] = true
	if t.Op == "var" && t.Sort.Kind == SArray {
		out[t.Name] = true
	}
	if t.Op == "app" {
		out["uf:"+t.Name] = true
	}
	for _, a := range t.Args {
		arraySyms(a, out, seen)
	}
}

// prunedQuery keeps the quantifier-free facts and only those quantified facts that share an array / UF
// symbol with the claim.  Dropping hypotheses is sound; a non-unsat answer is re-checked with the full query.
func prunedQuery(o *Obligation) (*Term, bool) {
	cs := map[string]bool{}
	arraySyms(o.Claim, cs, map[int]bool{})
	dropped := false
	var keep []*Term
	for _, f := range o.PC {
		if !hasQuant(f) {
			keep = append(keep, f)
			continue
		}
		fs := map[string]bool{}
		arraySyms(f, fs, map[int]bool{})
		share := false
		for k := range fs {
			if cs[k] {
				share = true
				break
			}
		}
		if share {
			keep = append(keep, f)
		} else {
			dropped = true
		}
	}
	return And(append(keep, Not(o.Claim))...), dropped
}

// query builds the refutation query for the group: OR_i (pc_i /\ not claim_i).
func (g *ObGroup) query() *Term {
	var ds []*Term
	for _, o := range g.Instances {
		if o.Claim.IsTrue() {
			continue
		}
		if g.Canary {
			// reachability canaries use the quantifier-free part of the path condition: a contradiction there is
			// what a vacuous contract looks like, and satisfiability of quantified facts is not decidable in time
			// (quantified subformulas are weakened away polarity-wise, so disjunctions from merged paths keep their
			// quantifier-free parts)
			var qf []*Term
			for _, f := range o.PC {
				qf = append(qf, weakenQuant(f, true))
			}
			ds = append(ds, And(qf...))
			continue
		}
		ds = append(ds, And(append(append([]*Term(nil), o.PC...), Not(o.Claim))...))
	}
	return Or(ds...)
}

// weakenQuant returns a quantifier-free formula implied by t (pol=true) or implying t (pol=false): quantified
// subformulas become true in positive and false in negative positions.
func weakenQuant(t *Term, pol bool) *Term {
	if !hasQuant(t) {
		return t
	}
	give := func() *Term {
		if pol {
			return True()
		}
		return False()
	}
	switch t.Op {
	case "forall", "exists":
		return give()
	case "not":
		return Not(weakenQuant(t.Args[0], !pol))
	case "and":
		var as []*Term
		for _, a := range t.Args {
			as = append(as, weakenQuant(a, pol))
		}
		return And(as...)
	case "or":
		var as []*Term
		for _, a := range t.Args {
			as = append(as, weakenQuant(a, pol))
		}
		return Or(as...)
	case "=>":
		return Implies(weakenQuant(t.Args[0], !pol), weakenQuant(t.Args[1], pol))
	case "ite":
		if t.Sort == BoolSort && !hasQuant(t.Args[0]) {
			return Ite(t.Args[0], weakenQuant(t.Args[1], pol), weakenQuant(t.Args[2], pol))
		}
	}
	return give()
}

type DischargeOpts struct {
	Timeout time.Duration
	Seed    int
	NeedTwo bool
	Par     int
	Models  bool
	ModelTerms func(g *ObGroup) []*Term
}

func discharge(groups []*ObGroup, opt DischargeOpts) {
	type job struct {
		g      *ObGroup
		script string
		gv     []*Term
		sub    int // >0: one instance of a split group
		pruned string
		q      *Term
	}
	var jobs []job
	split := map[*ObGroup]int{}
	// term construction is single-threaded
	for _, g := range groups {
		q := g.query()
		if os.Getenv("GOVC_DEBUG_Q") != "" && strings.Contains(g.Name, os.Getenv("GOVC_DEBUG_Q")) {
			for i, o := range g.Instances {
				fmt.Printf("  inst %d path=%d claim=%v pcAndFalse=%v full=%v\n", i, o.Path, o.Claim.String() == "false", And(o.PC...).IsFalse(), And(append(append([]*Term(nil), o.PC...), Not(o.Claim))...).IsFalse())
				ids := map[int]int{}
				for k, f := range o.PC {
					ids[f.id] = k
				}
				for k, f := range o.PC {
					if f.IsFalse() {
						fmt.Printf("     pc[%d] is false\n", k)
					}
					if f.Op == "not" {
						if j, ok := ids[f.Args[0].id]; ok {
							fs := f.String()
							if len(fs) > 200 {
								fs = fs[:200]
							}
							fmt.Printf("     pc[%d] negates pc[%d]: %s\n", k, j, fs)
						}
					}
				}
			}
		}
		if q.IsFalse() {
			if g.Canary {
				g.Status = "vacuous"
			} else {
				g.Status = "trivial"
			}
			continue
		}
		if q.IsTrue() {
			if g.Canary {
				g.Status = "reachable"
				continue
			}
		}
		var gv []*Term
		if opt.ModelTerms != nil && !g.Canary {
			gv = opt.ModelTerms(g)
		}
		// small groups of quantified obligations are discharged instance by instance (simpler queries)
		nt := 0
		for _, o := range g.Instances {
			if !o.Claim.IsTrue() {
				nt++
			}
		}
		if !g.Canary && nt > 1 && (nt <= 400 && hasQuant(q) || nt <= 8) {
			k := 0
			for _, o := range g.Instances {
				if o.Claim.IsTrue() {
					continue
				}
				k++
				qi := And(append(append([]*Term(nil), o.PC...), Not(o.Claim))...)
				sc := Script([]*Term{qi}, gv, "", TS.Defs)
				g.SMTSize += len(sc)
				pr := ""
				if pq, dropped := prunedQuery(o); dropped {
					pr = Script([]*Term{pq}, nil, "", TS.Defs)
				}
				jobs = append(jobs, job{g, sc, gv, k, pr, qi})
			}
			split[g] = k
			g.Status = "proved"
			continue
		}
		script := Script([]*Term{q}, gv, "", TS.Defs)
		g.SMTSize = len(script)
		pr := ""
		if !g.Canary && nt == 1 {
			for _, o := range g.Instances {
				if !o.Claim.IsTrue() {
					if pq, dropped := prunedQuery(o); dropped {
						pr = Script([]*Term{pq}, nil, "", TS.Defs)
					}
				}
			}
		}
		jobs = append(jobs, job{g, script, gv, 0, pr, q})
	}
	var mu sync.Mutex
	par := opt.Par
	if par <= 0 {
		par = 8
	}
	sem := make(chan struct{}, par)
	var wg sync.WaitGroup
	for i, j := range jobs {
		wg.Add(1)
		sem <- struct{}{}
		go func(i int, j job) {
			defer wg.Done()
			defer func() { <-sem }()
			to := opt.Timeout
			if j.g.Canary {
				to = opt.Timeout / 2
				if to < 3*time.Second {
					to = 3 * time.Second
				}
			}
			if d := os.Getenv("GOVC_DUMPALL"); d != "" {
				os.WriteFile(fmt.Sprintf("%s/%s-%d.smt2", d, sanitize(j.g.Name), j.sub), []byte(j.script), 0o644)
				if j.pruned != "" {
					os.WriteFile(fmt.Sprintf("%s/%s-%d.pruned.smt2", d, sanitize(j.g.Name), j.sub), []byte(j.pruned), 0o644)
				}
			}
			var r SolverResult
			if j.pruned != "" {
				pt := to / 3
				if pt < 3*time.Second {
					pt = 3 * time.Second
				}
				r = Solve(j.pruned, pt, opt.Seed, fmt.Sprintf("q%dp", i), opt.NeedTwo)
				if r.Status == "unsat" {
					r.Solver += "[relevant-facts]"
				}
			}
			if r.Status != "unsat" {
				r2 := Solve(j.script, to, opt.Seed, fmt.Sprintf("q%d", i), opt.NeedTwo && !j.g.Canary)
				r2.Secs += r.Secs
				r = r2
			}
			if r.Status == "sat" && !j.g.Canary && j.q != nil {
				// look for a small counterexample (input sizes within the replay bound) and prefer it
				mu.Lock()
				b := replayBounds(j.g)
				var sc2 string
				if b != nil {
					sc2 = Script([]*Term{j.q, b}, j.gv, "", TS.Defs)
				}
				mu.Unlock()
				if sc2 != "" {
					r2 := Solve(sc2, 15*time.Second, opt.Seed, fmt.Sprintf("q%db", i), false)
					if r2.Status == "sat" {
						r.Output = r2.Output
					}
				}
			}
			var cand map[string]string
			var candOut string
			if r.Status != "unsat" && r.Status != "sat" && !j.g.Canary && j.q != nil && hasQuant(j.q) {
				// undecided with quantifiers: look for a CANDIDATE input in the quantifier-weakened query (only a replay
				// on the real code can turn it into a counterexample)
				mu.Lock()
				wq := weakenQuant(j.q, true)
				b := replayBounds(j.g)
				var sc2 string
				if b != nil {
					sc2 = Script([]*Term{wq, b}, j.gv, "", TS.Defs)
				} else {
					sc2 = Script([]*Term{wq}, j.gv, "", TS.Defs)
				}
				mu.Unlock()
				r2 := Solve(sc2, 10*time.Second, opt.Seed, fmt.Sprintf("q%dw", i), false)
				if r2.Status == "sat" {
					cand = parseModel(r2.Output, j.gv)
					candOut = r2.Output
				}
			}
			if j.sub > 0 {
				mu.Lock()
				defer mu.Unlock()
				g := j.g
				if cand != nil && g.Status != "failed" && g.Model == nil {
					g.Model, g.Candidate = cand, true
					_ = candOut
				}
				g.Secs += r.Secs
				g.Tried = append(g.Tried, r.Tried...)
				switch r.Status {
				case "unsat":
					if g.Solver == "" || !strings.Contains(g.Solver, r.Solver) {
						if g.Solver != "" {
							g.Solver += "+"
						}
						g.Solver += r.Solver
					}
				case "sat":
					g.Status = "failed"
					g.Solver = r.Solver
					g.RawOut = r.Output
					g.Model = parseModel(r.Output, j.gv)
					g.Script = j.script
				default:
					if g.Status != "failed" {
						g.Status = "unknown"
						g.RawOut = r.Output
						g.Script = j.script
						if os.Getenv("GOVC_KEEP") != "" {
							os.WriteFile(fmt.Sprintf("/tmp/govc-unknown-%s-%d.smt2", sanitize(g.Name), j.sub), []byte(j.script), 0o644)
						}
					}
				}
				return
			}
			j.g.Solver, j.g.Secs, j.g.Tried = r.Solver, r.Secs, r.Tried
			switch r.Status {
			case "unsat":
				if j.g.Canary {
					j.g.Status = "vacuous"
				} else {
					j.g.Status = "proved"
				}
			case "sat":
				if j.g.Canary {
					j.g.Status = "reachable"
				} else {
					j.g.Status = "failed"
					j.g.RawOut = r.Output
					j.g.Model = parseModel(r.Output, j.gv)
					j.g.Script = j.script
				}
			default:
				if j.g.Canary {
					j.g.Status = "reachable" // not refuted; recorded as undecided reachability
					j.g.Solver += "(undecided)"
				} else {
					j.g.Status = "unknown"
					j.g.RawOut = r.Output
					j.g.Script = j.script
					if cand != nil {
						j.g.Model, j.g.Candidate, j.g.RawOut = cand, true, candOut
					}
				}
			}
		}(i, j)
	}
	wg.Wait()
}

var modelPairRe = regexp.MustCompile(`^\s*\(?\((.+?)\s+(\(.*\)|\S+)\)\)?\s*$`)

// parseModel reads the (get-value ...) answer: one "(term value)" per line (z3, cvc5 print that way for short lists).
func parseModel(out string, gv []*Term) map[string]string {
	m := map[string]string{}
	if len(gv) == 0 {
		return m
	}
	idx := strings.Index(out, "\n")
	if idx < 0 {
		return m
	}
	body := strings.TrimSpace(out[idx+1:])
	// parse s-expression list of pairs
	toks := tokenizeSexp(body)
	pos := 0
	var parse func() interface{}
	parse = func() interface{} {
		if pos >= len(toks) {
			return nil
		}
		t := toks[pos]
		pos++
		if t == "(" {
			var l []interface{}
			for pos < len(toks) && toks[pos] != ")" {
				l = append(l, parse())
			}
			pos++
			return l
		}
		return t
	}
	root := parse()
	lst, ok := root.([]interface{})
	if !ok {
		return m
	}
	p := &printer{named: map[int]string{}}
	for i, pr := range lst {
		pair, ok := pr.([]interface{})
		if !ok || len(pair) != 2 || i >= len(gv) {
			continue
		}
		m[p.str(gv[i])] = sexpString(pair[1])
	}
	return m
}

func tokenizeSexp(s string) []string {
	var toks []string
	i := 0
	for i < len(s) {
		c := s[i]
		switch {
		case c == '(' || c == ')':
			toks = append(toks, string(c))
			i++
		case c == ' ' || c == '\n' || c == '\t' || c == '\r':
			i++
		case c == '|':
			j := i + 1
			for j < len(s) && s[j] != '|' {
				j++
			}
			toks = append(toks, s[i:j+1])
			i = j + 1
		case c == '"':
			j := i + 1
			for j < len(s) && s[j] != '"' {
				j++
			}
			toks = append(toks, s[i:j+1])
			i = j + 1
		default:
			j := i
			for j < len(s) && !strings.ContainsRune("() \n\t\r", rune(s[j])) {
				j++
			}
			toks = append(toks, s[i:j])
			i = j
		}
	}
	return toks
}

func sexpString(x interface{}) string {
	switch v := x.(type) {
	case string:
		return v
	case []interface{}:
		var ss []string
		for _, e := range v {
			ss = append(ss, sexpString(e))
		}
		return "(" + strings.Join(ss, " ") + ")"
	}
	return "?"
}

// modelInt converts an SMT value string to int64 when possible: 5, (- 5), #x0f, #b1, (_ bv5 8).
func modelInt(s string) (int64, bool) {
	s = strings.TrimSpace(s)
	var v int64
	if strings.HasPrefix(s, "(- ") {
		if _, err := fmt.Sscanf(s, "(- %d)", &v); err == nil {
			return -v, true
		}
	}
	if strings.HasPrefix(s, "#x") {
		var u uint64
		if _, err := fmt.Sscanf(s[2:], "%x", &u); err == nil {
			return int64(u), true
		}
	}
	if strings.HasPrefix(s, "#b") {
		var u uint64
		for _, ch := range s[2:] {
			u = u<<1 | uint64(ch-'0')
		}
		return int64(u), true
	}
	if strings.HasPrefix(s, "(_ bv") {
		var u uint64
		var w int
		if _, err := fmt.Sscanf(s, "(_ bv%d %d)", &u, &w); err == nil {
			return int64(u), true
		}
	}
	if _, err := fmt.Sscanf(s, "%d", &v); err == nil {
		return v, true
	}
	return 0, false
}

func sortedKeys(m map[string]string) []string {
	var ks []string
	for k := range m {
		ks = append(ks, k)
	}
	sort.Strings(ks)
	return ks
}

var hasQuantCache = map[int]bool{}
var hasQuantMu sync.Mutex

func hasQuant(t *Term) bool {
	hasQuantMu.Lock()
	defer hasQuantMu.Unlock()
	var rec func(t *Term) bool
	rec = func(t *Term) bool {
		if v, ok := hasQuantCache[t.id]; ok {
			return v
		}
		r := t.Op == "forall" || t.Op == "exists"
		if !r {
			for _, a := range t.Args {
				if rec(a) {
					r = true
					break
				}
			}
		}
		hasQuantCache[t.id] = r
		return r
	}
	return rec(t)
}

// replayBounds: sizes of the input slices / strings small enough to be rebuilt by the replay harness.
func replayBounds(g *ObGroup) *Term {
	for _, o := range g.Instances {
		c := o.Ctx
		if c == nil || len(c.ParamVals) == 0 {
			continue
		}
		var bs []*Term
		var walk func(v Value, depth int)
		walk = func(v Value, depth int) {
			if depth > 8 {
				return
			}
			switch x := v.(type) {
			case *StructV:
				for _, f := range x.F {
					walk(f, depth+1)
				}
			case PtrV:
				if x.Sym != nil {
					if ob, ok := c.InitSym[x.Sym.id]; ok {
						walk(c.initVals[ob], depth+1)
					}
				}
			case SliceV:
				if x.Heap {
					bs = append(bs, Cmp("<=", x.Len, c.idx(8), true), Cmp(">=", x.Len, c.idx(0), true))
					if _, isBasic := under(x.Elem).(*types.Basic); !isBasic && depth < 4 {
						st := c.scratchState()
						for i := 0; i < 8; i++ {
							func() {
								defer func() { recover() }()
								walk(c.heapRead(st, x.Elem, x.Ref, Arith("+", x.Off, c.idx(int64(i))), nil), depth+2)
							}()
						}
					}
				}
			case StrV:
				if x.Arr != nil && x.Len != nil {
					bs = append(bs, Cmp("<=", x.Len, c.idx(12), true))
				}
			}
		}
		for _, v := range c.ParamVals {
			walk(v, 0)
		}
		if len(bs) == 0 {
			return nil
		}
		return And(bs...)
	}
	return nil
}
