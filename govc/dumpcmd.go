package main

import (
	"fmt"
	"os"
)

func cmdDump(args []string) int {
	e, err := LoadEngine(devPatterns())
	if err != nil {
		fmt.Println(err)
		return 3
	}
	for _, a := range args {
		fn := e.FindFunc(expandKey(a))
		if fn == nil {
			fmt.Println("not found", a)
			continue
		}
		fn.WriteTo(os.Stdout)
		pd := postDominators(fn)
		for _, b := range fn.Blocks {
			if j := pd.ipdom[b]; j != nil {
				fmt.Printf("ipdom(b%d) = b%d\n", b.Index, j.Index)
			}
		}
	}
	return 0
}

func cmdEvalGoto(args []string) int {
	e, err := LoadEngine([]string{".", "./terminfo", "./views", "./terminfo/base", "./terminfo/extended"}, nil)
	if err != nil {
		fmt.Println(err)
		return 3
	}
	db := LoadTermDB(e, true)
	te := db.ByName[args[0]]
	c := db.Ev.C
	col, row := symInt(c, "col"), symInt(c, "row")
	real, err := evalMethod(db, te, "TGoto", []Value{col, row})
	fmt.Println(err)
	for _, r := range real {
		fmt.Println(showValue(r.Out))
	}
	return 0
}

func cmdEvalColor(args []string) int {
	e, _ := LoadEngine([]string{".", "./terminfo", "./views", "./terminfo/base", "./terminfo/extended"}, nil)
	db := LoadTermDB(e, true)
	te := db.ByName[args[0]]
	c := db.Ev.C
	fi, bi := symInt(c, "fi"), symInt(c, "bi")
	real, err := evalMethod(db, te, "TColor", []Value{fi, bi})
	fmt.Println(err, len(real))
	for _, r := range real {
		fmt.Println(showValue(r.Out), "  PC tail:", r.PC[len(r.PC)-3:])
	}
	for _, rp := range RefTParm(c, db.St, db.str(te, "SetFg"), []refVal{{I: fi}}) {
		fmt.Println("ref:", showValue(rp.Out), rp.Cond, rp.Undef)
	}
	return 0
}

func cmdEvalLookup(args []string) int {
	e, _ := LoadEngine([]string{".", "./terminfo", "./views", "./terminfo/base", "./terminfo/extended"}, nil)
	db := LoadTermDB(e, true)
	fn := e.FindFunc(modPath + "/terminfo.LookupTerminfo")
	st := db.St.clone()
	st.Frames = nil
	traceFlag = true
	paths, err := db.Ev.Call(st, fn, []Value{conc(args[0])})
	fmt.Println(err, len(paths))
	return 0
}
