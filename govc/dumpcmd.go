package main

import (
	"fmt"
	"os"
)

func cmdDump(args []string) int {
	e, err := LoadEngine([]string{".", "./terminfo", "./views"}, nil)
	if err != nil {
		fmt.Println(err)
		return 3
	}
	for _, a := range args {
		fn := e.FindFunc(expandKey(a))
		if fn == nil {
			fmt.Println("not found", a)
			continue
		}
		fn.WriteTo(os.Stdout)
		pd := postDominators(fn)
		for _, b := range fn.Blocks {
			if j := pd.ipdom[b]; j != nil {
				fmt.Printf("ipdom(b%d) = b%d\n", b.Index, j.Index)
			}
		}
	}
	return 0
}
