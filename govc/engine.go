package main

// Engine: loads /repo (working tree) with go/packages, builds go/ssa, finds functions, loops.

import (
	"fmt"
	"go/token"
	"go/types"
	"os"
	"path/filepath"
	"sort"
	"strings"

	"golang.org/x/tools/go/packages"
	"golang.org/x/tools/go/ssa"
	"golang.org/x/tools/go/ssa/ssautil"
)

type Engine struct {
	Repo   string
	Fset   *token.FileSet
	Pkgs   []*packages.Package
	PkgBy  map[string]*packages.Package
	Prog   *ssa.Program
	SPkgs  map[string]*ssa.Package
	Specs  *SpecSet
	Module string
	GOOS   string
	loops  map[*ssa.Function]*LoopInfo
	lits   map[*types.Var]Value
	Errors []string
	gwritten map[*ssa.Global]bool
}

func repoDir() string {
	if d := os.Getenv("VERIF_REPO"); d != "" {
		return d
	}
	return "/repo"
}

func verifDir() string {
	if d := os.Getenv("VERIF_DIR"); d != "" {
		return d
	}
	return "/verif"
}

// LoadEngine loads the given package patterns. env extras e.g. GOOS=js GOARCH=wasm.
func LoadEngine(patterns []string, extraEnv []string) (*Engine, error) {
	repo := repoDir()
	env := append(os.Environ(), "GOFLAGS=-mod=mod", "GOPROXY=off", "GOSUMDB=off", "GOTOOLCHAIN=local")
	env = append(env, extraEnv...)
	cfg := &packages.Config{
		Mode:       packages.LoadAllSyntax,
		Dir:        repo,
		BuildFlags: []string{"-tags=verif"},
		Env:        env,
	}
	pkgs, err := packages.Load(cfg, patterns...)
	if err != nil {
		return nil, err
	}
	e := &Engine{Repo: repo, PkgBy: map[string]*packages.Package{}, SPkgs: map[string]*ssa.Package{}, loops: map[*ssa.Function]*LoopInfo{}, lits: map[*types.Var]Value{}}
	for _, p := range pkgs {
		for _, pe := range p.Errors {
			e.Errors = append(e.Errors, pe.Error())
		}
	}
	if len(pkgs) > 0 {
		e.Fset = pkgs[0].Fset
	}
	e.Pkgs = pkgs
	prog, spkgs := ssautil.AllPackages(pkgs, ssa.GlobalDebug)
	prog.Build()
	e.Prog = prog
	for i, sp := range spkgs {
		if sp != nil {
			e.SPkgs[pkgs[i].PkgPath] = sp
		}
		e.PkgBy[pkgs[i].PkgPath] = pkgs[i]
	}
	// all dependencies too
	packages.Visit(pkgs, nil, func(p *packages.Package) {
		if _, ok := e.PkgBy[p.PkgPath]; !ok {
			e.PkgBy[p.PkgPath] = p
		}
	})
	for _, sp := range prog.AllPackages() {
		if _, ok := e.SPkgs[sp.Pkg.Path()]; !ok {
			e.SPkgs[sp.Pkg.Path()] = sp
		}
	}
	// specs
	dirs := map[string]string{}
	for _, p := range pkgs {
		if len(p.GoFiles) > 0 {
			dirs[p.PkgPath] = filepath.Dir(p.GoFiles[0])
		} else if len(p.IgnoredFiles) > 0 {
			dirs[p.PkgPath] = filepath.Dir(p.IgnoredFiles[0])
		}
	}
	ss, err := LoadRepoSpecs(dirs, filepath.Join(verifDir(), "spec", "trusted"))
	if err != nil {
		return nil, err
	}
	e.Specs = ss
	return e, nil
}

// funcKey renders the contract key of a function: "(*T).M", "T.M" or "F".
func funcKey(fn *ssa.Function) string {
	if fn.Signature.Recv() != nil {
		rt := fn.Signature.Recv().Type()
		if p, ok := rt.(*types.Pointer); ok {
			if n, ok := p.Elem().(*types.Named); ok {
				return "(*" + n.Obj().Name() + ")." + fn.Name()
			}
		}
		if n, ok := rt.(*types.Named); ok {
			return n.Obj().Name() + "." + fn.Name()
		}
	}
	return fn.Name()
}

func fullKey(fn *ssa.Function) string {
	if fn.Pkg == nil {
		if fn.Object() != nil && fn.Object().Pkg() != nil {
			return fn.Object().Pkg().Path() + "." + funcKey(fn)
		}
		return funcKey(fn)
	}
	return fn.Pkg.Pkg.Path() + "." + funcKey(fn)
}

// FindFunc resolves "pkgpath.(*T).M".
func (e *Engine) FindFunc(full string) *ssa.Function {
	// split pkg path from key: the key starts at the last '.' that is followed by '(' or at last '.' segment
	for path, sp := range e.SPkgs {
		if !strings.HasPrefix(full, path+".") {
			continue
		}
		key := full[len(path)+1:]
		if strings.HasPrefix(key, "(*") {
			i := strings.Index(key, ").")
			if i < 0 {
				continue
			}
			tn, mn := key[2:i], key[i+2:]
			if t := sp.Type(tn); t != nil {
				ms := e.Prog.MethodSets.MethodSet(types.NewPointer(t.Type()))
				if sel := ms.Lookup(sp.Pkg, mn); sel != nil {
					return e.Prog.MethodValue(sel)
				}
			}
			continue
		}
		if i := strings.Index(key, "."); i > 0 {
			tn, mn := key[:i], key[i+1:]
			if t := sp.Type(tn); t != nil {
				ms := e.Prog.MethodSets.MethodSet(t.Type())
				if sel := ms.Lookup(sp.Pkg, mn); sel != nil {
					return e.Prog.MethodValue(sel)
				}
			}
			continue
		}
		if f := sp.Func(key); f != nil {
			return f
		}
	}
	return nil
}

func (e *Engine) SpecFor(fn *ssa.Function) *FuncSpec {
	if fn == nil {
		return nil
	}
	return e.Specs.Funcs[fullKey(fn)]
}

// ---- loops ----

type Loop struct {
	Header *ssa.BasicBlock
	Blocks map[*ssa.BasicBlock]bool
	Parent *Loop
	ID     string
	Pos    token.Pos
	kids   []*Loop
}

type LoopInfo struct {
	ByHeader map[*ssa.BasicBlock]*Loop
	Loops    []*Loop
}

func (e *Engine) LoopsOf(fn *ssa.Function) *LoopInfo {
	if li, ok := e.loops[fn]; ok {
		return li
	}
	li := &LoopInfo{ByHeader: map[*ssa.BasicBlock]*Loop{}}
	e.loops[fn] = li
	if len(fn.Blocks) == 0 {
		return li
	}
	// back edges: u -> h with h dominating u
	for _, u := range fn.Blocks {
		for _, h := range u.Succs {
			if h.Dominates(u) {
				l := li.ByHeader[h]
				if l == nil {
					l = &Loop{Header: h, Blocks: map[*ssa.BasicBlock]bool{h: true}}
					li.ByHeader[h] = l
					li.Loops = append(li.Loops, l)
				}
				// natural loop body: nodes that reach u without passing h
				stack := []*ssa.BasicBlock{u}
				for len(stack) > 0 {
					b := stack[len(stack)-1]
					stack = stack[:len(stack)-1]
					if l.Blocks[b] {
						continue
					}
					l.Blocks[b] = true
					for _, p := range b.Preds {
						stack = append(stack, p)
					}
				}
			}
		}
	}
	// positions
	for _, l := range li.Loops {
		min := token.Pos(0)
		for b := range l.Blocks {
			for _, in := range b.Instrs {
				if p := in.Pos(); p.IsValid() && (min == 0 || p < min) {
					min = p
				}
				if dr, ok := in.(*ssa.DebugRef); ok {
					if p := dr.Expr.Pos(); p.IsValid() && (min == 0 || p < min) {
						min = p
					}
				}
			}
		}
		l.Pos = min
	}
	// nesting
	for _, l := range li.Loops {
		var best *Loop
		for _, m := range li.Loops {
			if m == l || !m.Blocks[l.Header] || len(m.Blocks) <= len(l.Blocks) {
				continue
			}
			if best == nil || len(m.Blocks) < len(best.Blocks) {
				best = m
			}
		}
		l.Parent = best
	}
	var tops []*Loop
	for _, l := range li.Loops {
		if l.Parent == nil {
			tops = append(tops, l)
		} else {
			l.Parent.kids = append(l.Parent.kids, l)
		}
	}
	var number func(ls []*Loop, prefix string)
	number = func(ls []*Loop, prefix string) {
		sort.Slice(ls, func(i, j int) bool { return ls[i].Pos < ls[j].Pos })
		for i, l := range ls {
			l.ID = fmt.Sprintf("%s%d", prefix, i+1)
			number(l.kids, l.ID+".")
		}
	}
	number(tops, "")
	return li
}

func (e *Engine) posStr(p token.Pos) string {
	if !p.IsValid() || e.Fset == nil {
		return ""
	}
	ps := e.Fset.Position(p)
	return fmt.Sprintf("%s:%d", filepath.Base(ps.Filename), ps.Line)
}
