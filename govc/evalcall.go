package main

// EV mode entry: run a real function of the repository on given (concrete-shaped, possibly
// symbolic-leaved) arguments and collect every returning path with its path condition.

import (
	"fmt"

	"golang.org/x/tools/go/ssa"
)

type EvalPath struct {
	PC  []*Term
	Ret Value
	St  *State
}

type Evaluator struct {
	C   *Ctx
	Eng *Engine
}

func (e *Engine) NewEvaluator(bv bool, nameForObs string) *Evaluator {
	sp := &FuncSpec{Arith: "math", Loops: map[string]*LoopSpec{}, Opts: map[string]string{}}
	if bv {
		sp.Arith = "bv"
	}
	c := NewCtx(e, nil, sp)
	c.initVals = map[*Object]Value{}
	c.globals = map[*ssa.Global]*Object{}
	c.alloc0 = Var("alloc0", IntSort)
	c.InlineAll = true
	c.NoMerge = true // ropes and concrete-shaped data stay per path
	return &Evaluator{C: c, Eng: e}
}

func (ev *Evaluator) NewState() *State {
	st := &State{Mem: map[*Object]Value{}, Heap: map[string]*Term{}, Ghost: map[string]Value{}, SymObjs: map[int]*Object{}, pcSeen: map[int]bool{}}
	st.Alloc = ev.C.alloc0
	st.assume(Cmp(">=", ev.C.alloc0, IntC(1), true))
	ev.C.curState = st
	return st
}

// Call runs fn(args) from state st (which is consumed). Safety obligations raised during the
// evaluation are appended to ev.C.Obs under the name prefix of fn.
func (ev *Evaluator) Call(st *State, fn *ssa.Function, args []Value) (paths []EvalPath, err error) {
	c := ev.C
	defer func() {
		if r := recover(); r != nil {
			if ve, ok := r.(VerErr); ok {
				err = fmt.Errorf("%s", ve.Msg)
				return
			}
			if _, ok := r.(pathDead); ok {
				err = fmt.Errorf("internal: stray pathDead")
				return
			}
			if traceFlag {
				panic(r)
			}
			err = fmt.Errorf("INTERNAL: %v", r)
		}
	}()
	c.Fn = fn
	if len(fn.Blocks) == 0 {
		return nil, fmt.Errorf("function %s has no body", fn)
	}
	if len(args) != len(fn.Params) {
		return nil, fmt.Errorf("arity mismatch calling %s", fn)
	}
	fr := &Frame{Fn: fn, Env: map[ssa.Value]Value{}, Block: fn.Blocks[0], Params: map[string]Value{}, Spec: c.Eng.SpecFor(fn)}
	for i, p := range fn.Params {
		fr.Env[p] = args[i]
		fr.Params[p.Name()] = args[i]
	}
	st.Frames = []*Frame{fr}
	if st.PathID == 0 {
		st.PathID = c.newPathID()
	}
	fr.Old = st.snapshot()
	c.run(st, func(s *State, ret Value) {
		paths = append(paths, EvalPath{PC: append([]*Term(nil), s.PC...), Ret: ret, St: s})
	})
	return paths, nil
}
