package main

// Symbolic executor over go/ssa.  Path-forking; loops with invariants are cut at the header,
// loops without invariants are executed (their guards must fold or the path budget is exceeded).

import (
	"time"
	"fmt"
	"go/constant"
	"go/token"
	"go/types"
	"math/big"
	"sort"
	"strings"

	"golang.org/x/tools/go/ssa"
)

func NewCtx(e *Engine, fn *ssa.Function, spec *FuncSpec) *Ctx {
	c := &Ctx{Eng: e, Fn: fn, Spec: spec, Assumed: map[string]bool{}, Inlined: map[string]bool{}, UsedSpecs: map[string]bool{},
		instName: map[ssa.Instruction]string{}, maxPaths: 20000, maxSteps: 400000, Trace: traceFlag, InitSym: map[int]*Object{}}
	fpAbstract = false
	if spec != nil {
		c.BV = spec.Arith == "bv"
		c.FP = spec.Float == "fp" || spec.Float == "fpuf"
		fpAbstract = spec.Float == "fpuf"
	}
	return c
}

// instrName gives a stable name to an instruction: kind#ordinal within its function.
func (c *Ctx) instrName(in ssa.Instruction, kind string) string {
	if n, ok := c.instName[in]; ok {
		return n
	}
	fn := in.Parent()
	cnt := map[string]int{}
	for _, b := range fn.Blocks {
		for _, i := range b.Instrs {
			k := instrKind(i)
			if k == "" {
				continue
			}
			cnt[k]++
			c.instName[i] = fmt.Sprintf("%s#%d", k, cnt[k])
		}
	}
	if n, ok := c.instName[in]; ok {
		return n
	}
	return kind + "#?"
}

func instrKind(i ssa.Instruction) string {
	switch x := i.(type) {
	case *ssa.IndexAddr, *ssa.Index:
		return "index"
	case *ssa.Slice:
		return "slice"
	case *ssa.FieldAddr:
		return "fieldaddr"
	case *ssa.UnOp:
		if x.Op == token.MUL {
			return "load"
		}
		if x.Op == token.ARROW {
			return "recv"
		}
	case *ssa.Store:
		return "store"
	case *ssa.BinOp:
		if x.Op == token.QUO || x.Op == token.REM {
			return "div"
		}
		if x.Op == token.SHL || x.Op == token.SHR {
			return "shift"
		}
	case *ssa.TypeAssert:
		return "typeassert"
	case *ssa.Panic:
		return "panic"
	case *ssa.Call:
		return "call"
	case *ssa.MakeSlice:
		return "makeslice"
	case *ssa.MapUpdate:
		return "mapupdate"
	case *ssa.Convert:
		return "convert"
	case *ssa.Send:
		return "send"
	case *ssa.Select:
		return "select"
	case *ssa.Go:
		return "go"
	case *ssa.Defer:
		return "defer"
	case *ssa.Lookup:
		return "lookup"
	}
	return ""
}

func fnDisplay(fn *ssa.Function) string {
	if fn.Pkg != nil {
		return fn.Pkg.Pkg.Name() + "." + funcKey(fn)
	}
	return fn.String()
}

// oblige records an obligation instance on the current path.
func (c *Ctx) oblige(st *State, name, kind string, claim *Term, src string, pos token.Pos) {
	if st.Disc != nil {
		return
	}
	if (kind == "ensures" || strings.HasPrefix(kind, "invariant") || kind == "calls" || kind == "lemma") && !c.noSplit(name) {
		if parts := splitClaim(claim); len(parts) > 1 {
			// the parts are separate proof instances of the same named obligation (stable names under refactoring)
			for _, p := range parts {
				c.oblige1(st, name, kind, p, src, pos)
			}
			return
		}
	}
	c.oblige1(st, name, kind, claim, src, pos)
}

// noSplit: `opt nosplit l1,l2` keeps the clauses with these labels as single proof instances (whole-struct frame
// clauses proved from an assumption of the same shape are one cheap query; split per leaf they are dozens).
func (c *Ctx) noSplit(name string) bool {
	if c.Spec == nil || c.Spec.Opts["nosplit"] == "" {
		return false
	}
	i := strings.LastIndex(name, "#")
	if i < 0 {
		return false
	}
	for _, l := range strings.Split(c.Spec.Opts["nosplit"], ",") {
		if strings.TrimSpace(l) == name[i+1:] {
			return true
		}
	}
	return false
}

// splitClaim splits conjunctions (also under one universal quantifier and under implications) into separate claims.
func splitClaim(t *Term) []*Term {
	switch t.Op {
	case "and":
		var out []*Term
		for _, a := range t.Args {
			out = append(out, splitClaim(a)...)
		}
		return out
	case "=>":
		ps := splitClaim(t.Args[1])
		if len(ps) <= 1 {
			return []*Term{t}
		}
		var out []*Term
		for _, p := range ps {
			out = append(out, Implies(t.Args[0], p))
		}
		return out
	case "forall":
		ps := splitClaim(t.Args[0])
		if len(ps) <= 1 {
			return []*Term{t}
		}
		var out []*Term
		for _, p := range ps {
			out = append(out, TS.intern(&Term{Op: "forall", Sort: BoolSort, Args: []*Term{p}, Bound: t.Bound, Pats: filterPats(t.Pats, p)}))
		}
		return out
	}
	return []*Term{t}
}

// filterPats keeps the patterns whose terms occur in body.
func filterPats(pats [][]*Term, body *Term) [][]*Term {
	if len(pats) == 0 {
		return nil
	}
	occ := map[int]bool{}
	var walk func(t *Term)
	walk = func(t *Term) {
		if occ[t.id] {
			return
		}
		occ[t.id] = true
		for _, a := range t.Args {
			walk(a)
		}
	}
	walk(body)
	var out [][]*Term
	for _, p := range pats {
		ok := true
		for _, t := range p {
			if !occ[t.id] {
				ok = false
			}
		}
		if ok {
			out = append(out, p)
		}
	}
	return out
}

func (c *Ctx) oblige1(st *State, name, kind string, claim *Term, src string, pos token.Pos) {
	if claim.IsTrue() {
		// still count it: trivially discharged
		c.Obs = append(c.Obs, &Obligation{Name: name, Kind: kind, Fn: fnDisplay(c.Fn), Claim: claim, Src: src, Pos: c.Eng.posStr(pos), Path: st.PathID, Ctx: c})
		return
	}
	c.Obs = append(c.Obs, &Obligation{Name: name, Kind: kind, Fn: fnDisplay(c.Fn), PC: c.visiblePC(st.PC, name), Claim: claim, Src: src, Pos: c.Eng.posStr(pos), Path: st.PathID, Ctx: c})
}

// `opt isolate inv l1 l2 ...`: the loop invariant labelled inv is an assumption only for the obligations labelled inv,
// l1, l2, ... (its own preservation and the clauses that need it).  Every other obligation is proved WITHOUT it -
// from fewer assumptions, which is sound - so that an invariant added for one clause cannot slow down or destabilise
// the proofs of the others.
func (c *Ctx) isolatedInv(label string) bool {
	if c.Spec == nil || label == "" {
		return false
	}
	f := strings.Fields(c.Spec.Opts["isolate"])
	return len(f) > 0 && f[0] == label
}

func (c *Ctx) markIsolated(t *Term, label string) {
	if c.isolated == nil {
		c.isolated = map[int]string{}
	}
	if t.Op == "and" {
		for _, a := range t.Args {
			c.markIsolated(a, label)
		}
		return
	}
	c.isolated[t.id] = label
}

func (c *Ctx) visiblePC(pc []*Term, name string) []*Term {
	out := append([]*Term(nil), pc...)
	if len(c.isolated) == 0 {
		return out
	}
	lbl := ""
	if i := strings.LastIndex(name, "#"); i >= 0 {
		lbl = name[i+1:]
	}
	for _, l := range strings.Fields(c.Spec.Opts["isolate"]) {
		if l == lbl {
			return out
		}
	}
	out = out[:0]
	for _, f := range pc {
		if _, iso := c.isolated[f.id]; !iso {
			out = append(out, f)
		}
	}
	return out
}

// safety obligation attached to an instruction
func (c *Ctx) safety(st *State, in ssa.Instruction, what string, claim *Term) {
	fr := st.top()
	prefix := fnDisplay(c.Fn)
	if fr.Fn != c.Fn {
		prefix += "/in:" + fnDisplay(fr.Fn)
	}
	name := fmt.Sprintf("%s/%s:%s", prefix, what, c.instrName(in, what))
	c.oblige(st, name, "safety:"+what, claim, "", in.Pos())
	// continue under the assumption that the check passed (standard: report once)
	st.assume(claim)
}

// ---- running ----

type pathEnd struct {
	st   *State
	kind string // return | backedge | panic | unreachable
}

// RunFunction symbolically executes fn from the initial state; onReturn is called for each path that returns from the top frame.
func (c *Ctx) run(st *State, onReturn func(st *State, ret Value)) {
	work := []*State{st}
	for len(work) > 0 {
		cur := work[len(work)-1]
		work = work[:len(work)-1]
		c.Paths++
		if c.Paths > c.maxPaths {
			panic(VerErr{fmt.Sprintf("PATH-BUDGET: more than %d paths in %s", c.maxPaths, fnDisplay(c.Fn))})
		}
		for {
			forks, done := c.step(cur, onReturn)
			if len(forks) > 0 {
				work = append(work, forks...)
			}
			if done {
				break
			}
		}
	}
}

func (c *Ctx) newPathID() int { c.paths++; return c.paths }

// step executes one instruction of the top frame. Returns forked states and whether this path ended.
func (c *Ctx) step(st *State, onReturn func(st *State, ret Value)) (forks []*State, done bool) {
	st.Steps++
	if st.Steps > c.maxSteps {
		panic(VerErr{fmt.Sprintf("STEP-BUDGET: path exceeds %d steps in %s (loop without invariant whose guard does not fold?)", c.maxSteps, fnDisplay(c.Fn))})
	}
	fr := st.top()
	if fr.PC >= len(fr.Block.Instrs) {
		panic(VerErr{"fell off block end in " + fr.Fn.String()})
	}
	in := fr.Block.Instrs[fr.PC]
	fr.PC++
	if c.Trace {
		fmt.Printf("[p%d d%d b%d] %s\n", st.PathID, len(st.Frames), fr.Block.Index, instrString(in))
	}
	switch x := in.(type) {
	case *ssa.DebugRef:
		return nil, false
	case *ssa.If:
		cond := c.val(st, x.Cond).(*Term)
		tb, fb := fr.Block.Succs[0], fr.Block.Succs[1]
		if cond.IsTrue() {
			return nil, c.enterBlock(st, tb)
		}
		if cond.IsFalse() {
			return nil, c.enterBlock(st, fb)
		}
		if st.pcKnows(cond) {
			return nil, c.enterBlock(st, tb)
		}
		if st.pcKnows(Not(cond)) {
			return nil, c.enterBlock(st, fb)
		}
		if c.Spec != nil && c.Spec.Opts["prune"] != "" && st.Disc == nil {
			// `opt prune on`: ask a solver whether each branch is feasible at all (only a proof of infeasibility prunes)
			if c.branchInfeasible(st, cond) {
				return nil, c.enterBlock(st, fb)
			}
			if c.branchInfeasible(st, Not(cond)) {
				return nil, c.enterBlock(st, tb)
			}
		}
		other := st.clone()
		other.PathID = c.newPathID()
		st.assume(cond)
		other.assume(Not(cond))
		if j := c.mergePoint(fr, fr.Block); j != nil {
			depth := len(st.Frames)
			var arrivals []*State
			if !c.enterBlock(st, tb) {
				arrivals = append(arrivals, c.runUntil(st, depth, j, onReturn)...)
			}
			c.Paths++
			if !c.enterBlock(other, fb) {
				arrivals = append(arrivals, c.runUntil(other, depth, j, onReturn)...)
			}
			if len(arrivals) == 0 {
				return nil, true
			}
			merged := c.mergeStates(arrivals)
			// continue with the first state in place of st
			*st = *merged[0]
			return merged[1:], false
		}
		d1 := c.enterBlock(st, tb)
		d2 := c.enterBlock(other, fb)
		if !d2 {
			forks = append(forks, other)
		}
		return forks, d1
	case *ssa.Jump:
		return nil, c.enterBlock(st, fr.Block.Succs[0])
	case *ssa.Return:
		var ret Value
		switch len(x.Results) {
		case 0:
			ret = nil
		case 1:
			ret = c.val(st, x.Results[0])
		default:
			tv := &TupleV{}
			for _, r := range x.Results {
				tv.V = append(tv.V, c.val(st, r))
			}
			ret = tv
		}
		return nil, c.doReturn(st, ret, onReturn)
	case *ssa.Panic:
		// explicit panic: reaching it is a violation unless the contract allows it
		c.safety(st, in, "panic-unreachable", False())
		return nil, true
	case *ssa.RunDefers:
		return c.runDefers(st, onReturn)
	case *ssa.Call:
		return c.doCall(st, x, x.Common(), x, onReturn)
	case *ssa.Defer:
		fr.Defers = append(fr.Defers, c.mkDeferred(st, x))
		return nil, false
	case *ssa.Go:
		c.ghostSpawn(st, x)
		return nil, false
	case *ssa.Select:
		return c.doSelect(st, x)
	case *ssa.Send:
		return c.doSend(st, x)
	default:
		fs, d := c.execSimple(st, in)
		return fs, d
	}
}

func instrString(in ssa.Instruction) string {
	if v, ok := in.(ssa.Value); ok {
		return v.Name() + " = " + in.String()
	}
	return in.String()
}

// enterBlock transfers control to block b (from the current block), handling phis and loop cuts.
// Returns true if the path ended (back edge of a cut loop).
func (c *Ctx) enterBlock(st *State, b *ssa.BasicBlock) bool {
	fr := st.top()
	prev := fr.Block
	li := c.Eng.LoopsOf(fr.Fn)
	loop := li.ByHeader[b]
	// evaluate phis w.r.t. the edge prev->b
	edge := -1
	for i, p := range b.Preds {
		if p == prev {
			edge = i
			break
		}
	}
	var phis []*ssa.Phi
	var pvals []Value
	for _, in := range b.Instrs {
		ph, ok := in.(*ssa.Phi)
		if !ok {
			break
		}
		phis = append(phis, ph)
		pvals = append(pvals, c.val(st, ph.Edges[edge]))
	}
	setPhis := func() {
		// ghost updates on exit edges of cut loops run with the values of the iteration being left
		for i := len(st.Loops) - 1; i >= 0; i-- {
			al := st.Loops[i]
			if al.Frame != len(st.Frames) || al.L == nil || al.L.Blocks[b] {
				break
			}
			c.ghostAt(st, fr, "loop-exit:"+al.ID, al.L)
			// "done": control reaches the statement after the loop (condition false - also a compound condition,
			// whose later tests sit in further blocks - or break), as opposed to return / continue of an outer loop
			for _, sx := range al.L.Header.Succs {
				if !al.L.Blocks[sx] && sx == b {
					c.ghostAt(st, fr, "loop-done:"+al.ID, al.L)
				}
			}
		}
		for i, ph := range phis {
			fr.Env[ph] = pvals[i]
		}
		fr.Prev = prev
		fr.Block = b
		fr.PC = len(phis)
		// leaving cut loops of this frame: their write-set checks no longer apply
		for len(st.Loops) > 0 {
			al := st.Loops[len(st.Loops)-1]
			if al.Frame != len(st.Frames) || al.L == nil || al.L.Blocks[b] {
				break
			}
			st.LastLoop = al.L
			st.Loops = st.Loops[:len(st.Loops)-1]
			st.Record = st.Record[:len(st.Record)-1]
		}
	}
	if loop == nil {
		setPhis()
		return false
	}
	ls := c.loopSpec(fr, loop)
	if ls == nil {
		// evaluation rule: just execute
		setPhis()
		return false
	}
	fromInside := loop.Blocks[prev]
	if fromInside {
		// back edge: find the active loop record
		var al *ActiveLoop
		for i := len(st.Loops) - 1; i >= 0; i-- {
			if st.Loops[i].Header == b && st.Loops[i].Frame == len(st.Frames) {
				al = st.Loops[i]
				break
			}
		}
		if al == nil {
			if st.Disc != nil {
				setPhis()
				c.ghostAt(st, fr, "loop-end:"+loop.ID, loop) // records the ghost variables the loop writes
				return true
			}
			panic(VerErr{"back edge without active loop record in " + fr.Fn.String()})
		}
		setPhis()
		if st.Disc == nil {
			// the iteration's calls are judged with the ghost values the iteration ran with
			c.checkCalls(st, fr, "loop "+loop.ID+" back edge")
			c.checkCountedCalls(st, fr, loop, al)
		}
		c.ghostAt(st, fr, "loop-end:"+loop.ID, loop)
		if st.Disc != nil {
			return true
		}
		c.checkInvariant(st, fr, loop, ls, "preserved", al)
		c.EndedPaths++
		return true
	}
	// entry edge
	setPhis()
	c.ghostAt(st, fr, "loop-entry:"+loop.ID, loop)
	if st.Disc == nil {
		c.checkInvariant(st, fr, loop, ls, "entry", nil)
	}
	// earlier iterations may have allocated: the allocation mark at the head of an arbitrary iteration is some
	// value at or above the mark at loop entry (fresh references of this iteration and after the loop must not
	// coincide with references allocated by earlier iterations)
	{
		na := Fresh("alloc.loop"+loop.ID, IntSort)
		st.assume(Cmp(">=", na, st.Alloc, true))
		st.Alloc = na
	}
	// discover the write set of the loop body, then havoc
	ws := c.discoverWrites(st, fr, loop, phis)
	al := &ActiveLoop{L: loop, Header: b, Frame: len(st.Frames), Entry: st.snapshot(), Spec: ls, ID: loop.ID, Written: ws, LogLen: len(st.CallLog), AllocMark: st.Alloc, ObjMark: c.nobj}
	c.havocPhis(st, fr, phis)
	c.havocWrites(st, ws)
	st.Loops = append(st.Loops, al)
	st.Record = append(st.Record, ws)
	st.CutLoops++
	// assume invariant
	env := c.specEnvFor(st, fr)
	env.atLoop = loop
	for _, inv := range ls.Invariants {
		t := c.evalBool(env, inv.Expr)
		if c.isolatedInv(inv.Label) {
			c.markIsolated(t, inv.Label)
		}
		st.assume(t)
	}
	if ls.Decreases != nil {
		v := c.evalTerm(env, ls.Decreases)
		al.Variant = v
	}
	return false
}

func (c *Ctx) loopSpec(fr *Frame, l *Loop) *LoopSpec {
	if c.InlineAll {
		return nil // evaluation rule: loops are executed, never cut, whatever contracts the functions carry
	}
	sp := fr.Spec
	if sp == nil {
		sp = c.Eng.SpecFor(fr.Fn)
	}
	if sp == nil {
		return nil
	}
	return sp.Loops[l.ID]
}

func (c *Ctx) checkInvariant(st *State, fr *Frame, loop *Loop, ls *LoopSpec, when string, al *ActiveLoop) {
	env := c.specEnvFor(st, fr)
	env.atLoop = loop
	base := fnDisplay(c.Fn)
	if fr.Fn != c.Fn {
		base += "/in:" + fnDisplay(fr.Fn)
	}
	for i, inv := range ls.Invariants {
		t := c.evalBool(env, inv.Expr)
		lbl := inv.Label
		if lbl == "" {
			lbl = fmt.Sprint(i + 1)
		}
		c.oblige(st, fmt.Sprintf("%s/loop%s/invariant-%s#%s", base, loop.ID, when, lbl), "invariant-"+when, t, inv.Src, loop.Pos)
	}
	if when == "preserved" && ls.Decreases != nil && al != nil && al.Variant != nil {
		v := c.evalTerm(env, ls.Decreases)
		zero := NumC(big.NewInt(0), v.Sort)
		c.oblige(st, fmt.Sprintf("%s/loop%s/decreases", base, loop.ID), "decreases",
			And(Cmp("<", v, al.Variant, true), Cmp(">=", al.Variant, zero, true)), ls.Decreases.String(), loop.Pos)
	}
}

func (c *Ctx) havocPhis(st *State, fr *Frame, phis []*ssa.Phi) {
	for _, ph := range phis {
		fr.Env[ph] = c.symbolic(st, ph.Type(), "loop."+ph.Comment)
	}
}

func (c *Ctx) havocWrites(st *State, ws *WriteSet) {
	var keys []string
	for k := range ws.ObjPaths {
		keys = append(keys, k)
	}
	sort.Strings(keys)
	for _, k := range keys {
		op := ws.ObjPaths[k]
		cur, ok := st.Mem[op.Obj]
		if !ok {
			continue
		}
		// type at path
		t := op.Obj.Typ
		for _, p := range op.Path {
			switch u := under(t).(type) {
			case *types.Struct:
				t = u.Field(p).Type()
			case *types.Array:
				t = u.Elem()
			}
		}
		var pes []PathElem
		for _, p := range op.Path {
			pes = append(pes, PathElem{Field: p})
		}
		if _, isMap := cur.(*MapObj); isMap {
			st.Mem[op.Obj] = &MapObj{Abstract: true, Tag: c.freshName("havoc.map")}
			continue
		}
		st.Mem[op.Obj] = c.writePath(st, cur, pes, c.symbolic(st, t, "havoc."+op.Obj.Name))
	}
	keys = keys[:0]
	for k := range ws.HeapRefs {
		keys = append(keys, k)
	}
	sort.Strings(keys)
	for _, k := range keys {
		hr := ws.HeapRefs[k]
		h := st.Heap[hr.Leaf]
		if h == nil {
			continue
		}
		st.Heap[hr.Leaf] = Store(h, hr.Ref, Fresh("havoc."+hr.Leaf, hr.Sort))
	}
	keys = keys[:0]
	for k := range ws.WholeHeap {
		keys = append(keys, k)
	}
	sort.Strings(keys)
	for _, k := range keys {
		if h := st.Heap[k]; h != nil {
			st.Heap[k] = Fresh("havoc.whole."+k, h.Sort)
		}
	}
	for g := range ws.Ghosts {
		if v, ok := st.Ghost[g]; ok {
			st.Ghost[g] = c.havocGhost(st, g, v)
		}
	}
}

// havocGhost: an arbitrary value of the same kind as v (a ghost variable written by a cut loop / havoced frame).
func (c *Ctx) havocGhost(st *State, g string, v Value) Value {
	switch x := v.(type) {
	case *Term:
		return Fresh("havoc.ghost."+g, x.Sort)
	case SliceV:
		return c.symbolic(st, types.NewSlice(x.Elem), "havoc.ghost."+g)
	case StrV:
		return c.symbolic(st, types.Typ[types.String], "havoc.ghost."+g)
	case *StructV:
		return c.symbolic(st, x.Typ, "havoc.ghost."+g)
	case UntypedInt:
		return Fresh("havoc.ghost."+g, c.IntSort())
	}
	panic(VerErr{fmt.Sprintf("UNSUPPORTED: ghost variable %s of kind %T is written inside a cut loop", g, v)})
}

// discoverWrites runs the loop body in discovery mode until the write set is stable.
func (c *Ctx) discoverWrites(st *State, fr *Frame, loop *Loop, phis []*ssa.Phi) *WriteSet {
	acc := newWriteSet()
	acc.MaxID = c.nobj
	freshStart := TS.fresh
	nameStart := globalFresh
	acc.FreshStart, acc.NameStart = freshStart, nameStart
	for round := 0; round < 4; round++ {
		probe := st.clone()
		probe.Disc = newWriteSet()
		probe.Disc.FreshStart = freshStart
		probe.Disc.NameStart = nameStart
		probe.Record = nil
		pfr := probe.top()
		c.havocPhis(probe, pfr, phis)
		c.havocWrites(probe, acc)
		// run until every path leaves the loop or reaches the back edge
		depth := len(probe.Frames)
		c.runDiscovery(probe, loop, depth)
		n0 := len(acc.ObjPaths) + len(acc.HeapRefs) + len(acc.Ghosts) + len(acc.WholeHeap)
		for k, v := range probe.Disc.ObjPaths {
			// only objects that existed before the loop matter
			if _, ok := st.Mem[v.Obj]; ok {
				acc.ObjPaths[k] = v
			}
		}
		for k, v := range probe.Disc.HeapRefs {
			acc.HeapRefs[k] = v
		}
		for k := range probe.Disc.Ghosts {
			acc.Ghosts[k] = true
		}
		for k := range probe.Disc.WholeHeap {
			acc.WholeHeap[k] = true
		}
		if len(acc.ObjPaths)+len(acc.HeapRefs)+len(acc.Ghosts)+len(acc.WholeHeap) == n0 {
			break
		}
	}
	return acc
}

func (c *Ctx) runDiscovery(probe *State, loop *Loop, depth int) {
	disc := probe.Disc
	work := []*State{probe}
	savedPaths := c.Paths
	n := 0
	for len(work) > 0 {
		cur := work[len(work)-1]
		work = work[:len(work)-1]
		n++
		if n > 5000 {
			panic(VerErr{"PATH-BUDGET: discovery of loop " + loop.ID})
		}
		for {
			// stop when control leaves the loop in the loop's frame
			if len(cur.Frames) < depth {
				break
			}
			if len(cur.Frames) == depth && !loop.Blocks[cur.top().Block] {
				break
			}
			forks, done := c.step(cur, func(*State, Value) {})
			for _, f := range forks {
				f.Disc = disc
				work = append(work, f)
			}
			if done {
				break
			}
		}
	}
	c.Paths = savedPaths
}

// ---- values of SSA operands ----

func (c *Ctx) val(st *State, v ssa.Value) Value {
	switch x := v.(type) {
	case *ssa.Const:
		return c.constVal(st, x)
	case *ssa.Global:
		return PtrV{Obj: c.globalObj(st, x)}
	case *ssa.Function:
		return FuncV{Fn: x}
	case *ssa.Builtin:
		return FuncV{Builtin: x.Name()}
	}
	fr := st.top()
	if r, ok := fr.Env[v]; ok {
		return r
	}
	if fv, ok := v.(*ssa.FreeVar); ok {
		_ = fv
	}
	panic(VerErr{fmt.Sprintf("no value for %s (%s) in %s", v.Name(), v.String(), fr.Fn.String())})
}

func (c *Ctx) constVal(st *State, k *ssa.Const) Value {
	t := k.Type()
	if k.Value == nil {
		return c.zeroValue(st, t)
	}
	switch u := under(t).(type) {
	case *types.Basic:
		switch {
		case u.Info()&types.IsBoolean != 0:
			return BoolT(constant.BoolVal(k.Value))
		case u.Info()&types.IsString != 0:
			return conc(constant.StringVal(k.Value))
		case u.Info()&types.IsInteger != 0:
			bi, ok := constToBig(k.Value)
			if !ok {
				unsupported("integer constant %s", k.Value)
			}
			return NumC(bi, c.sortOfBasic(t))
		case u.Info()&types.IsFloat != 0:
			return c.floatConst(k.Value)
		}
	}
	unsupported("constant %s of type %s", k.Value, t)
	return nil
}

func (c *Ctx) floatConst(v constant.Value) *Term {
	if c.FP {
		f, _ := constant.Float64Val(constant.ToFloat(v))
		r := new(big.Rat)
		r.SetFloat64(f)
		lit := ratSMT(r)
		return TS.intern(&Term{Op: "fplit", Sort: FPSort, Name: lit})
	}
	r, ok := constToRat(v)
	if !ok {
		unsupported("float constant %s", v)
	}
	return RealC(r)
}

func ratSMT(r *big.Rat) string {
	num, den := r.Num(), r.Denom()
	s := ""
	if num.Sign() < 0 {
		s = "(- " + new(big.Int).Neg(num).String() + ".0)"
	} else {
		s = num.String() + ".0"
	}
	if den.Cmp(big.NewInt(1)) != 0 {
		s = "(/ " + s + " " + den.String() + ".0)"
	}
	return s
}

func constToBig(v constant.Value) (*big.Int, bool) {
	v = constant.ToInt(v)
	if v.Kind() != constant.Int {
		return nil, false
	}
	if i, ok := constant.Int64Val(v); ok {
		return big.NewInt(i), true
	}
	bi, ok := new(big.Int).SetString(v.ExactString(), 10)
	return bi, ok
}

func constToRat(v constant.Value) (*big.Rat, bool) {
	v = constant.ToFloat(v)
	if v.Kind() == constant.Float || v.Kind() == constant.Int {
		if r, ok := new(big.Rat).SetString(v.ExactString()); ok {
			return r, true
		}
	}
	return nil, false
}

// ---- simple instructions ----

func (c *Ctx) execSimple(st *State, in ssa.Instruction) ([]*State, bool) {
	fr := st.top()
	switch x := in.(type) {
	case *ssa.Alloc:
		et := x.Type().(*types.Pointer).Elem()
		o := c.newObject(x.Comment, et)
		st.Mem[o] = c.zeroValue(st, et)
		fr.Env[x] = PtrV{Obj: o}
	case *ssa.BinOp:
		fr.Env[x] = c.binop(st, x, x.Op, c.val(st, x.X), c.val(st, x.Y), x.X.Type(), x.Y.Type(), x.Type())
	case *ssa.UnOp:
		fr.Env[x] = c.unop(st, x)
	case *ssa.ChangeType:
		fr.Env[x] = c.val(st, x.X)
	case *ssa.Convert:
		fr.Env[x] = c.convert(st, x, c.val(st, x.X), x.X.Type(), x.Type())
	case *ssa.ChangeInterface:
		fr.Env[x] = c.val(st, x.X)
	case *ssa.MakeInterface:
		fr.Env[x] = IfaceV{Dyn: x.X.Type(), Val: c.val(st, x.X), Iface: x.Type()}
	case *ssa.Extract:
		tv := c.val(st, x.Tuple).(*TupleV)
		fr.Env[x] = tv.V[x.Index]
	case *ssa.Field:
		sv := c.val(st, x.X).(*StructV)
		fr.Env[x] = sv.F[x.Field]
	case *ssa.FieldAddr:
		p := c.derefable(st, in, c.val(st, x.X))
		fr.Env[x] = c.fieldAddr(p, x.Field)
	case *ssa.IndexAddr:
		fr.Env[x] = c.indexAddr(st, x)
	case *ssa.Index:
		fr.Env[x] = c.indexVal(st, x)
	case *ssa.Store:
		c.store(st, in, c.val(st, x.Addr), c.val(st, x.Val), x.Val.Type())
	case *ssa.Slice:
		fr.Env[x] = c.sliceOp(st, x)
	case *ssa.MakeSlice:
		fr.Env[x] = c.makeSlice(st, x)
	case *ssa.MakeMap:
		o := c.newObject("map", x.Type())
		st.Mem[o] = &MapObj{}
		fr.Env[x] = MapV{Obj: o, Typ: under(x.Type()).(*types.Map)}
	case *ssa.MakeChan:
		o := c.newObject("chan", x.Type())
		st.Mem[o] = &ChanObj{Cap: c.val(st, x.Size).(*Term)}
		fr.Env[x] = ChanV{Obj: o}
	case *ssa.MakeClosure:
		fv := FuncV{Fn: x.Fn.(*ssa.Function)}
		for _, b := range x.Bindings {
			fv.Bindings = append(fv.Bindings, c.val(st, b))
		}
		fr.Env[x] = fv
	case *ssa.MapUpdate:
		c.mapUpdate(st, in, c.val(st, x.Map), c.val(st, x.Key), c.val(st, x.Value))
	case *ssa.Lookup:
		fr.Env[x] = c.lookup(st, x)
	case *ssa.TypeAssert:
		return c.typeAssert(st, x)
	case *ssa.Range:
		fr.Env[x] = c.rangeInit(st, x)
	case *ssa.Next:
		return c.rangeNext(st, x)
	case *ssa.SliceToArrayPointer:
		unsupported("SliceToArrayPointer")
	case *ssa.Phi:
		panic(VerErr{"phi outside block head"})
	default:
		unsupported("instruction %T (%s) in %s", in, in, fr.Fn)
	}
	return nil, false
}

// derefable checks that a pointer is non-nil (safety obligation) and materialises symbolic pointers.
func (c *Ctx) derefable(st *State, in ssa.Instruction, v Value) PtrV {
	p, ok := v.(PtrV)
	if !ok {
		unsupported("dereference of %T", v)
	}
	if p.Nil {
		c.safety(st, in, "nil-deref", False())
		panic(pathDead{})
	}
	if p.Sym != nil {
		if c.assumedNonNil(in) {
			st.assume(Not(Eq(p.Sym, IntC(0))))
		} else {
			c.safety(st, in, "nil-deref", Not(Eq(p.Sym, IntC(0))))
		}
		return PtrV{Obj: c.materialise(st, p)}
	}
	return p
}

// assumedNonNil: `opt assume-nonnil <local>...` - dereferences of the named local variables are not checked but
// assumed safe (reported); for facts the arithmetic abstraction in use cannot establish.
func (c *Ctx) assumedNonNil(in ssa.Instruction) bool {
	if c.Spec == nil || c.Spec.Opts["assume-nonnil"] == "" {
		return false
	}
	var x ssa.Value
	switch i := in.(type) {
	case *ssa.FieldAddr:
		x = i.X
	case *ssa.UnOp:
		x = i.X
	case *ssa.Store:
		x = i.Addr
	}
	// `type:T`: every dereference of a *T (T a named type of the package) is assumed safe - for representation
	// invariants of pointer-linked structures that the heap model cannot quantify over
	if x != nil {
		if pt, ok := x.Type().Underlying().(*types.Pointer); ok {
			if nt, ok := pt.Elem().(*types.Named); ok {
				for _, n := range strings.Fields(c.Spec.Opts["assume-nonnil"]) {
					if n == "type:"+nt.Obj().Name() {
						c.Assumed["pointers to "+nt.Obj().Name()+" reached from the data structure are assumed non-nil, not checked (opt assume-nonnil type:"+nt.Obj().Name()+")"] = true
						return true
					}
				}
			}
		}
	}
	ph, ok := x.(*ssa.Phi)
	if !ok {
		return false
	}
	for _, n := range strings.Fields(c.Spec.Opts["assume-nonnil"]) {
		if ph.Comment == n {
			c.Assumed["dereferences of local `"+n+"` are assumed non-nil, not checked (opt assume-nonnil)"] = true
			return true
		}
	}
	return false
}

type pathDead struct{}

// materialise gives the engine object behind a symbolic pointer.
func (c *Ctx) materialise(st *State, p PtrV) *Object {
	if o, ok := st.SymObjs[p.Sym.id]; ok {
		return o
	}
	if p.Sym.Op == "ite" {
		unsupported("dereference of a conditional pointer %s", p.Sym)
	}
	if isNum(p.Sym) && p.Sym.Val.Sign() < 0 {
		if o := c.objByID[int(-p.Sym.Val.Int64())]; o != nil {
			return o
		}
	}
	o := c.newObject("obj."+p.Sym.String(), p.Typ)
	st.Mem[o] = c.symbolic(st, p.Typ, "m."+strings.TrimSuffix(p.Sym.Name, ".ptr"))
	// separation assumption: distinct symbolic pointers (of the same type) denote distinct objects
	for id := range st.SymObjs {
		_ = id
	}
	c.Assumed["distinct symbolic pointers (parameters / loaded pointer fields) do not alias"] = true
	st.SymObjs[p.Sym.id] = o
	c.initVals[o] = st.Mem[o]
	if c.InitSym != nil {
		c.InitSym[p.Sym.id] = o
	}
	return o
}

func (c *Ctx) fieldAddr(p PtrV, f int) PtrV {
	if p.Heap {
		return PtrV{Heap: true, Ref: p.Ref, Idx: p.Idx, Elem: p.Elem, Path: append(append([]PathElem(nil), p.Path...), PathElem{Field: f})}
	}
	return PtrV{Obj: p.Obj, Path: append(append([]PathElem(nil), p.Path...), PathElem{Field: f})}
}

func (c *Ctx) load(st *State, in ssa.Instruction, v Value) Value {
	p := c.derefable(st, in, v)
	if p.Heap {
		return c.heapRead(st, p.Elem, p.Ref, p.Idx, pathInts(p.Path))
	}
	cur := c.mem(st, p.Obj)
	if cur == nil {
		panic(VerErr{"load from unknown object " + p.Obj.Name})
	}
	return c.readPath(st, cur, p.Path)
}

func (c *Ctx) store(st *State, in ssa.Instruction, addr Value, v Value, vt types.Type) {
	p := c.derefable(st, in, addr)
	if p.Heap {
		c.heapWrite(st, p.Elem, p.Ref, p.Idx, pathInts(p.Path), v)
		return
	}
	cur := c.mem(st, p.Obj)
	if cur == nil {
		panic(VerErr{"store to unknown object " + p.Obj.Name})
	}
	c.noteObjWrite(st, p.Obj, p.Path)
	st.Mem[p.Obj] = c.writePath(st, cur, p.Path, v)
}

func (c *Ctx) unop(st *State, x *ssa.UnOp) Value {
	v := c.val(st, x.X)
	switch x.Op {
	case token.MUL:
		return c.load(st, x, v)
	case token.NOT:
		return Not(v.(*Term))
	case token.SUB:
		t := v.(*Term)
		return c.wrap(Neg(t), x.Type())
	case token.XOR:
		t := v.(*Term)
		if t.Sort.Kind == SBV {
			return mk("bvnot", t.Sort, t)
		}
		// ^x == -x-1 for signed math ints
		if !isUnsigned(x.Type()) {
			return Arith("-", Neg(t), IntC(1))
		}
		_, hi := typeRange(x.Type())
		return Arith("-", IntBig(hi), t)
	case token.ARROW:
		return c.recv(st, x, v, x.CommaOk)
	}
	unsupported("unary op %s", x.Op)
	return nil
}

// wrap applies the wrap-around of small integer types in math mode (exact for <= 16 bit; assumed no overflow for wider).
func (c *Ctx) wrap(t *Term, typ types.Type) *Term {
	if c.BV || !isInteger(typ) || t.Sort.Kind != SInt {
		return t
	}
	bits := intBits(typ)
	if bits > 16 {
		c.Assumed["machine arithmetic on 32/64-bit integers treated as mathematical (no wrap-around)"] = true
		return t
	}
	m := new(big.Int).Lsh(big.NewInt(1), uint(bits))
	if isNum(t) {
		v := new(big.Int).Mod(t.Val, m)
		if !isUnsigned(typ) && v.Cmp(new(big.Int).Rsh(m, 1)) >= 0 {
			v.Sub(v, m)
		}
		return IntBig(v)
	}
	if isUnsigned(typ) {
		return IntMod(t, m)
	}
	h := new(big.Int).Rsh(m, 1)
	return Arith("-", IntMod(Arith("+", t, IntBig(h)), m), IntBig(h))
}

func (c *Ctx) binop(st *State, in ssa.Instruction, op token.Token, xv, yv Value, xt, yt, rt types.Type) Value {
	switch op {
	case token.EQL:
		return c.valueEq(st, xv, yv)
	case token.NEQ:
		return Not(c.valueEq(st, xv, yv))
	}
	if xs, ok := xv.(StrV); ok {
		ys := yv.(StrV)
		switch op {
		case token.ADD:
			return c.strConcat(xs, ys)
		case token.LSS, token.GTR, token.LEQ, token.GEQ:
			if xs.Conc != nil && ys.Conc != nil {
				switch op {
				case token.LSS:
					return BoolT(*xs.Conc < *ys.Conc)
				case token.GTR:
					return BoolT(*xs.Conc > *ys.Conc)
				case token.LEQ:
					return BoolT(*xs.Conc <= *ys.Conc)
				case token.GEQ:
					return BoolT(*xs.Conc >= *ys.Conc)
				}
			}
		}
		unsupported("string operator %s on symbolic strings", op)
	}
	x, ok1 := xv.(*Term)
	y, ok2 := yv.(*Term)
	if !ok1 || !ok2 {
		unsupported("binary %s on %T,%T", op, xv, yv)
	}
	signed := !isUnsigned(xt)
	switch op {
	case token.LSS:
		return Cmp("<", x, y, signed)
	case token.LEQ:
		return Cmp("<=", x, y, signed)
	case token.GTR:
		return Cmp(">", x, y, signed)
	case token.GEQ:
		return Cmp(">=", x, y, signed)
	case token.LAND:
		return And(x, y)
	case token.LOR:
		return Or(x, y)
	}
	if isFloat(rt) {
		switch op {
		case token.ADD:
			return Arith("+", x, y)
		case token.SUB:
			return Arith("-", x, y)
		case token.MUL:
			return Arith("*", x, y)
		case token.QUO:
			return Arith("/", x, y)
		}
		unsupported("float op %s", op)
	}
	if x.Sort.Kind == SBV {
		switch op {
		case token.ADD:
			return Arith("+", x, y)
		case token.SUB:
			return Arith("-", x, y)
		case token.MUL:
			return Arith("*", x, y)
		case token.QUO:
			if in != nil {
				c.safety(st, in, "div-by-zero", Not(Eq(y, BVC(big.NewInt(0), y.Sort.Bits))))
			}
			return BVOp("quo", x, y, signed)
		case token.REM:
			if in != nil {
				c.safety(st, in, "div-by-zero", Not(Eq(y, BVC(big.NewInt(0), y.Sort.Bits))))
			}
			return BVOp("rem", x, y, signed)
		case token.AND:
			return BVOp("and", x, y, false)
		case token.OR:
			return BVOp("or", x, y, false)
		case token.XOR:
			return BVOp("xor", x, y, false)
		case token.AND_NOT:
			return BVOp("andnot", x, y, false)
		case token.SHL, token.SHR:
			// shift count may have a different width; Go: count is unsigned or non-negative
			yy := BVResize(y, x.Sort.Bits, false)
			if y.Sort.Bits > x.Sort.Bits {
				// large counts saturate
				big1 := Cmp(">=", y, BVC(big.NewInt(int64(x.Sort.Bits)), y.Sort.Bits), false)
				yy = Ite(big1, BVC(big.NewInt(int64(x.Sort.Bits)), x.Sort.Bits), yy)
			}
			if !isUnsigned(yt) && in != nil {
				c.safety(st, in, "negative-shift", Cmp(">=", y, BVC(big.NewInt(0), y.Sort.Bits), true))
			}
			if op == token.SHL {
				return BVOp("shl", x, yy, false)
			}
			return BVOp("shr", x, yy, signed)
		}
		unsupported("bv op %s", op)
	}
	// math mode
	switch op {
	case token.ADD:
		return c.wrap(Arith("+", x, y), rt)
	case token.SUB:
		return c.wrap(Arith("-", x, y), rt)
	case token.MUL:
		return c.wrap(Arith("*", x, y), rt)
	case token.QUO:
		if in != nil {
			c.safety(st, in, "div-by-zero", Not(Eq(y, IntC(0))))
		}
		return IntQuo(x, y)
	case token.REM:
		if in != nil {
			c.safety(st, in, "div-by-zero", Not(Eq(y, IntC(0))))
		}
		return IntRem(x, y)
	case token.AND:
		if isNum(x) && isNum(y) {
			return IntBig(new(big.Int).And(x.Val, y.Val))
		}
		if isNum(x) && !isNum(y) {
			x, y = y, x
		}
		// x & mask with a non-negative constant mask: sum over maximal runs of set bits [lo,hi) of
		// ((x div 2^lo) mod 2^(hi-lo)) * 2^lo   (floor div/mod = infinite two's complement)
		if isNum(y) && y.Val.Sign() >= 0 && y.Val.BitLen() <= 64 {
			res := IntC(0)
			m := y.Val
			i := 0
			for i < m.BitLen() {
				if m.Bit(i) == 0 {
					i++
					continue
				}
				lo := i
				for i < m.BitLen() && m.Bit(i) == 1 {
					i++
				}
				w := i - lo
				part := x
				if lo > 0 {
					part = mk("div", IntSort, x, IntBig(new(big.Int).Lsh(big.NewInt(1), uint(lo))))
				}
				part = IntMod(part, new(big.Int).Lsh(big.NewInt(1), uint(w)))
				if lo > 0 {
					part = Arith("*", part, IntBig(new(big.Int).Lsh(big.NewInt(1), uint(lo))))
				}
				res = Arith("+", res, part)
			}
			return res
		}
	case token.OR:
		if isNum(x) && isNum(y) {
			return IntBig(new(big.Int).Or(x.Val, y.Val))
		}
		if isNum(x) && !isNum(y) {
			x, y = y, x
		}
		if isNum(y) && y.Val.Sign() >= 0 {
			// x | c == (x - (x & c)) + c   (the cleared bits are then set)
			xc := c.binop(st, nil, token.AND, x, y, xt, yt, rt).(*Term)
			return Arith("+", Arith("-", x, xc), y)
		}
	case token.AND_NOT:
		if isNum(x) && isNum(y) {
			return IntBig(new(big.Int).AndNot(x.Val, y.Val))
		}
		if isNum(y) && y.Val.Sign() >= 0 {
			xc := c.binop(st, nil, token.AND, x, y, xt, yt, rt).(*Term)
			return Arith("-", x, xc)
		}
	case token.SHL:
		if isNum(y) && y.Val.IsInt64() && y.Val.Int64() < 63 && y.Val.Sign() >= 0 {
			return c.wrap(Arith("*", x, IntBig(new(big.Int).Lsh(big.NewInt(1), uint(y.Val.Int64())))), rt)
		}
	case token.SHR:
		if isNum(y) && y.Val.IsInt64() && y.Val.Int64() < 63 && y.Val.Sign() >= 0 {
			// arithmetic shift == floor division
			return mk("div", IntSort, x, IntBig(new(big.Int).Lsh(big.NewInt(1), uint(y.Val.Int64()))))
		}
	}
	unsupported("operator %s in math mode (use `arith bv`) in %s", op, st.top().Fn)
	return nil
}

func (c *Ctx) convert(st *State, in ssa.Instruction, v Value, from, to types.Type) Value {
	switch {
	case isInteger(from) && isInteger(to):
		t := v.(*Term)
		if c.BV {
			return BVResize(t, intBits(to), !isUnsigned(from))
		}
		// math: value preserved if in range; narrow types wrap exactly, wide ones: obligation-free assumption
		lo, hi := typeRange(to)
		flo, fhi := typeRange(from)
		if flo.Cmp(lo) >= 0 && fhi.Cmp(hi) <= 0 {
			return t
		}
		if intBits(to) <= 16 {
			return c.wrap(t, to)
		}
		// e.g. int -> int32, uint64 -> int: exact wrap needs mod; use mod for 32-bit, identity+assumption for 64
		if intBits(to) == 32 {
			m := new(big.Int).Lsh(big.NewInt(1), 32)
			if isUnsigned(to) {
				return IntMod(t, m)
			}
			h := new(big.Int).Rsh(m, 1)
			return Arith("-", IntMod(Arith("+", t, IntBig(h)), m), IntBig(h))
		}
		c.Assumed["64-bit integer conversions treated as value-preserving (math mode)"] = true
		return t
	case isInteger(from) && isFloat(to):
		t := v.(*Term)
		if c.FP {
			if t.Sort.Kind == SBV {
				return I2FP(BVResize(t, 64, !isUnsigned(from)))
			}
			return I2FP(t)
		}
		if t.Sort.Kind == SInt {
			if isNum(t) {
				return RealC(new(big.Rat).SetInt(t.Val))
			}
			return mk("to_real", RealSort, t)
		}
		unsupported("int->float in bv+real mode")
	case isFloat(from) && isFloat(to):
		return v
	case isFloat(from) && isInteger(to):
		t := v.(*Term)
		if !c.FP && !c.BV {
			// Go truncates toward zero
			fl := mk("to_int", IntSort, t)
			neg := Neg(mk("to_int", IntSort, Neg(t)))
			return Ite(Cmp(">=", t, RealC(new(big.Rat)), true), fl, neg)
		}
		if c.FP {
			// float abstraction: the truncated value is an uninterpreted function of the float (sound: arbitrary but functional)
			c.Assumed["float-to-integer conversion is an uninterpreted function of the float value (fpuf)"] = true
			return App("fp2int."+c.modeTag(), c.sortOfBasic(to), t)
		}
		unsupported("float->int conversion in this mode")
	case isString(to):
		// string(rune) / string([]byte) / string(byte)
		if isInteger(from) {
			t := v.(*Term)
			if isNum(t) {
				var r rune
				if t.Sort.Kind == SBV && !isUnsigned(from) {
					r = rune(bvSigned(t.Val, t.Sort.Bits).Int64())
				} else {
					r = rune(t.Val.Int64())
				}
				return conc(string(r))
			}
			return StrV{Spec: "runestr", SArgs: []Value{t}}
		}
		if sl, ok := v.(SliceV); ok {
			if fs, isSl := under(from).(*types.Slice); isSl && intBits(fs.Elem()) == 32 {
				return c.runesToString(st, sl, fs.Elem())
			}
			return c.bytesToString(st, sl)
		}
	case isString(from):
		if sl, ok := under(to).(*types.Slice); ok {
			return c.stringToSlice(st, v.(StrV), sl.Elem())
		}
	}
	if types.Identical(under(from), under(to)) {
		return v
	}
	if _, ok := under(from).(*types.Pointer); ok {
		return v
	}
	unsupported("conversion %s -> %s", from, to)
	return nil
}

// runesToString: string([]rune).  Concrete runes give a concrete string; otherwise the piece "runesstr"
// carries a snapshot of the rune array (arr, off, len): the UTF-8 rendering of that sequence.
func (c *Ctx) runesToString(st *State, sl SliceV, elem types.Type) Value {
	if !sl.Heap {
		if sl.Obj == nil {
			return conc("")
		}
		av := c.mem(st, sl.Obj).(*ArrayV)
		var rs []rune
		all := true
		for i := 0; i < sl.CLen; i++ {
			t := av.Elems[sl.COff+i].(*Term)
			if !isNum(t) {
				all = false
				break
			}
			if t.Sort.Kind == SBV {
				rs = append(rs, rune(bvSigned(t.Val, t.Sort.Bits).Int64()))
			} else {
				rs = append(rs, rune(t.Val.Int64()))
			}
		}
		if all {
			return conc(string(rs))
		}
		sl = c.toHeapSlice(st, sl, elem)
	}
	lvs := c.leavesOf(elem)
	arr := Select(c.heapArr(st, lvs[0]), sl.Ref)
	return StrV{Spec: "runesstr", SArgs: []Value{arr, sl.Off, sl.Len}}
}

func (c *Ctx) bytesToString(st *State, sl SliceV) Value {
	if !sl.Heap {
		if sl.Obj == nil {
			return conc("")
		}
		av := c.mem(st, sl.Obj).(*ArrayV)
		var bs []byte
		allConst := true
		for i := 0; i < sl.CLen; i++ {
			t := av.Elems[sl.COff+i].(*Term)
			if !isNum(t) {
				allConst = false
				break
			}
			bs = append(bs, byte(t.Val.Int64()))
		}
		if allConst {
			return conc(string(bs))
		}
		var pieces []StrV
		for i := 0; i < sl.CLen; i++ {
			t := av.Elems[sl.COff+i].(*Term)
			if isNum(t) {
				pieces = append(pieces, conc(string([]byte{byte(t.Val.Int64())})))
			} else {
				pieces = append(pieces, StrV{Spec: "chr", SArgs: []Value{t}})
			}
		}
		return StrV{Rope: flattenRope(StrV{Rope: pieces})}
	}
	lvs := c.leavesOf(sl.Elem)
	arr := Select(c.heapArr(st, lvs[0]), sl.Ref)
	return StrV{Arr: arr, Off: sl.Off, Len: sl.Len}
}

// resolveStr picks the branch of a conditional string that the path condition already decides.
func (c *Ctx) resolveStr(st *State, s StrV) StrV {
	for s.Spec == "ite" {
		cond := s.SArgs[0].(*Term)
		if st.pcKnows(cond) {
			s = s.SArgs[1].(StrV)
		} else if st.pcKnows(Not(cond)) {
			s = s.SArgs[2].(StrV)
		} else {
			break
		}
	}
	return s
}

func (c *Ctx) stringToSlice(st *State, s StrV, elem types.Type) Value {
	s = c.resolveStr(st, s)
	if intBits(elem) != 8 {
		if s.Conc != nil {
			rs := []rune(*s.Conc)
			av := &ArrayV{Elem: elem}
			for _, r := range rs {
				av.Elems = append(av.Elems, c.intC(int64(r), elem))
			}
			o := c.newObject("runes", types.NewArray(elem, int64(len(rs))))
			st.Mem[o] = av
			return SliceV{Elem: elem, Obj: o, CLen: len(rs), CCap: len(rs)}
		}
		unsupported("[]rune(symbolic string)")
	}
	if s.Conc != nil {
		bs := []byte(*s.Conc)
		av := &ArrayV{Elem: elem}
		for _, b := range bs {
			av.Elems = append(av.Elems, c.intC(int64(b), elem))
		}
		o := c.newObject("bytes", types.NewArray(elem, int64(len(bs))))
		st.Mem[o] = av
		return SliceV{Elem: elem, Obj: o, CLen: len(bs), CCap: len(bs)}
	}
	if s.Arr != nil {
		// fresh heap array with the same contents
		ref := c.allocRef(st)
		lvs := c.leavesOf(elem)
		h := c.heapArr(st, lvs[0])
		fresh := Fresh("bytesof", ArraySort(c.IntSort(), lvs[0].Sort))
		k := BoundVar("k", c.IntSort())
		st.assume(Forall([]*Term{k}, Implies(And(Cmp("<=", c.idx(0), k, true), Cmp("<", k, s.Len, true)),
			Eq(Select(fresh, k), Select(s.Arr, Arith("+", s.Off, k))))))
		st.Heap[lvs[0].Key] = Store(h, ref, fresh)
		return SliceV{Elem: elem, Heap: true, Ref: ref, Off: c.idx(0), Len: s.Len, Cap: s.Len}
	}
	unsupported("[]byte of %s", showValue(s))
	return nil
}

// ---- indexing ----

func (c *Ctx) boundsCheck(st *State, in ssa.Instruction, idx, ln *Term) {
	z := NumC(big.NewInt(0), idx.Sort)
	c.safety(st, in, "index-in-range", And(Cmp("<=", z, idx, true), Cmp("<", idx, ln, true)))
}

func (c *Ctx) toIdx(t *Term, typ types.Type) *Term {
	// index expressions may have any integer type; normalise to the engine's int sort
	if c.BV {
		return BVResize(t, 64, !isUnsigned(typ))
	}
	return t
}

func (c *Ctx) indexAddr(st *State, x *ssa.IndexAddr) Value {
	base := c.val(st, x.X)
	idx := c.toIdx(c.val(st, x.Index).(*Term), x.Index.Type())
	switch b := base.(type) {
	case SliceV:
		if b.Heap {
			c.boundsCheck(st, x, idx, b.Len)
			return PtrV{Heap: true, Ref: b.Ref, Idx: Arith("+", b.Off, idx), Elem: b.Elem}
		}
		c.boundsCheck(st, x, idx, c.idx(int64(b.CLen)))
		if b.Obj == nil {
			panic(pathDead{})
		}
		return PtrV{Obj: b.Obj, Path: []PathElem{{Idx: Arith("+", c.idx(int64(b.COff)), idx)}}}
	case PtrV:
		// pointer to array
		p := c.derefable(st, x, b)
		at := under(x.X.Type().(*types.Pointer).Elem()).(*types.Array)
		c.boundsCheck(st, x, idx, c.idx(at.Len()))
		if p.Heap {
			unsupported("index into array inside heap element")
		}
		return PtrV{Obj: p.Obj, Path: append(append([]PathElem(nil), p.Path...), PathElem{Idx: idx})}
	}
	unsupported("IndexAddr on %T", base)
	return nil
}

func (c *Ctx) indexVal(st *State, x *ssa.Index) Value {
	base := c.val(st, x.X)
	idx := c.toIdx(c.val(st, x.Index).(*Term), x.Index.Type())
	switch b := base.(type) {
	case StrV:
		c.boundsCheck(st, x, idx, c.strLen(st, b))
		return c.strAt(st, b, idx)
	case *ArrayV:
		c.boundsCheck(st, x, idx, c.idx(int64(len(b.Elems))))
		return c.readPath(st, b, []PathElem{{Idx: idx}})
	}
	unsupported("Index on %T", base)
	return nil
}

func (c *Ctx) sliceOp(st *State, x *ssa.Slice) Value {
	base := c.val(st, x.X)
	var lo, hi, mx *Term
	if x.Low != nil {
		lo = c.toIdx(c.val(st, x.Low).(*Term), x.Low.Type())
	}
	if x.High != nil {
		hi = c.toIdx(c.val(st, x.High).(*Term), x.High.Type())
	}
	if x.Max != nil {
		mx = c.toIdx(c.val(st, x.Max).(*Term), x.Max.Type())
	}
	z := c.idx(0)
	if lo == nil {
		lo = z
	}
	switch b := base.(type) {
	case StrV:
		ln := c.strLen(st, b)
		if hi == nil {
			hi = ln
		}
		c.safety(st, x, "slice-bounds", And(Cmp("<=", z, lo, true), Cmp("<=", lo, hi, true), Cmp("<=", hi, ln, true)))
		if b.Conc != nil && isNum(lo) && isNum(hi) {
			l, h := c.constIdx(lo), c.constIdx(hi)
			if l < 0 || h > len(*b.Conc) || l > h {
				panic(pathDead{})
			}
			return conc((*b.Conc)[l:h])
		}
		if b.Arr == nil {
			b = c.strSym(st, b)
		}
		return StrV{Arr: b.Arr, Off: Arith("+", b.Off, lo), Len: Arith("-", hi, lo)}
	case SliceV:
		if b.Heap {
			if hi == nil {
				hi = b.Len
			}
			cp := b.Cap
			if mx != nil {
				c.safety(st, x, "slice-bounds", And(Cmp("<=", z, lo, true), Cmp("<=", lo, hi, true), Cmp("<=", hi, mx, true), Cmp("<=", mx, b.Cap, true)))
				cp = mx
			} else {
				c.safety(st, x, "slice-bounds", And(Cmp("<=", z, lo, true), Cmp("<=", lo, hi, true), Cmp("<=", hi, b.Cap, true)))
			}
			return SliceV{Elem: b.Elem, Heap: true, Ref: b.Ref, Off: Arith("+", b.Off, lo), Len: Arith("-", hi, lo), Cap: Arith("-", cp, lo), Origin: b.Origin}
		}
		if hi == nil {
			hi = c.idx(int64(b.CLen))
		}
		cp := c.idx(int64(b.CCap))
		if mx != nil {
			cp = mx
		}
		c.safety(st, x, "slice-bounds", And(Cmp("<=", z, lo, true), Cmp("<=", lo, hi, true), Cmp("<=", hi, cp, true), Cmp("<=", cp, c.idx(int64(b.CCap)), true)))
		if !isNum(lo) || !isNum(hi) || !isNum(cp) {
			// symbolic bounds: continue on a heap copy (aliasing with the concrete array is given up; recorded)
			if b.Obj == nil || mx != nil {
				unsupported("symbolic bounds on concrete slice")
			}
			hb := c.toHeapSlice(st, b, b.Elem)
			return SliceV{Elem: b.Elem, Heap: true, Ref: hb.Ref, Off: Arith("+", hb.Off, lo), Len: Arith("-", hi, lo), Cap: Arith("-", hb.Cap, lo), Origin: hb.Origin}
		}
		l, h, m := c.constIdx(lo), c.constIdx(hi), c.constIdx(cp)
		if l < 0 || l > h || h > m || m > b.CCap {
			panic(pathDead{})
		}
		if b.Obj == nil {
			return b
		}
		return SliceV{Elem: b.Elem, Obj: b.Obj, COff: b.COff + l, CLen: h - l, CCap: m - l}
	case PtrV:
		// slicing a pointer to array
		p := c.derefable(st, x, b)
		at := under(x.X.Type().(*types.Pointer).Elem()).(*types.Array)
		n := int(at.Len())
		if len(p.Path) != 0 || p.Heap {
			// array nested in an object: copy-free view unsupported unless whole object
			av, ok := c.readPath(st, c.mem(st, p.Obj), p.Path).(*ArrayV)
			if !ok {
				unsupported("slicing nested array")
			}
			_ = av
			unsupported("slicing an array field (aliasing view) in %s", st.top().Fn)
		}
		if hi == nil {
			hi = c.idx(int64(n))
		}
		c.safety(st, x, "slice-bounds", And(Cmp("<=", z, lo, true), Cmp("<=", lo, hi, true), Cmp("<=", hi, c.idx(int64(n)), true)))
		if !isNum(lo) || !isNum(hi) {
			unsupported("symbolic bounds slicing array")
		}
		l, h := c.constIdx(lo), c.constIdx(hi)
		return SliceV{Elem: at.Elem(), Obj: p.Obj, COff: l, CLen: h - l, CCap: n - l}
	}
	unsupported("Slice on %T", base)
	return nil
}

func (c *Ctx) makeSlice(st *State, x *ssa.MakeSlice) Value {
	ln := c.toIdx(c.val(st, x.Len).(*Term), x.Len.Type())
	cp := c.toIdx(c.val(st, x.Cap).(*Term), x.Cap.Type())
	elem := under(x.Type()).(*types.Slice).Elem()
	z := c.idx(0)
	c.safety(st, x, "makeslice-len", And(Cmp("<=", z, ln, true), Cmp("<=", ln, cp, true)))
	if isNum(ln) && isNum(cp) && c.constIdx(cp) <= 4096 && !c.forceHeap(elem) {
		n := c.constIdx(cp)
		av := &ArrayV{Elem: elem}
		zv := c.zeroValue(st, elem)
		for i := 0; i < n; i++ {
			av.Elems = append(av.Elems, zv)
		}
		o := c.newObject("make", types.NewArray(elem, int64(n)))
		st.Mem[o] = av
		return SliceV{Elem: elem, Obj: o, CLen: c.constIdx(ln), CCap: n}
	}
	return c.freshZeroHeapSlice(st, elem, ln, cp)
}

func (c *Ctx) forceHeap(elem types.Type) bool { return false }

// freshZeroHeapSlice allocates a heap array whose elements are all zero values.
func (c *Ctx) freshZeroHeapSlice(st *State, elem types.Type, ln, cp *Term) SliceV {
	ref := c.allocRef(st)
	for _, lf := range c.leavesOf(elem) {
		h := c.heapArr(st, lf)
		var zero *Term
		switch lf.Sort.Kind {
		case SBool:
			zero = False()
		case SInt:
			zero = IntC(0)
		case SBV:
			zero = BVC(big.NewInt(0), lf.Sort.Bits)
		case SReal:
			zero = RealC(new(big.Rat))
		case SArray:
			zero = ConstArr(lf.Sort, c.byteC(0))
		default:
			unsupported("zero of sort %s", lf.Sort)
		}
		st.Heap[lf.Key] = Store(h, ref, ConstArr(ArraySort(c.IntSort(), lf.Sort), zero))
	}
	return SliceV{Elem: elem, Heap: true, Ref: ref, Off: c.idx(0), Len: ln, Cap: cp}
}

// mem reads an object's stored value; objects created lazily on another path (globals, literals,
// materialised parameters) are taken from their recorded initial value.
func (c *Ctx) mem(st *State, o *Object) Value {
	if v, ok := st.Mem[o]; ok {
		return v
	}
	if v, ok := c.initVals[o]; ok {
		st.Mem[o] = v
		return v
	}
	return nil
}

// branchInfeasible: pc /\ cond is unsatisfiable (quantified facts weakened away; 2 s budget; unknown = feasible).
func (c *Ctx) branchInfeasible(st *State, cond *Term) bool {
	var qf []*Term
	for _, f := range st.PC {
		qf = append(qf, weakenQuant(f, true))
	}
	qf = append(qf, cond)
	q := And(qf...)
	if q.IsFalse() {
		return true
	}
	sc := Script([]*Term{q}, nil, "", TS.Defs)
	r := runOne(solvers[0], sc, 2*time.Second, 0, fmt.Sprintf("prune%d", c.nfresh))
	c.nfresh++
	return r.Status == "unsat"
}
