package main

// Intrinsic models of standard-library and dependency functions (trusted; listed in evidence).

import (
	"go/types"
	"math/big"

	"golang.org/x/tools/go/ssa"
)

var _ = big.NewInt
var _ types.Type

// intrinsic returns (result, true) when the callee is modelled here.
func (c *Ctx) intrinsic(st *State, in ssa.Instruction, callee *ssa.Function, args []Value) (Value, bool) {
	name := callee.String()
	f, ok := intrinsics[name]
	if !ok {
		return nil, false
	}
	c.Assumed["intrinsic model of "+name] = true
	return f(c, st, in, args), true
}

type intrinsicFn func(c *Ctx, st *State, in ssa.Instruction, args []Value) Value

var intrinsics = map[string]intrinsicFn{}

func init() {
	intrinsics["math.IsNaN"] = func(c *Ctx, st *State, in ssa.Instruction, args []Value) Value {
		t := args[0].(*Term)
		if t.Sort.Kind == SFP {
			return mk("fp.isNaN", BoolSort, t)
		}
		return False()
	}
	intrinsics["reflect.DeepEqual"] = func(c *Ctx, st *State, in ssa.Instruction, args []Value) Value {
		a, ok1 := args[0].(IfaceV)
		b, ok2 := args[1].(IfaceV)
		if !ok1 || !ok2 || a.Dyn == nil || b.Dyn == nil {
			unsupported("reflect.DeepEqual on unknown dynamic types")
		}
		if !types.Identical(a.Dyn, b.Dyn) {
			return False()
		}
		sa, ok1 := a.Val.(SliceV)
		sb, ok2 := b.Val.(SliceV)
		if !ok1 || !ok2 {
			unsupported("reflect.DeepEqual on %s", a.Dyn)
		}
		if _, isBasic := under(sa.Elem).(*types.Basic); !isBasic {
			unsupported("reflect.DeepEqual on slices of %s", sa.Elem)
		}
		env := &SpecEnv{c: c, st: st, vars: map[string]Value{}}
		ha, hb := c.toHeapSlice(st, sa, sa.Elem), c.toHeapSlice(st, sb, sb.Elem)
		nilEq := Eq(Eq(ha.Ref, IntC(0)), Eq(hb.Ref, IntC(0)))
		return And(nilEq, c.seqEq(env, ha, hb))
	}
	intrinsics["time.Now"] = func(c *Ctx, st *State, in ssa.Instruction, args []Value) Value {
		c.Assumed["time.Now() returns an arbitrary time value (ghost clock not modelled)"] = true
		call := in.(ssa.CallInstruction)
		return c.symbolic(st, call.Common().Signature().Results().At(0).Type(), "now")
	}
	intrinsics["math.Inf"] = func(c *Ctx, st *State, in ssa.Instruction, args []Value) Value {
		if !c.FP {
			unsupported("math.Inf in real mode")
		}
		s := args[0].(*Term)
		pos := mk("fpinf", FPSort)
		if isNum(s) {
			sv := s.Val
			if s.Sort.Kind == SBV {
				sv = bvSigned(s.Val, s.Sort.Bits)
			}
			if sv.Sign() >= 0 {
				return pos
			}
			return mk("fp.neg", FPSort, pos)
		}
		z := NumC(big.NewInt(0), s.Sort)
		return Ite(Cmp(">=", s, z, true), pos, mk("fp.neg", FPSort, pos))
	}
}
