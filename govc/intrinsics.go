package main

// Intrinsic models of standard-library and dependency functions (trusted; listed in evidence).

import (
	"go/types"
	"math/big"
	"strings"

	"golang.org/x/tools/go/ssa"
)

var _ = big.NewInt
var _ types.Type

// intrinsic returns (result, true) when the callee is modelled here.
func (c *Ctx) intrinsic(st *State, in ssa.Instruction, callee *ssa.Function, args []Value) (Value, bool) {
	name := callee.String()
	f, ok := intrinsics[name]
	if !ok {
		return nil, false
	}
	c.Assumed["intrinsic model of "+name] = true
	return f(c, st, in, args), true
}

type intrinsicFn func(c *Ctx, st *State, in ssa.Instruction, args []Value) Value

var intrinsics = map[string]intrinsicFn{}

func init() {
	intrinsics["math.IsNaN"] = func(c *Ctx, st *State, in ssa.Instruction, args []Value) Value {
		t := args[0].(*Term)
		if t.Sort.Kind == SFP {
			return mk("fp.isNaN", BoolSort, t)
		}
		return False()
	}
	intrinsics["reflect.DeepEqual"] = func(c *Ctx, st *State, in ssa.Instruction, args []Value) Value {
		a, ok1 := args[0].(IfaceV)
		b, ok2 := args[1].(IfaceV)
		if !ok1 || !ok2 || a.Dyn == nil || b.Dyn == nil {
			unsupported("reflect.DeepEqual on unknown dynamic types")
		}
		if !types.Identical(a.Dyn, b.Dyn) {
			return False()
		}
		sa, ok1 := a.Val.(SliceV)
		sb, ok2 := b.Val.(SliceV)
		if !ok1 || !ok2 {
			unsupported("reflect.DeepEqual on %s", a.Dyn)
		}
		if _, isBasic := under(sa.Elem).(*types.Basic); !isBasic {
			unsupported("reflect.DeepEqual on slices of %s", sa.Elem)
		}
		env := &SpecEnv{c: c, st: st, vars: map[string]Value{}}
		ha, hb := c.toHeapSlice(st, sa, sa.Elem), c.toHeapSlice(st, sb, sb.Elem)
		nilEq := Eq(Eq(ha.Ref, IntC(0)), Eq(hb.Ref, IntC(0)))
		return And(nilEq, c.seqEq(env, ha, hb))
	}
	intrinsics["time.Now"] = func(c *Ctx, st *State, in ssa.Instruction, args []Value) Value {
		c.Assumed["time.Now() returns an arbitrary time value (ghost clock not modelled)"] = true
		call := in.(ssa.CallInstruction)
		return c.symbolic(st, call.Common().Signature().Results().At(0).Type(), "now")
	}
	// standard-library string helpers: executed natively when every argument is concrete
	str2 := func(name string, f func(a, b string) Value) {
		intrinsics[name] = func(c *Ctx, st *State, in ssa.Instruction, args []Value) Value {
			a, ok1 := args[0].(StrV)
			b, ok2 := args[1].(StrV)
			if !ok1 || !ok2 || a.Conc == nil || b.Conc == nil {
				if g, ok := symbolicStrIntrinsics[name]; ok {
					return g(c, st, in, args)
				}
				unsupported("%s on symbolic strings", name)
			}
			return f(*a.Conc, *b.Conc)
		}
	}
	str2("strings.HasPrefix", func(a, b string) Value { return BoolT(strings.HasPrefix(a, b)) })
	str2("strings.HasSuffix", func(a, b string) Value { return BoolT(strings.HasSuffix(a, b)) })
	str2("strings.Contains", func(a, b string) Value { return BoolT(strings.Contains(a, b)) })
	intrinsics["strings.Index"] = func(c *Ctx, st *State, in ssa.Instruction, args []Value) Value {
		a, ok1 := args[0].(StrV)
		b, ok2 := args[1].(StrV)
		if ok1 && ok2 && a.Conc != nil && b.Conc != nil {
			return c.idx(int64(strings.Index(*a.Conc, *b.Conc)))
		}
		if g, ok := symbolicStrIntrinsics["strings.Index"]; ok {
			return g(c, st, in, args)
		}
		unsupported("strings.Index on symbolic strings")
		return nil
	}
	concStr := func(v Value) (string, bool) {
		x, ok := v.(StrV)
		if !ok || x.Conc == nil {
			return "", false
		}
		return *x.Conc, true
	}
	concInt := func(v Value) (int, bool) {
		t, ok := v.(*Term)
		if !ok || !isNum(t) {
			return 0, false
		}
		if t.Sort.Kind == SBV {
			return int(bvSigned(t.Val, t.Sort.Bits).Int64()), true
		}
		return int(t.Val.Int64()), true
	}
	intrinsics["strings.Replace"] = func(c *Ctx, st *State, in ssa.Instruction, args []Value) Value {
		a, ok1 := concStr(args[0])
		b, ok2 := concStr(args[1])
		d, ok3 := concStr(args[2])
		n, ok4 := concInt(args[3])
		if !(ok1 && ok2 && ok3 && ok4) {
			unsupported("strings.Replace on symbolic arguments")
		}
		return conc(strings.Replace(a, b, d, n))
	}
	intrinsics["strings.ReplaceAll"] = func(c *Ctx, st *State, in ssa.Instruction, args []Value) Value {
		a, ok1 := concStr(args[0])
		b, ok2 := concStr(args[1])
		d, ok3 := concStr(args[2])
		if !(ok1 && ok2 && ok3) {
			unsupported("strings.ReplaceAll on symbolic arguments")
		}
		return conc(strings.ReplaceAll(a, b, d))
	}
	for _, nm := range []string{"strings.TrimPrefix", "strings.TrimSuffix"} {
		name := nm
		intrinsics[name] = func(c *Ctx, st *State, in ssa.Instruction, args []Value) Value {
			a, ok1 := concStr(args[0])
			b, ok2 := concStr(args[1])
			if !(ok1 && ok2) {
				unsupported("%s on symbolic arguments", name)
			}
			if name == "strings.TrimPrefix" {
				return conc(strings.TrimPrefix(a, b))
			}
			return conc(strings.TrimSuffix(a, b))
		}
	}
	intrinsics["strings.ToLower"] = func(c *Ctx, st *State, in ssa.Instruction, args []Value) Value {
		a, ok := args[0].(StrV)
		if !ok || a.Conc == nil {
			unsupported("strings.ToLower on a symbolic string")
		}
		return conc(strings.ToLower(*a.Conc))
	}
	intrinsics["strconv.Itoa"] = func(c *Ctx, st *State, in ssa.Instruction, args []Value) Value {
		t := args[0].(*Term)
		if isNum(t) {
			v := t.Val
			if t.Sort.Kind == SBV {
				v = bvSigned(t.Val, t.Sort.Bits)
			}
			return conc(v.String())
		}
		return StrV{Spec: "itoa", SArgs: []Value{t}}
	}
	// sync primitives: ghost events (the lock discipline itself is checked by the C10/C19 obligations)
	for _, n := range []string{"(*sync.Mutex).Lock", "(*sync.Mutex).Unlock", "(*sync.RWMutex).Lock", "(*sync.RWMutex).Unlock", "(*sync.RWMutex).RLock", "(*sync.RWMutex).RUnlock"} {
		name := n
		intrinsics[name] = func(c *Ctx, st *State, in ssa.Instruction, args []Value) Value {
			st.CallLog = append(st.CallLog, CallRec{Callee: name, Args: args})
			return nil
		}
	}
	intrinsics["math.Inf"] = func(c *Ctx, st *State, in ssa.Instruction, args []Value) Value {
		if !c.FP {
			unsupported("math.Inf in real mode")
		}
		s := args[0].(*Term)
		pos := mk("fpinf", FPSort)
		if isNum(s) {
			sv := s.Val
			if s.Sort.Kind == SBV {
				sv = bvSigned(s.Val, s.Sort.Bits)
			}
			if sv.Sign() >= 0 {
				return pos
			}
			return mk("fp.neg", FPSort, pos)
		}
		z := NumC(big.NewInt(0), s.Sort)
		return Ite(Cmp(">=", s, z, true), pos, mk("fp.neg", FPSort, pos))
	}
}

// symbolicStrIntrinsics: models used when an argument is symbolic (filled in by the properties that need them).
var symbolicStrIntrinsics = map[string]intrinsicFn{}
