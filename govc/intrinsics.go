package main

// Intrinsic models of standard-library and dependency functions (trusted; listed in evidence).

import (
	"unicode"
	"fmt"
	"os"
	"go/types"
	"math/big"
	"strconv"
	"strings"

	"golang.org/x/tools/go/ssa"
)

var _ = big.NewInt
var _ types.Type

// intrinsic returns (result, true) when the callee is modelled here.
func (c *Ctx) intrinsic(st *State, in ssa.Instruction, callee *ssa.Function, args []Value) (Value, bool) {
	name := callee.String()
	f, ok := intrinsics[name]
	if !ok && callee.Synthetic != "" {
		// promoted method of an embedded sync.Mutex (e.g. (*tScreen).Lock): the wrapper of an intrinsic
		for _, m := range []string{"Lock", "Unlock"} {
			if strings.HasSuffix(name, ")."+m) && strings.Contains(callee.Synthetic, "(*sync.Mutex)."+m) {
				f, ok = intrinsics["(*sync.Mutex)."+m]
				name = "(*sync.Mutex)." + m
			}
		}
	}
	if !ok {
		return nil, false
	}
	r := f(c, st, in, args)
	if _, no := r.(notIntrinsic); no {
		return nil, false
	}
	c.Assumed["intrinsic model of "+name] = true
	return r, true
}

type intrinsicFn func(c *Ctx, st *State, in ssa.Instruction, args []Value) Value

var intrinsics = map[string]intrinsicFn{}

func init() {
	// unicode.Is(table, r) / unicode.In(r, tables...) on a CONCRETE rune (evaluation rule): answered by the unicode
	// package linked into the verifier - the same standard library the library is built with - for the table(s) the
	// CODE passes (identified by the name of the package variable, e.g. unicode.Cf).  Symbolic runes go through the
	// assumed contracts (spec/trusted/std.spec).
	tableOf := func(v Value) *unicode.RangeTable {
		p, ok := v.(PtrV)
		if !ok || p.Sym == nil {
			return nil
		}
		name := p.Sym.Name
		if k := strings.Index(name, "global."); k >= 0 {
			name = name[k+7:]
			if d := strings.Index(name, "."); d >= 0 {
				name = name[:d]
			}
			if t, ok := unicode.Categories[name]; ok {
				return t
			}
			if t, ok := unicode.Properties[name]; ok {
				return t
			}
			if t, ok := unicode.Scripts[name]; ok {
				return t
			}
		}
		return nil
	}
	concRune := func(v Value) (rune, bool, bool) {
		t, ok := v.(*Term)
		if !ok || !isNum(t) {
			return 0, false, false
		}
		r := bvSigned(t.Val, 32).Int64()
		if r < 0 || r > 0x10FFFF {
			return 0, true, false
		}
		return rune(r), true, true
	}
	intrinsics["unicode.Is"] = func(c *Ctx, st *State, in ssa.Instruction, args []Value) Value {
		if len(args) != 2 {
			return notIntrinsic{}
		}
		r, conc, valid := concRune(args[1])
		tab := tableOf(args[0])
		if !conc || tab == nil {
			return notIntrinsic{}
		}
		if !valid {
			return False()
		}
		return BoolT(unicode.Is(tab, r))
	}
	intrinsics["unicode.In"] = func(c *Ctx, st *State, in ssa.Instruction, args []Value) Value {
		if len(args) != 2 {
			return notIntrinsic{}
		}
		r, conc, valid := concRune(args[0])
		sl, ok := args[1].(SliceV)
		if !conc || !ok || sl.Heap || sl.Obj == nil {
			return notIntrinsic{}
		}
		arr, ok := c.mem(st, sl.Obj).(*ArrayV)
		if !ok {
			return notIntrinsic{}
		}
		var tabs []*unicode.RangeTable
		for k := sl.COff; k < sl.COff+sl.CLen && k < len(arr.Elems); k++ {
			t := tableOf(arr.Elems[k])
			if t == nil {
				return notIntrinsic{}
			}
			tabs = append(tabs, t)
		}
		if !valid {
			return False()
		}
		return BoolT(unicode.In(r, tabs...))
	}
	// go-runewidth's RuneWidth on a CONCRETE printable ASCII rune is 1 (evaluation rule only; every other argument goes
	// through the assumed contract or the dependency's source)
	intrinsics["github.com/mattn/go-runewidth.RuneWidth"] = func(c *Ctx, st *State, in ssa.Instruction, args []Value) Value {
		if len(args) != 1 {
			return notIntrinsic{}
		}
		t, ok := args[0].(*Term)
		if !ok || !isNum(t) {
			return notIntrinsic{}
		}
		r := bvSigned(t.Val, 32).Int64()
		if r < 0x20 || r > 0x7e {
			if c.InlineAll && in != nil && in.Parent() != nil && in.Parent().Name() == "cellWidth" {
				// evaluation of tcell's cellWidth on a non-ASCII rune: what go-runewidth says is evaluated separately
				// from the dependency's source (C09); here it is an unknown width
				return Fresh("runewidth.of", c.idx(0).Sort)
			}
			return notIntrinsic{}
		}
		return c.idx(1)
	}
	intrinsics["math.IsNaN"] = func(c *Ctx, st *State, in ssa.Instruction, args []Value) Value {
		t := args[0].(*Term)
		if t.Sort.Kind == SFP {
			return mk("fp.isNaN", BoolSort, t)
		}
		return False()
	}
	intrinsics["reflect.DeepEqual"] = func(c *Ctx, st *State, in ssa.Instruction, args []Value) Value {
		a, ok1 := args[0].(IfaceV)
		b, ok2 := args[1].(IfaceV)
		if !ok1 || !ok2 || a.Dyn == nil || b.Dyn == nil {
			unsupported("reflect.DeepEqual on unknown dynamic types")
		}
		if !types.Identical(a.Dyn, b.Dyn) {
			return False()
		}
		sa, ok1 := a.Val.(SliceV)
		sb, ok2 := b.Val.(SliceV)
		if !ok1 || !ok2 {
			unsupported("reflect.DeepEqual on %s", a.Dyn)
		}
		if _, isBasic := under(sa.Elem).(*types.Basic); !isBasic {
			unsupported("reflect.DeepEqual on slices of %s", sa.Elem)
		}
		env := &SpecEnv{c: c, st: st, vars: map[string]Value{}}
		ha, hb := c.toHeapSlice(st, sa, sa.Elem), c.toHeapSlice(st, sb, sb.Elem)
		nilEq := Eq(Eq(ha.Ref, IntC(0)), Eq(hb.Ref, IntC(0)))
		return And(nilEq, c.seqEq(env, ha, hb))
	}
	intrinsics["time.Now"] = func(c *Ctx, st *State, in ssa.Instruction, args []Value) Value {
		c.Assumed["time.Now() returns an arbitrary time value (ghost clock not modelled)"] = true
		call := in.(ssa.CallInstruction)
		v := c.symbolic(st, call.Common().Signature().Results().At(0).Type(), "now")
		st.CallLog = append(st.CallLog, CallRec{Callee: "time.Now", Ret: v})
		return v
	}
	// standard-library string helpers: executed natively when every argument is concrete
	str2 := func(name string, f func(a, b string) Value) {
		intrinsics[name] = func(c *Ctx, st *State, in ssa.Instruction, args []Value) Value {
			a, ok1 := args[0].(StrV)
			b, ok2 := args[1].(StrV)
			if !ok1 || !ok2 || a.Conc == nil || b.Conc == nil {
				if g, ok := symbolicStrIntrinsics[name]; ok {
					return g(c, st, in, args)
				}
				unsupported("%s on symbolic strings", name)
			}
			return f(*a.Conc, *b.Conc)
		}
	}
	str2("strings.HasPrefix", func(a, b string) Value { return BoolT(strings.HasPrefix(a, b)) })
	str2("strings.HasSuffix", func(a, b string) Value { return BoolT(strings.HasSuffix(a, b)) })
	str2("strings.Contains", func(a, b string) Value { return BoolT(strings.Contains(a, b)) })
	intrinsics["strings.Index"] = func(c *Ctx, st *State, in ssa.Instruction, args []Value) Value {
		a, ok1 := args[0].(StrV)
		b, ok2 := args[1].(StrV)
		if ok1 && ok2 && a.Conc != nil && b.Conc != nil {
			return c.idx(int64(strings.Index(*a.Conc, *b.Conc)))
		}
		if g, ok := symbolicStrIntrinsics["strings.Index"]; ok {
			return g(c, st, in, args)
		}
		unsupported("strings.Index on symbolic strings")
		return nil
	}
	concStr := func(v Value) (string, bool) {
		x, ok := v.(StrV)
		if !ok || x.Conc == nil {
			return "", false
		}
		return *x.Conc, true
	}
	concInt := func(v Value) (int, bool) {
		t, ok := v.(*Term)
		if !ok || !isNum(t) {
			return 0, false
		}
		if t.Sort.Kind == SBV {
			return int(bvSigned(t.Val, t.Sort.Bits).Int64()), true
		}
		return int(t.Val.Int64()), true
	}
	intrinsics["strings.Replace"] = func(c *Ctx, st *State, in ssa.Instruction, args []Value) Value {
		a, ok1 := concStr(args[0])
		b, ok2 := concStr(args[1])
		d, ok3 := concStr(args[2])
		n, ok4 := concInt(args[3])
		if !(ok1 && ok2 && ok3 && ok4) {
			unsupported("strings.Replace on symbolic arguments")
		}
		return conc(strings.Replace(a, b, d, n))
	}
	intrinsics["strings.ReplaceAll"] = func(c *Ctx, st *State, in ssa.Instruction, args []Value) Value {
		a, ok1 := concStr(args[0])
		b, ok2 := concStr(args[1])
		d, ok3 := concStr(args[2])
		if !(ok1 && ok2 && ok3) {
			unsupported("strings.ReplaceAll on symbolic arguments")
		}
		return conc(strings.ReplaceAll(a, b, d))
	}
	for _, nm := range []string{"strings.TrimPrefix", "strings.TrimSuffix"} {
		name := nm
		intrinsics[name] = func(c *Ctx, st *State, in ssa.Instruction, args []Value) Value {
			a, ok1 := concStr(args[0])
			b, ok2 := concStr(args[1])
			if !(ok1 && ok2) {
				unsupported("%s on symbolic arguments", name)
			}
			if name == "strings.TrimPrefix" {
				return conc(strings.TrimPrefix(a, b))
			}
			return conc(strings.TrimSuffix(a, b))
		}
	}
	// further pure string functions on concrete arguments (Go's own implementation is the semantics)
	for nm, f := range map[string]func(a, b string) string{"strings.TrimRight": strings.TrimRight, "strings.TrimLeft": strings.TrimLeft, "strings.Trim": strings.Trim} {
		name, fn := nm, f
		intrinsics[name] = func(c *Ctx, st *State, in ssa.Instruction, args []Value) Value {
			a, ok1 := concStr(args[0])
			b, ok2 := concStr(args[1])
			if !(ok1 && ok2) {
				unsupported("%s on symbolic arguments", name)
			}
			return conc(fn(a, b))
		}
	}
	for nm, f := range map[string]func(a string) string{"strings.TrimSpace": strings.TrimSpace, "strings.ToUpper": strings.ToUpper} {
		name, fn := nm, f
		intrinsics[name] = func(c *Ctx, st *State, in ssa.Instruction, args []Value) Value {
			a, ok := concStr(args[0])
			if !ok {
				unsupported("%s on a symbolic string", name)
			}
			return conc(fn(a))
		}
	}
	intrinsics["strings.ToLower"] = func(c *Ctx, st *State, in ssa.Instruction, args []Value) Value {
		a, ok := args[0].(StrV)
		if !ok || a.Conc == nil {
			unsupported("strings.ToLower on a symbolic string")
		}
		return conc(strings.ToLower(*a.Conc))
	}
	intrinsics["strconv.Itoa"] = func(c *Ctx, st *State, in ssa.Instruction, args []Value) Value {
		t := args[0].(*Term)
		if isNum(t) {
			v := t.Val
			if t.Sort.Kind == SBV {
				v = bvSigned(t.Val, t.Sort.Bits)
			}
			return conc(v.String())
		}
		return StrV{Spec: "itoa", SArgs: []Value{t}}
	}
	// bytes.Buffer used as an accumulator / reader over concrete-shaped data: rope model (the receiver's
	// byte slice is engine-side; buffers over symbolic byte slices are executed from the library source instead)
	bufRope := func(c *Ctx, st *State, v Value) (*Object, bool) {
		p, ok := v.(PtrV)
		if !ok || p.Nil || p.Obj == nil {
			return nil, false
		}
		// locate the Buffer object: the pointer may be to a field inside a larger object; use a ghost key per (obj,path)
		bv, ok := c.readPath(st, c.mem(st, p.Obj), p.Path).(*StructV)
		if !ok || len(bv.F) < 1 {
			return nil, false
		}
		if sl, ok := bv.F[0].(SliceV); ok && sl.Heap {
			return nil, false
		}
		return p.Obj, true
	}
	ropeKey := func(v Value) string {
		p := v.(PtrV)
		return "rope:" + pathKey(p.Obj, pathInts(p.Path))
	}
	getRope := func(st *State, k string) StrV {
		if r, ok := st.Ghost[k].(StrV); ok {
			return r
		}
		return conc("")
	}
	// initRope: the first time a buffer is touched its rope is the unread part of its concrete byte slice
	initRope := func(c *Ctx, st *State, v Value, k string) {
		if _, ok := st.Ghost[k]; ok {
			return
		}
		p := v.(PtrV)
		bv := c.readPath(st, c.mem(st, p.Obj), p.Path).(*StructV)
		sl, _ := bv.F[0].(SliceV)
		off := 0
		if t, ok := bv.F[1].(*Term); ok && isNum(t) {
			off = c.constIdx(t)
		}
		if sl.Obj == nil || off >= sl.CLen {
			st.Ghost[k] = conc("")
			return
		}
		sub := SliceV{Elem: sl.Elem, Obj: sl.Obj, COff: sl.COff + off, CLen: sl.CLen - off, CCap: sl.CCap - off}
		st.Ghost[k] = c.bytesToString(st, sub).(StrV)
	}
	bufMethod := func(name string, f func(c *Ctx, st *State, in ssa.Instruction, args []Value, key string) Value) {
		full := "(*bytes.Buffer)." + name
		intrinsics[full] = func(c *Ctx, st *State, in ssa.Instruction, args []Value) Value {
			if _, ok := bufRope(c, st, args[0]); !ok {
				return notIntrinsic{}
			}
			initRope(c, st, args[0], ropeKey(args[0]))
			if os.Getenv("GOVC_DEBUG") != "" {
				fmt.Printf("buf %s %s before: %s\n", name, ropeKey(args[0]), showValue(st.Ghost[ropeKey(args[0])]))
			}
			return f(c, st, in, args, ropeKey(args[0]))
		}
	}
	bufMethod("Reset", func(c *Ctx, st *State, in ssa.Instruction, args []Value, k string) Value {
		st.Ghost[k] = conc("")
		return nil
	})
	bufMethod("WriteString", func(c *Ctx, st *State, in ssa.Instruction, args []Value, k string) Value {
		s := args[1].(StrV)
		st.Ghost[k] = c.strConcat(getRope(st, k), s)
		return &TupleV{V: []Value{c.strLen(st, s), IfaceV{Nil: true}}}
	})
	bufMethod("WriteByte", func(c *Ctx, st *State, in ssa.Instruction, args []Value, k string) Value {
		b := args[1].(*Term)
		var piece StrV
		if isNum(b) {
			piece = conc(string([]byte{byte(b.Val.Int64())}))
		} else {
			piece = StrV{Spec: "chr", SArgs: []Value{b}}
		}
		st.Ghost[k] = c.strConcat(getRope(st, k), piece)
		return IfaceV{Nil: true}
	})
	bufMethod("Write", func(c *Ctx, st *State, in ssa.Instruction, args []Value, k string) Value {
		s := c.bytesToString(st, args[1].(SliceV)).(StrV)
		st.Ghost[k] = c.strConcat(getRope(st, k), s)
		return &TupleV{V: []Value{c.strLen(st, s), IfaceV{Nil: true}}}
	})
	bufMethod("String", func(c *Ctx, st *State, in ssa.Instruction, args []Value, k string) Value {
		return getRope(st, k)
	})
	bufMethod("Bytes", func(c *Ctx, st *State, in ssa.Instruction, args []Value, k string) Value {
		r := getRope(st, k)
		ps := flattenRope(r)
		if len(ps) == 0 {
			return SliceV{Elem: types.Typ[types.Uint8]}
		}
		if len(ps) != 1 || ps[0].Conc == nil {
			unsupported("Bytes() of a buffer with symbolic content")
		}
		return c.stringToSlice(st, ps[0], types.Typ[types.Uint8])
	})
	bufMethod("Len", func(c *Ctx, st *State, in ssa.Instruction, args []Value, k string) Value {
		return c.strLen(st, getRope(st, k))
	})
	bufMethod("ReadByte", func(c *Ctx, st *State, in ssa.Instruction, args []Value, k string) Value {
		r := getRope(st, k)
		ps := flattenRope(r)
		if len(ps) == 0 {
			return &TupleV{V: []Value{c.byteC(0), IfaceV{Sym: IntC(1)}}}
		}
		if ps[0].Conc == nil {
			unsupported("ReadByte from a buffer whose next byte is symbolic: key %s rope %s", k, showValue(r))
		}
		s := *ps[0].Conc
		rest := append([]StrV{conc(s[1:])}, ps[1:]...)
		st.Ghost[k] = StrV{Rope: flattenRope(StrV{Rope: rest})}
		if len(flattenRope(st.Ghost[k].(StrV))) == 0 {
			st.Ghost[k] = conc("")
		}
		return &TupleV{V: []Value{c.byteC(s[0]), IfaceV{Nil: true}}}
	})
	intrinsics["time.Sleep"] = func(c *Ctx, st *State, in ssa.Instruction, args []Value) Value {
		st.CallLog = append(st.CallLog, CallRec{Callee: "time.Sleep", Args: args})
		c.Assumed["time.Sleep is a ghost event (its duration is recorded, real time is not modelled)"] = true
		return nil
	}
	intrinsics["os.Getenv"] = func(c *Ctx, st *State, in ssa.Instruction, args []Value) Value {
		n, ok := concStr(args[0])
		if !ok {
			unsupported("os.Getenv of a symbolic name")
		}
		c.Assumed["the environment is an arbitrary but fixed map from names to strings"] = true
		return c.envVar(st, n)
	}
	intrinsics["fmt.Sprintf"] = func(c *Ctx, st *State, in ssa.Instruction, args []Value) Value {
		f, ok := concStr(args[0])
		if !ok {
			unsupported("fmt.Sprintf with a symbolic format")
		}
		va, _ := args[1].(SliceV)
		var vals []interface{}
		allConc := true
		var sargs []Value
		sargs = append(sargs, conc(f))
		if va.Obj != nil {
			av := c.mem(st, va.Obj).(*ArrayV)
			for i := 0; i < va.CLen; i++ {
				iv := av.Elems[va.COff+i].(IfaceV)
				sargs = append(sargs, iv.Val)
				switch x := iv.Val.(type) {
				case *Term:
					if n, ok := concInt(x); ok && isInteger(iv.Dyn) {
						vals = append(vals, n)
					} else {
						allConc = false
					}
				case StrV:
					if x.Conc != nil {
						vals = append(vals, *x.Conc)
					} else {
						allConc = false
					}
				default:
					allConc = false
				}
			}
		}
		if allConc {
			return conc(fmt.Sprintf(f, vals...))
		}
		return StrV{Spec: "fmt", SArgs: sargs}
	}
	intrinsics["strconv.Atoi"] = func(c *Ctx, st *State, in ssa.Instruction, args []Value) Value {
		s := args[0].(StrV)
		if s.Conc != nil {
			n, err := strconv.Atoi(*s.Conc)
			if err != nil {
				return &TupleV{V: []Value{c.idx(0), IfaceV{Sym: IntC(1)}}}
			}
			return &TupleV{V: []Value{c.idx(int64(n)), IfaceV{Nil: true}}}
		}
		if s.Spec == "itoa" {
			// Atoi(Itoa(x)) == x
			return &TupleV{V: []Value{s.SArgs[0], IfaceV{Nil: true}}}
		}
		id := c.strID(st, s)
		return &TupleV{V: []Value{App("atoi."+c.modeTag(), c.IntSort(), id), IfaceV{Sym: Fresh("atoi.err", IntSort)}}}
	}
	// sync primitives: ghost events (the lock discipline itself is checked by the C10/C19 obligations)
	for _, n := range []string{"(*sync.Mutex).Lock", "(*sync.Mutex).Unlock", "(*sync.RWMutex).Lock", "(*sync.RWMutex).Unlock", "(*sync.RWMutex).RLock", "(*sync.RWMutex).RUnlock", "(*sync.WaitGroup).Done", "(*sync.WaitGroup).Add", "(*sync.WaitGroup).Wait"} {
		name := n
		intrinsics[name] = func(c *Ctx, st *State, in ssa.Instruction, args []Value) Value {
			st.CallLog = append(st.CallLog, CallRec{Callee: name, Args: args})
			return nil
		}
	}
	intrinsics["math.Inf"] = func(c *Ctx, st *State, in ssa.Instruction, args []Value) Value {
		if !c.FP {
			unsupported("math.Inf in real mode")
		}
		s := args[0].(*Term)
		pos := mk("fpinf", FPSort)
		if isNum(s) {
			sv := s.Val
			if s.Sort.Kind == SBV {
				sv = bvSigned(s.Val, s.Sort.Bits)
			}
			if sv.Sign() >= 0 {
				return pos
			}
			return mk("fp.neg", FPSort, pos)
		}
		z := NumC(big.NewInt(0), s.Sort)
		return Ite(Cmp(">=", s, z, true), pos, mk("fp.neg", FPSort, pos))
	}
}

// symbolicStrIntrinsics: models used when an argument is symbolic (filled in by the properties that need them).
var symbolicStrIntrinsics = map[string]intrinsicFn{}

// notIntrinsic: returned by a conditional intrinsic that declines (the callee is then executed from its source).
type notIntrinsic struct{}

// bytes.HasPrefix / bytes.Equal with one concrete side: expanded element by element (exact).
func init() {
	// elemAt reads element k of a byte slice (concrete or heap) as a term.
	elemAt := func(c *Ctx, st *State, s SliceV, k *Term) *Term {
		if s.Heap {
			v, _ := c.heapRead(st, s.Elem, s.Ref, Arith("+", s.Off, k), nil).(*Term)
			return v
		}
		av := c.mem(st, s.Obj).(*ArrayV)
		v, _ := c.readPath(st, av, []PathElem{{Idx: Arith("+", c.idx(int64(s.COff)), k)}}).(*Term)
		return v
	}
	concreteLen := func(s SliceV) (int, bool) {
		if s.Heap {
			return 0, false
		}
		if s.Obj == nil {
			return 0, true
		}
		return s.CLen, true
	}
	intrinsics["bytes.HasPrefix"] = func(c *Ctx, st *State, in ssa.Instruction, args []Value) Value {
		s, ok1 := args[0].(SliceV)
		p, ok2 := args[1].(SliceV)
		if !ok1 || !ok2 {
			return notIntrinsic{}
		}
		if n, ok := concreteLen(p); ok {
			// HasPrefix(s, concrete prefix of length n)
			if m, sok := concreteLen(s); sok && m < n {
				return False()
			}
			cs := []*Term{Cmp(">=", c.sliceLen(s), c.idx(int64(n)), true)}
			for k := 0; k < n; k++ {
				a, b := elemAt(c, st, s, c.idx(int64(k))), elemAt(c, st, p, c.idx(int64(k)))
				if a == nil || b == nil {
					return notIntrinsic{}
				}
				cs = append(cs, Eq(a, b))
			}
			// reading s[k] for k beyond len(s) is guarded by the length conjunct
			return And(cs...)
		}
		if n, ok := concreteLen(s); ok {
			// HasPrefix(concrete s of length n, symbolic prefix): len(prefix) <= n and it agrees with s on its length
			pl := c.sliceLen(p)
			if m, pok := concreteLen(p); pok && m > n {
				return False()
			}
			cs := []*Term{Cmp("<=", pl, c.idx(int64(n)), true)}
			for k := 0; k < n; k++ {
				a, b := elemAt(c, st, s, c.idx(int64(k))), elemAt(c, st, p, c.idx(int64(k)))
				if a == nil || b == nil {
					return notIntrinsic{}
				}
				cs = append(cs, Implies(Cmp("<", c.idx(int64(k)), pl, true), Eq(a, b)))
			}
			return And(cs...)
		}
		return notIntrinsic{}
	}
}
