package main

// Intrinsic models of standard-library and dependency functions (trusted; listed in evidence).

import (
	"go/types"
	"math/big"

	"golang.org/x/tools/go/ssa"
)

var _ = big.NewInt
var _ types.Type

// intrinsic returns (result, true) when the callee is modelled here.
func (c *Ctx) intrinsic(st *State, in ssa.Instruction, callee *ssa.Function, args []Value) (Value, bool) {
	name := callee.String()
	f, ok := intrinsics[name]
	if !ok {
		return nil, false
	}
	c.Assumed["intrinsic model of "+name] = true
	return f(c, st, in, args), true
}

type intrinsicFn func(c *Ctx, st *State, in ssa.Instruction, args []Value) Value

var intrinsics = map[string]intrinsicFn{}

func init() {
	intrinsics["math.IsNaN"] = func(c *Ctx, st *State, in ssa.Instruction, args []Value) Value {
		t := args[0].(*Term)
		if t.Sort.Kind == SFP {
			return mk("fp.isNaN", BoolSort, t)
		}
		return False()
	}
	intrinsics["math.Inf"] = func(c *Ctx, st *State, in ssa.Instruction, args []Value) Value {
		if !c.FP {
			unsupported("math.Inf in real mode")
		}
		s := args[0].(*Term)
		pos := mk("fpinf", FPSort)
		if isNum(s) {
			sv := s.Val
			if s.Sort.Kind == SBV {
				sv = bvSigned(s.Val, s.Sort.Bits)
			}
			if sv.Sign() >= 0 {
				return pos
			}
			return mk("fp.neg", FPSort, pos)
		}
		z := NumC(big.NewInt(0), s.Sort)
		return Ite(Cmp(">=", s, z, true), pos, mk("fp.neg", FPSort, pos))
	}
}
