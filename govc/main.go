package main

import (
	"fmt"
	"golang.org/x/tools/go/packages"
	"golang.org/x/tools/go/ssa"
	"golang.org/x/tools/go/ssa/ssautil"
)

func main() {
	cfg := &packages.Config{Mode: packages.LoadAllSyntax, Dir: "/repo", BuildFlags: []string{"-tags=verif"}}
	pkgs, err := packages.Load(cfg, ".", "./terminfo", "./views")
	if err != nil {
		panic(err)
	}
	prog, spkgs := ssautil.AllPackages(pkgs, ssa.GlobalDebug)
	prog.Build()
	for _, p := range spkgs {
		fmt.Println(p.Pkg.Path(), len(p.Members))
	}
}
