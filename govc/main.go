package main

import (
	"flag"
	"fmt"
	"os"
	"strings"
	"time"
)

func main() {
	rc := run()
	cleanupScratch() // solver scratch files (os.Exit would skip a deferred call)
	os.Exit(rc)
}

func run() int {
	if len(os.Args) < 2 {
		fmt.Println("usage: govc verify [-trace] <pkg.key>... | govc check <Cxx> quick|thorough | govc loops <key>")
		return 2
	}
	switch os.Args[1] {
	case "verify":
		return cmdVerify(os.Args[2:])
	case "check":
		return cmdCheck(os.Args[2:])
	case "loops":
		return cmdLoops(os.Args[2:])
	case "evalgoto":
		return cmdEvalGoto(os.Args[2:])
	case "evalcolor":
		return cmdEvalColor(os.Args[2:])
	case "evallookup":
		return cmdEvalLookup(os.Args[2:])
	case "dump":
		return cmdDump(os.Args[2:])
	case "replay":
		return cmdReplay(os.Args[2:])
	default:
		fmt.Println("unknown command", os.Args[1])
		return 2
	}
	return 0
}

const modPath = "github.com/gdamore/tcell/v2"

func expandKey(k string) string {
	switch {
	case strings.HasPrefix(k, "tcell."):
		return modPath + "." + k[6:]
	case strings.HasPrefix(k, "terminfo."):
		return modPath + "/terminfo." + k[9:]
	case strings.HasPrefix(k, "views."):
		return modPath + "/views." + k[6:]
	}
	return k
}

// devPatterns: VERIF_WASM=1 loads the js/wasm variant of the root package (developer commands).
func devPatterns() ([]string, []string) {
	if os.Getenv("VERIF_WASM") != "" {
		return []string{"."}, []string{"GOOS=js", "GOARCH=wasm"}
	}
	return []string{".", "./terminfo", "./views"}, nil
}

func cmdLoops(args []string) int {
	e, err := LoadEngine(devPatterns())
	if err != nil {
		fmt.Println(err)
		return 3
	}
	for _, a := range args {
		fn := e.FindFunc(expandKey(a))
		if fn == nil {
			fmt.Println("not found:", a)
			continue
		}
		for _, l := range e.LoopsOf(fn).Loops {
			fmt.Printf("%s loop %s header=b%d pos=%s blocks=%d\n", a, l.ID, l.Header.Index, e.posStr(l.Pos), len(l.Blocks))
		}
	}
	return 0
}

func cmdVerify(args []string) int {
	fs := flag.NewFlagSet("verify", flag.ExitOnError)
	trace := fs.Bool("trace", false, "trace instructions")
	to := fs.Int("timeout", 10, "solver timeout seconds")
	dump := fs.String("dump", "", "dump SMT of obligation whose name contains this")
	lem := fs.Bool("lemmas", false, "verify all lemmas too")
	verbose := fs.Bool("v", false, "show trivial safety obligations")
	fs.Parse(args)
	e, err := LoadEngine(devPatterns())
	if err != nil {
		fmt.Println("load error:", err)
		return 3
	}
	if len(e.Errors) > 0 {
		fmt.Println("package errors:", e.Errors)
	}
	traceFlag = *trace
	rc := 0
	var all []*ObGroup
	for _, a := range fs.Args() {
		key := expandKey(a)
		t0 := time.Now()
		r := e.VerifyFunc(key)
		if r.Err != "" {
			fmt.Printf("%s: ERROR %s\n", a, r.Err)
			rc = 3
			continue
		}
		gs := groupObligations(r.Obs)
		discharge(gs, DischargeOpts{Timeout: time.Duration(*to) * time.Second, Par: 12, ModelTerms: defaultModelTerms})
		fmt.Printf("%s: %d obligation groups (%d instances), %d paths, %.1fs; loops %v\n", a, len(gs), len(r.Obs), r.Paths, time.Since(t0).Seconds(), r.Loops)
		for _, g := range gs {
			mark := "ok "
			if g.Status == "failed" || g.Status == "unknown" || g.Status == "vacuous" {
				mark = "!! "
				rc = 1
			}
			if g.Status == "trivial" && strings.Contains(g.Kind, "safety") && !*verbose {
				continue
			}
			fmt.Printf("  %s%-9s %-70s x%d %s %.2fs %s\n", mark, g.Status, g.Name, len(g.Instances), g.Solver, g.Secs, g.Src)
			if os.Getenv("GOVC_TRIED") != "" && g.Secs > 5 {
				fmt.Printf("      tried: %s\n", strings.Join(g.Tried, " "))
			}
			if g.Status == "unknown" && g.Candidate {
				fmt.Printf("        (candidate input found in the quantifier-weakened query)\n")
			}
			if g.Status == "failed" || (g.Status == "unknown" && g.Candidate) {
				for _, k := range sortedKeys(g.Model) {
					if strings.HasPrefix(k, "havoc.") || strings.HasPrefix(k, "ret") {
						continue
					}
					if strings.HasPrefix(k, "(") && !*verbose {
						continue // array contents only with -v
					}
					fmt.Printf("        %s = %s\n", k, g.Model[k])
				}
			}
			if *dump != "" && strings.Contains(g.Name, *dump) {
				fmt.Println(Script([]*Term{g.query()}, nil, "", TS.Defs))
			}
		}
		for _, as := range r.Assumed {
			fmt.Println("  assumed:", as)
		}
		for _, as := range r.Inlined {
			fmt.Println("  inlined:", as)
		}
		all = append(all, gs...)
	}
	if *lem {
		for _, l := range e.Specs.Lemmas {
			r := e.VerifyLemma(l)
			if r.Err != "" {
				fmt.Printf("lemma %s: ERROR %s\n", l.Name, r.Err)
				rc = 3
				continue
			}
			gs := groupObligations(r.Obs)
			discharge(gs, DischargeOpts{Timeout: time.Duration(*to) * time.Second, Par: 12})
			for _, g := range gs {
				mark := "ok "
				if g.Status == "failed" || g.Status == "unknown" || g.Status == "vacuous" {
					mark = "!! "
					rc = 1
				}
				fmt.Printf("  %s%-9s %-70s %s %.2fs %s\n", mark, g.Status, g.Name, g.Solver, g.Secs, g.Src)
				if *dump != "" && strings.Contains(g.Name, *dump) {
					fmt.Println(Script([]*Term{g.query()}, nil, "", TS.Defs))
				}
			}
		}
	}
	return rc
}

var traceFlag bool

// defaultModelTerms: all free scalar variables of the query.
func defaultModelTerms(g *ObGroup) []*Term {
	vars := map[string]*Sort{}
	ufs := map[string]bool{}
	seen := map[int]bool{}
	collectDecls(g.query(), vars, ufs, seen)
	var out []*Term
	var names []string
	for n := range vars {
		names = append(names, n)
	}
	sortStrings(names)
	have := map[int]bool{}
	for _, n := range names {
		s := vars[n]
		if s.Kind == SArray {
			continue
		}
		v := Var(n, s)
		have[v.id] = true
		out = append(out, v)
	}
	// contents of input slices / strings (first elements) for the replay
	for _, o := range g.Instances {
		if o.Ctx != nil && o.Ctx.Fn != nil && len(o.Ctx.ParamVals) > 0 {
			for _, t := range o.Ctx.inputLeafTerms() {
				if !have[t.id] {
					have[t.id] = true
					out = append(out, t)
				}
			}
			break
		}
	}
	return out
}

func sortStrings(s []string) {
	for i := 1; i < len(s); i++ {
		for j := i; j > 0 && s[j] < s[j-1]; j-- {
			s[j], s[j-1] = s[j-1], s[j]
		}
	}
}

