package main

// State merging at control-flow joins: a symbolic branch is explored on both sides up to the
// immediate post-dominator of the branching block, and the arriving states are merged
// (values become ite terms).  Falls back to plain forking whenever the states do not merge.

import (
	"os"
	"fmt"
	"math/big"

	"golang.org/x/tools/go/ssa"
)

type pdomInfo struct {
	ipdom map[*ssa.BasicBlock]*ssa.BasicBlock
}

var pdomCache = map[*ssa.Function]*pdomInfo{}

func postDominators(fn *ssa.Function) *pdomInfo {
	if p, ok := pdomCache[fn]; ok {
		return p
	}
	n := len(fn.Blocks)
	info := &pdomInfo{ipdom: map[*ssa.BasicBlock]*ssa.BasicBlock{}}
	pdomCache[fn] = info
	if n == 0 {
		return info
	}
	// pd[i] = set of post-dominators of block i (index n = virtual exit)
	full := func() []bool {
		s := make([]bool, n+1)
		for i := range s {
			s[i] = true
		}
		return s
	}
	// Early exits (returns in the middle of the function, panics) are ignored when looking for join points: the
	// paths that take them end there, and the remaining paths still meet at the join.  Only the last returning
	// block counts as the exit.
	mainExit := -1
	for i, b := range fn.Blocks {
		if len(b.Succs) == 0 && len(b.Instrs) > 0 && b != fn.Recover && len(b.Preds) > 0 || (len(b.Succs) == 0 && n == 1) {
			if _, isRet := b.Instrs[len(b.Instrs)-1].(*ssa.Return); isRet {
				mainExit = i
			}
		}
	}
	pd := make([][]bool, n)
	for i, b := range fn.Blocks {
		if len(b.Succs) == 0 && (i == mainExit || mainExit < 0) {
			s := make([]bool, n+1)
			s[i], s[n] = true, true
			pd[i] = s
		} else {
			pd[i] = full()
		}
	}
	changed := true
	for changed {
		changed = false
		for i := n - 1; i >= 0; i-- {
			b := fn.Blocks[i]
			if len(b.Succs) == 0 {
				continue
			}
			ns := full()
			for _, s := range b.Succs {
				ps := pd[s.Index]
				for k := range ns {
					ns[k] = ns[k] && ps[k]
				}
			}
			ns[i] = true
			same := true
			for k := range ns {
				if ns[k] != pd[i][k] {
					same = false
					break
				}
			}
			if !same {
				pd[i] = ns
				changed = true
			}
		}
	}
	// immediate post-dominator: the strict post-dominator that is post-dominated by all other strict post-dominators
	for i, b := range fn.Blocks {
		if !pd[i][n] {
			continue // cannot reach an exit
		}
		var cands []int
		for k := 0; k < n; k++ {
			if k != i && pd[i][k] {
				cands = append(cands, k)
			}
		}
		for _, k := range cands {
			ok := true
			for _, m := range cands {
				if m != k && !pd[k][m] {
					ok = false
					break
				}
			}
			if ok {
				info.ipdom[b] = fn.Blocks[k]
				break
			}
		}
	}
	return info
}

// mergePoint returns the join block for a symbolic branch at block b, or nil when merging is not attempted.
func (c *Ctx) mergePoint(fr *Frame, b *ssa.BasicBlock) *ssa.BasicBlock {
	if c.NoMerge {
		return nil
	}
	li := c.Eng.LoopsOf(fr.Fn)
	for _, l := range li.Loops {
		if l.Blocks[b] && c.loopSpec(fr, l) == nil {
			return nil // inside an evaluated (unrolled) loop: plain forking
		}
	}
	j := postDominators(fr.Fn).ipdom[b]
	if j == nil {
		return nil
	}
	// the join must not be the header of a cut loop entered from inside (back edge ends paths)
	return j
}

func numPhis(b *ssa.BasicBlock) int {
	n := 0
	for _, in := range b.Instrs {
		if _, ok := in.(*ssa.Phi); !ok {
			break
		}
		n++
	}
	return n
}

// runUntil runs st (and its forks) until every path has ended or sits at the start of block j in frame depth `depth`.
func (c *Ctx) runUntil(st *State, depth int, j *ssa.BasicBlock, onReturn func(*State, Value)) []*State {
	var arrived []*State
	work := []*State{st}
	np := numPhis(j)
	for len(work) > 0 {
		cur := work[len(work)-1]
		work = work[:len(work)-1]
		for {
			if len(cur.Frames) == depth && cur.top().Block == j && cur.top().PC == np {
				arrived = append(arrived, cur)
				break
			}
			forks, done := c.step(cur, onReturn)
			for _, f := range forks {
				c.Paths++
				if c.Paths > c.maxPaths {
					panic(VerErr{fmt.Sprintf("PATH-BUDGET: more than %d paths in %s", c.maxPaths, fnDisplay(c.Fn))})
				}
				work = append(work, f)
			}
			if done {
				break
			}
		}
	}
	return arrived
}

func sameValue(a, b Value) bool {
	switch x := a.(type) {
	case *Term:
		y, ok := b.(*Term)
		return ok && x == y
	case *StructV:
		y, ok := b.(*StructV)
		if !ok {
			return false
		}
		if x == y {
			return true
		}
		if len(x.F) != len(y.F) {
			return false
		}
		for i := range x.F {
			if !sameValue(x.F[i], y.F[i]) {
				return false
			}
		}
		return true
	case *ArrayV:
		y, ok := b.(*ArrayV)
		if !ok {
			return false
		}
		if x == y {
			return true
		}
		if len(x.Elems) != len(y.Elems) {
			return false
		}
		for i := range x.Elems {
			if !sameValue(x.Elems[i], y.Elems[i]) {
				return false
			}
		}
		return true
	case *TupleV:
		y, ok := b.(*TupleV)
		if !ok || len(x.V) != len(y.V) {
			return false
		}
		for i := range x.V {
			if !sameValue(x.V[i], y.V[i]) {
				return false
			}
		}
		return true
	case StrV:
		y, ok := b.(StrV)
		if !ok {
			return false
		}
		if x.Conc != nil || y.Conc != nil {
			return x.Conc != nil && y.Conc != nil && *x.Conc == *y.Conc
		}
		if x.ID != nil || y.ID != nil {
			return x.ID == y.ID
		}
		if x.Arr != nil || y.Arr != nil {
			return x.Arr == y.Arr && x.Off == y.Off && x.Len == y.Len
		}
		if len(x.Rope) != len(y.Rope) || x.Spec != y.Spec || len(x.SArgs) != len(y.SArgs) {
			return false
		}
		for i := range x.Rope {
			if !sameValue(x.Rope[i], y.Rope[i]) {
				return false
			}
		}
		for i := range x.SArgs {
			if !sameValue(x.SArgs[i], y.SArgs[i]) {
				return false
			}
		}
		return true
	case PtrV:
		y, ok := b.(PtrV)
		if !ok {
			return false
		}
		if x.Nil != y.Nil || x.Obj != y.Obj || x.Heap != y.Heap || x.Ref != y.Ref || x.Idx != y.Idx || x.Sym != y.Sym || len(x.Path) != len(y.Path) {
			return false
		}
		for i := range x.Path {
			if x.Path[i] != y.Path[i] {
				return false
			}
		}
		return true
	case SliceV:
		y, ok := b.(SliceV)
		return ok && x.Obj == y.Obj && x.COff == y.COff && x.CLen == y.CLen && x.CCap == y.CCap && x.Heap == y.Heap && x.Ref == y.Ref && x.Off == y.Off && x.Len == y.Len && x.Cap == y.Cap
	case IfaceV:
		y, ok := b.(IfaceV)
		if !ok || x.Nil != y.Nil || x.Sym != y.Sym {
			return false
		}
		if (x.Dyn == nil) != (y.Dyn == nil) {
			return false
		}
		if x.Dyn != nil {
			return x.Dyn == y.Dyn && sameValue(x.Val, y.Val)
		}
		return true
	case MapV:
		y, ok := b.(MapV)
		return ok && x.Nil == y.Nil && x.Obj == y.Obj
	case FuncV:
		y, ok := b.(FuncV)
		if !ok || x.Fn != y.Fn || x.Builtin != y.Builtin || x.Nil != y.Nil || x.Sym != y.Sym || len(x.Bindings) != len(y.Bindings) {
			return false
		}
		for i := range x.Bindings {
			if !sameValue(x.Bindings[i], y.Bindings[i]) {
				return false
			}
		}
		return true
	case ChanV:
		y, ok := b.(ChanV)
		return ok && x == y
	case *RangeIter:
		y, ok := b.(*RangeIter)
		return ok && x == y
	case *MapObj:
		y, ok := b.(*MapObj)
		return ok && x == y
	case *ChanObj:
		y, ok := b.(*ChanObj)
		return ok && x == y
	case UnknownV:
		y, ok := b.(UnknownV)
		return ok && x == y
	case nil:
		return b == nil
	}
	return false
}

// mergeStates merges states sitting at the same program point.  Returns the merged state alone, or the
// inputs unchanged when they cannot be merged.
func (c *Ctx) mergeStates(ss []*State) (out []*State) {
	if len(ss) <= 1 {
		return ss
	}
	defer func() {
		if r := recover(); r != nil {
			if ve, ok := r.(VerErr); ok {
				if os.Getenv("GOVC_DEBUG_MERGE") != "" {
					fmt.Println("merge failed:", ve.Msg)
				}
				out = ss // not mergeable: keep forking
				return
			}
			panic(r)
		}
	}()
	first := ss[0]
	for _, s := range ss[1:] {
		if len(s.Frames) != len(first.Frames) || len(s.Loops) != len(first.Loops) || len(s.Record) != len(first.Record) || s.Disc != first.Disc {
			return ss
		}
		for i := range s.Loops {
			if s.Loops[i] != first.Loops[i] {
				return ss
			}
		}
		for i, f := range s.Frames {
			g := first.Frames[i]
			if f.Fn != g.Fn || f.Block != g.Block || f.PC != g.PC || len(f.Defers) != len(g.Defers) {
				return ss
			}
			for k := range f.Defers {
				if f.Defers[k].Call != g.Defers[k].Call {
					return ss
				}
			}
		}
	}
	// common prefix of the path conditions
	n := len(first.PC)
	for _, s := range ss[1:] {
		k := 0
		for k < n && k < len(s.PC) && s.PC[k] == first.PC[k] {
			k++
		}
		n = k
	}
	res := make([]*Term, len(ss))
	for i, s := range ss {
		res[i] = And(s.PC[n:]...)
	}
	pick := func(vals []Value) Value {
		all := true
		for _, v := range vals[1:] {
			if !sameValue(vals[0], v) {
				all = false
				break
			}
		}
		if all {
			return vals[0]
		}
		r := vals[len(vals)-1]
		for i := len(vals) - 2; i >= 0; i-- {
			r = c.valueIte(res[i], vals[i], r)
		}
		return r
	}
	m := first.clone()
	m.PathID = c.newPathID()
	m.PC = append([]*Term(nil), first.PC[:n]...)
	m.pcSeen = map[int]bool{}
	for _, t := range m.PC {
		m.pcSeen[t.id] = true
	}
	m.assume(Or(res...))
	// environments
	for fi, fr := range m.Frames {
		for k := range fr.Env {
			vals := make([]Value, 0, len(ss))
			ok := true
			for _, s := range ss {
				v, has := s.Frames[fi].Env[k]
				if !has {
					ok = false
					break
				}
				vals = append(vals, v)
			}
			if !ok {
				delete(fr.Env, k) // defined on one side only: dead after the join
				continue
			}
			fr.Env[k] = pick(vals)
		}
		// defers: arguments
		for di := range fr.Defers {
			for ai := range fr.Defers[di].Args {
				vals := make([]Value, len(ss))
				for si, s := range ss {
					vals[si] = s.Frames[fi].Defers[di].Args[ai]
				}
				fr.Defers[di].Args[ai] = pick(vals)
			}
		}
	}
	// memory
	objs := map[*Object]bool{}
	for _, s := range ss {
		for o := range s.Mem {
			objs[o] = true
		}
	}
	for o := range objs {
		vals := make([]Value, 0, len(ss))
		missing := false
		for _, s := range ss {
			v, has := s.Mem[o]
			if !has {
				if iv, ok := c.initVals[o]; ok {
					v = iv
				} else {
					missing = true
					break
				}
			}
			vals = append(vals, v)
		}
		if missing {
			// allocated on one side only: unreachable from the other side's values
			for _, s := range ss {
				if v, has := s.Mem[o]; has {
					m.Mem[o] = v
					break
				}
			}
			continue
		}
		m.Mem[o] = pick(vals)
	}
	// heap
	keys := map[string]bool{}
	for _, s := range ss {
		for k := range s.Heap {
			keys[k] = true
		}
	}
	for k := range keys {
		var terms []*Term
		var sort *Sort
		for _, s := range ss {
			if t, ok := s.Heap[k]; ok {
				sort = t.Sort
			}
		}
		for _, s := range ss {
			t, ok := s.Heap[k]
			if !ok {
				t = Var("heap0."+c.modeTag()+"."+sanitize(k), sort)
			}
			terms = append(terms, t)
		}
		r := terms[len(terms)-1]
		for i := len(terms) - 2; i >= 0; i-- {
			r = Ite(res[i], terms[i], r)
		}
		m.Heap[k] = r
	}
	// allocation mark: the maximum (fresh references only need to be beyond everything allocated)
	m.Alloc = mergeAlloc(c, ss, res)
	// ghost
	for k := range m.Ghost {
		vals := make([]Value, 0, len(ss))
		ok := true
		for _, s := range ss {
			v, has := s.Ghost[k]
			if !has {
				ok = false
				break
			}
			vals = append(vals, v)
		}
		if ok {
			m.Ghost[k] = pick(vals)
		}
	}
	// call log: common prefix, then each side's entries under that side's condition
	cl := len(first.CallLog)
	for _, s := range ss[1:] {
		k := 0
		for k < cl && k < len(s.CallLog) && sameCallRec(s.CallLog[k], first.CallLog[k]) {
			k++
		}
		cl = k
	}
	m.CallLog = append([]CallRec(nil), first.CallLog[:cl]...)
	for i, s := range ss {
		for _, r := range s.CallLog[cl:] {
			nr := r
			if nr.Cond == nil {
				nr.Cond = res[i]
			} else {
				nr.Cond = And(res[i], nr.Cond)
			}
			m.CallLog = append(m.CallLog, nr)
		}
	}
	for _, s := range ss {
		for k, v := range s.SymObjs {
			m.SymObjs[k] = v
		}
		if s.Steps > m.Steps {
			m.Steps = s.Steps
		}
		if s.CutLoops > m.CutLoops {
			m.CutLoops = s.CutLoops
		}
	}
	c.Merges++
	return []*State{m}
}

func sameCallRec(a, b CallRec) bool {
	if a.Callee != b.Callee || a.Cond != b.Cond || len(a.Args) != len(b.Args) {
		return false
	}
	for i := range a.Args {
		if !sameValue(a.Args[i], b.Args[i]) {
			return false
		}
	}
	return true
}

func mergeAlloc(c *Ctx, ss []*State, res []*Term) *Term {
	same := true
	for _, s := range ss[1:] {
		if s.Alloc != ss[0].Alloc {
			same = false
		}
	}
	if same {
		return ss[0].Alloc
	}
	// alloc0 + n forms
	best := int64(-1)
	ok := true
	for _, s := range ss {
		a := s.Alloc
		var n int64
		switch {
		case a == c.alloc0:
			n = 0
		case a.Op == "+" && len(a.Args) == 2 && a.Args[0] == c.alloc0 && isNum(a.Args[1]):
			n = a.Args[1].Val.Int64()
		default:
			ok = false
		}
		if n > best {
			best = n
		}
	}
	if ok {
		return Arith("+", c.alloc0, IntBig(big.NewInt(best)))
	}
	r := ss[len(ss)-1].Alloc
	for i := len(ss) - 2; i >= 0; i-- {
		// max is what we need; an ite on the side conditions is an upper bound only per side, so take the term-level max
		a := ss[i].Alloc
		r = Ite(Cmp(">=", a, r, true), a, r)
	}
	return r
}
