package main

// Property table: which functions / lemmas / table checks decide which property.

import (
	"go/constant"
	"bufio"
	"fmt"
	"go/types"
	"math/big"
	"os"
	"path/filepath"
	"strings"
	"time"

	"golang.org/x/tools/go/ssa"
)

var propDefs = map[string]*PropDef{}

func reg(p *PropDef) { propDefs[p.ID] = p }

func init() {
	reg(&PropDef{
		ID:    "C16",
		Level: "proof",
		Funcs: []string{"tcell.Color.Valid", "tcell.Color.IsRGB", "tcell.Color.Hex", "tcell.Color.RGB", "tcell.Color.TrueColor",
			"tcell.NewHexColor", "tcell.NewRGBColor", "tcell.PaletteColor", "tcell.FindColor"},
		Custom: []func(*PropRun){c16Tables, c16StringRoundTrip, c16FindColorNative},
		Bounded: []string{"ColorStrings/css-getcolor-image-roundtrip: CSS/GetColor/FromImageColor go through fmt, strconv and image/color; native enumeration (quick: lattice with step 5 plus boundary values; thorough: all 2^24 RGB values) - not a proof"},
		Trusted: []string{"go-colorful DistanceCIE76 is a deterministic total function and is CIE76 delta-E (assumed contract cie76)",
			"spec/std/css_colors.txt (W3C named colours, transcribed from x/image/colornames) and the xterm-256 formula in govc/props.go"},
		Assume: []string{"FindColor: every palette member has the valid flag set (type invariant of a palette; ColorDefault inside a palette defeats the code's sentinel)"},
	})
	reg(&PropDef{
		ID:     "C03",
		Level:  "proof",
		Funcs:  []string{"tcell.NewEventKey"},
		Custom: []func(*PropRun){c03Tables},
		Trusted: []string{"xterm ctlseqs 'PC-Style Function Keys' modifier encoding (parameter n = 1 + Shift(1)|Alt(2)|Ctrl(4)|Meta(8))",
			"terminfo capability naming (kLFT = shifted left, ...) as encoded in keyCapSpec"},
	})
	reg(&PropDef{
		ID:     "C07",
		Level:  "proof",
		Custom: []func(*PropRun){c07Programs, c07Malformed},
		Trusted: []string{"terminfo(5) 'Parameterized Strings' as transcribed in govc/ref_terminfo.go (the oracle)",
			"fmt.Sprintf / strconv.Itoa renderings are opaque pieces compared by their arguments"},
		Bounded: []string{"arbitrary well-formed programs: only the fixed grammar corpus in govc/c07.go is evaluated (bounded stand-in, not a proof of the general clause)"},
	})
	reg(&PropDef{
		ID:     "C14",
		Level:  "proof",
		Custom: []func(*PropRun){c14Database},
		Trusted: []string{"terminfo(5) grammar as transcribed in wellFormedProgram; table of parameters the library supplies per capability (paramArity)",
			"standard 256-colour and ISO 8613-6 direct-colour strings as constants in govc/c14.go"},
		Assume: []string{"the dynamic (infocmp) loader behind tcell.LookupTerminfo is outside the verifier's reach (external process)"},
	})
	reg(&PropDef{
		ID:     "C15",
		Level:  "proof",
		Custom: []func(*PropRun){c15Tables, c15TPuts},
		Bounded: []string{"TPuts on arbitrary strings: the database strings with padding plus a fixed padding-grammar corpus (govc/c07.go tputsCorpus) are evaluated; no inductive proof over all strings"},
		Trusted: []string{"terminfo(5) 'Parameterized Strings' as transcribed in govc/ref_terminfo.go; cup takes (row, column)"},
	})
	reg(&PropDef{
		ID:    "C08",
		Level: "proof",
		Funcs: []string{"tcell.(*CellBuffer).Size", "tcell.(*CellBuffer).GetContent", "tcell.(*CellBuffer).Dirty", "tcell.(*CellBuffer).SetDirty",
			"tcell.(*CellBuffer).Invalidate", "tcell.(*CellBuffer).LockCell", "tcell.(*CellBuffer).UnlockCell", "tcell.(*CellBuffer).Fill",
			"tcell.(*CellBuffer).SetContent", "tcell.(*CellBuffer).Resize", "tcell.cellWidth"},
		Custom: []func(*PropRun){c08FillEnum},
		Bounded: []string{"Fill: 'the column a replaced wide rune covered is dirty' is decided by a native enumeration of 3x2 buffers (the quantified clause is nonlinear in the buffer width and comes back unknown)"},
		Trusted: []string{"go-runewidth RuneWidth is a total function with values 0..2 (assumed contract runeWidth)",
			"reflect.DeepEqual on two []rune is element-wise equality plus equal nil-ness (intrinsic model)"},
		Assume: []string{"Resize is called with w,h >= 0 (a negative size panics in make; precondition derived from the call sites)"},
	})
	reg(&PropDef{
		ID:    "C12",
		Level: "proof",
		Funcs: []string{"tcell.NewEventMouse", "tcell.(*tScreen).clip", "tcell.(*tScreen).buildMouseEvent", "tcell.(*tScreen).parseXtermMouse", "tcell.(*tScreen).parseSgrMouse",
			// the driver asks both mouse parsers before it gives a byte away as a key (whatever the introducer was)
			"tcell.(*tScreen).collectEventsFromInput"},
		Custom: []func(*PropRun){c12HugeCoords},
		Trusted: []string{"xterm ctlseqs 'Button event tracking' encoding as transcribed in the spec functions xbtn/xmod",
			"bytes.Buffer methods executed from the standard library's own source"},
		Assume: []string{"the screen is at least 1x1 when mouse reports are decoded (clip precondition)", "wheel left/right codes (bits 6 and 1 both set) are outside the property"},
	})
	reg(&PropDef{
		ID:     "C17",
		Level:  "proof",
		Funcs:  []string{"tcell.(*tScreen).encodeRune", "tcell.(*tScreen).CanDisplay"},
		Custom: []func(*PropRun){c17AcsMaps, c17Charsets, c17WidePad},
		Trusted: []string{"transform.Transformer.Transform writes only into dst and returns counts within bounds (assumed interface contract); which bytes a given charset encoder produces is not modelled",
			"the encoder is deterministic, so encodeRune and CanDisplay see the same answer for the same rune (agreement of the two contracts rests on this)"},
		Assume: []string{"a non-UTF-8 locale (t.encoder != nil)"},
	})
	reg(&PropDef{
		ID:     "C10",
		Level:  "other",
		// the input goroutine hands every chunk to the main loop through a channel: the slice it sends must be one
		// it never touches again (fresh in the iteration), otherwise the two goroutines share the bytes without a lock
		Funcs:  []string{"tcell.(*tScreen).inputLoop"},
		Custom: []func(*PropRun){c10Discipline},
		Trusted: []string{"lock discipline implies data-race freedom (standard theorem, assumed; sync.Mutex semantics)",
			"functions listed as initfuncs run before the screen is shared with another goroutine (stated precondition of Init / constructors)"},
		Assume: []string{"schedules are not explored: what is decided is lock ownership at every access site on every control-flow path"},
	})
	reg(&PropDef{
		ID:    "C02",
		Level: "proof",
		Funcs: []string{"tcell.(*tScreen).parseRune", "tcell.(*tScreen).parseFunctionKey", "tcell.(*tScreen).parseFocus", "tcell.(*tScreen).parseClipboard",
			"tcell.(*tScreen).parseXtermMouse", "tcell.(*tScreen).parseSgrMouse", "tcell.(*tScreen).collectEventsFromInput", "tcell.(*tScreen).inputLoop", "tcell.(*tScreen).escBefore"},
		Custom: []func(*PropRun){c02Replays, c02KeyTables, c11DriverSplits},
		Trusted: []string{"bytes.Buffer.ReadBytes consumes up to and including the first delimiter (assumed from its documentation; the body uses an assembly IndexByte); other bytes.Buffer methods executed from source",
			"base64 Decode/DecodedLen: bounds only (assumed)", "transform.Transformer contract (bounds, no output without input)",
			"composition: independence of the read chunking follows from the per-parser prefix contracts (complete => a non-empty prefix is consumed and the events depend on that prefix only; not complete => nothing touched; partial exactly for proper prefixes of acceptable input) and the driver contract - this meta-argument is written in DESIGN.md, not machine-checked; mainLoop/inputLoop (timers, channels) are outside"},
		Assume: []string{"the key table has no empty sequence and no nil entry (established for every registered description by the C03 obligation keytable[*]/nonempty-keys)",
			"the screen is at least 1x1 while input is decoded", "range over the symbolic key table: every iteration sees an arbitrary entry (over-approximation); termination of that loop is not proved",
			"parseFunctionKey / parseSgrMouse: the partial flag is not characterised (only: not complete => nothing consumed)"},
	})
	reg(&PropDef{
		ID:    "C05",
		Level: "proof",
		Funcs: []string{"tcell.(*tScreen).scanInput", "tcell.(*tScreen).inputLoop", "tcell.(*baseScreen).PostEvent", "tcell.(*baseScreen).PostEventWait", "tcell.(*baseScreen).PollEvent",
			"tcell.(*baseScreen).ChannelEvents", "tcell.NewEventFocus", "tcell.NewEventKey", "tcell.NewEventMouse", "tcell.(*simscreen).postEvent", "tcell.(*tScreen).resize",
			// "every delivered event is a complete Event": the mouse event the parsers queue is never a nil pointer in an interface
			"tcell.(*tScreen).buildMouseEvent"},
		Custom: []func(*PropRun){c05Replays, c02Replays},
		Trusted: []string{"Go channels are FIFO and deliver each value to exactly one receiver; the schedule-quantified conclusion (exactly once, global order) follows from the per-function contracts by the standard argument for single-consumer FIFO queues, which is assumed",
			"screenImpl.EventQ/StopQ return the implementation's channels (assumed interface contract)", "time.Now() is an arbitrary time value (ghost clock not modelled)"},
		Assume: []string{"ErrEventQFull is non-nil (package variable initialised by errors.New, never written)",
			"not decided: that a true HasPendingEvent means the next PollEvent does not block (single consumer assumed), order between different posting goroutines, When() lying between cause and delivery (no clock model); mainLoop's append-then-scan order is not under contract (timers)"},
	})
	reg(&PropDef{
		ID:     "C06",
		Level:  "other",
		Funcs:  []string{"tcell.(*tScreen).finish", "tcell.(*tScreen).Show", "tcell.(*tScreen).Sync", "tcell.(*tScreen).engage", "tcell.(*baseScreen).ChannelEvents", "tcell.(*baseScreen).PollEvent"},
		Custom: []func(*PropRun){c06Discipline, c06Replays, c06LifecycleSmoke},
		Trusted: []string{"Tty contract: Drain wakes a pending Read, which then returns; Stop/Close return (assumed; the tty is outside the verified code)",
			"a goroutine that is not blocked on a channel operation, the screen lock or the tty runs to completion (no other blocking primitives in the waited-for goroutines: checked syntactically for channel operations only)"},
		Assume: []string{"level 'other': a sufficient discipline over the goroutines disengage waits for, not a proof over interleavings; bounded time is not quantified",
			"after Fini: PollEvent looks at the stop channel first (discipline + C05 contract), closed-channel semantics assumed; finish sets the finished flag and Show/Sync are proved inert under it; 'further Screen calls do not panic' in general, and Resume after Fini, are not decided here"},
	})
	reg(&PropDef{
		ID:    "C13",
		Level: "proof",
		Funcs: []string{"tcell.(*tScreen).drawCell", "tcell.(*tScreen).draw", "tcell.(*CellBuffer).Dirty", "tcell.(*CellBuffer).SetDirty", "tcell.(*CellBuffer).LockCell", "tcell.(*CellBuffer).UnlockCell",
			"tcell.(*CellBuffer).SetContent", "tcell.(*CellBuffer).GetContent", "tcell.(*CellBuffer).Fill", "tcell.(*CellBuffer).Invalidate"},
		Custom: []func(*PropRun){c13LockRegion, c13Corner, c13PaintedClean},
		Trusted: []string{"emission primitives (tScreen.TPuts, writeString, sendFgBg; terminfo TGoto/TParm/TColor): only their frame is assumed here (spec/trusted/emit.spec); what they emit is decided by C07/C15/C17",
			"Tty.Write / io.Writer.Write report a count within bounds and touch no verified state (assumed)"},
		Assume: []string{"drawCell is verified for calls on cells that are NOT dirty (unchanged, locked, or off the buffer): no output of any kind, no state change, width reported; the path that paints a dirty cell exceeds the verifier's path budget: its frame (only the cell itself and, for the auto-margin corner, its left neighbour change) and 'returns at least 1' are ASSUMED clauses",
			"the whole-Show statement (no cell text at all when nothing changed; text only for changed cells and the listed neighbours) is the composition of: Dirty == specification predicate over the last-clean snapshot (C08), LockCell => not dirty, UnlockCell => dirty, SetContent with equal content leaves the cell clean (C08), drawCell silent on clean cells, draw calling drawCell only for screen cells and emitting no text itself; that composition is argued in DESIGN.md, not machine-checked",
			"cell widths are non-negative: precondition of drawCell/draw; it is an invariant of CellBuffer proved under C08 (every mutator: ensures#widths), the composition over call histories being the usual induction, not a single obligation"},
	})
	reg(&PropDef{
		ID:     "C04",
		Level:  "proof",
		Funcs: []string{"tcell.(*tScreen).EnablePaste", "tcell.(*tScreen).DisablePaste", "tcell.(*tScreen).EnableFocus", "tcell.(*tScreen).DisableFocus", "tcell.(*tScreen).DisableMouse", "tcell.(*tScreen).EnableMouse",
			"tcell.(*tScreen).enableMouse", "tcell.(*tScreen).enablePasting", "tcell.(*tScreen).enableFocusReporting", "tcell.(*tScreen).engage"},
		Custom: []func(*PropRun){c04Disengage, c04TtyLifecycle, c04SetterReplays},
		Trusted: []string{"terminfo pairing of on/off capabilities (smcup/rmcup, smkx/rmkx, civis/cnorm, sgr0, op, smam/rmam) and the xterm private modes tcell hard-codes (1000/1002/1003/1006, 2004, 1004, title stack 22/23;2t, DECSCUSR, OSC 12/112) as the oracle of what 'off' means",
			"Tty methods: assumed interface contracts (they return; Stop/Drain/NotifyResize touch no screen state)"},
		Assume: []string{"disengage is evaluated with t.buffering = true so that its output is collected in t.buf (TPuts/writeString differ only in the destination they pass on)",
			"quick tier: a fixed third of the registered descriptions plus xterm*, linux, vt100, screen, tmux; thorough: all",
			"engage (Init/Resume) is proved to call enableMouse with the recorded flags, enablePasting with the recorded flag and enableFocusReporting iff focus was enabled, exactly once each when it succeeds; the setters are proved to record the request; WHICH bytes these helpers emit for the flags is read off their (short) code, not stated as a contract; EnableMouse's variadic flag folding is not under contract",
			"package error variables (ErrNoScreen) are non-nil"},
	})
	reg(&PropDef{
		ID:     "C09",
		Level:  "other",
		Funcs:  []string{"tcell.cellWidth", "tcell.(*CellBuffer).SetContent", "tcell.(*CellBuffer).GetContent", "tcell.(*CellBuffer).Fill", "tcell.(*tScreen).encodeRune"},
		Custom: []func(*PropRun){c09RuneWidth, c09Emit, c09Stream},
		Trusted: []string{"go-runewidth's (*Condition).RuneWidth is executed from its source for the listed code points with no lookup table built (RUNEWIDTH_EASTASIAN unset / CreateLUT not called); its global DefaultCondition is what tcell calls"},
		Assume: []string{"PARTIAL claim: decided is only that a primary rune that is a C0 control, DEL, a C1 control, U+200B-200F, U+2028-202E, U+FEFF, a surrogate or an invalid code point is stored with width 0 and handed out as a blank (chain: RuneWidth == 0 from the dependency's source; SetContent stores width = RuneWidth(main) - C08 contract; GetContent blanks width 0 and runes < ' ' - C08 contract), and that an unencodable rune never reaches the terminal raw (encodeRune, C17 contract)",
			"first clause: see c09Stream (sites classified, strings tokenized per ECMA-48-family description); assumed: SetSize's requested size and the application's text parameters (title, URL, clipboard) are well-formed; drawCell coordinates by C13's draw contract; screens at least two columns wide; other Cf characters such as U+2060-2064, U+2066-2069, U+061C have width 1 in go-runewidth and are written as text"},
	})
	reg(&PropDef{
		ID:    "C11",
		Level: "proof",
		Funcs: []string{"tcell.(*tScreen).parseRune", "tcell.(*tScreen).parseFocus", "tcell.(*tScreen).parseFunctionKey", "tcell.(*tScreen).inputLoop", "tcell.(*tScreen).collectEventsFromInput", "tcell.(*tScreen).scanInput"},
		Custom: []func(*PropRun){c11Paste, c02Replays, c11Charsets, c11DriverSplits},
		Trusted: []string{"transform.Transformer (the charset decoder): bounds and 'no output without consuming input' are assumed; WHICH rune a byte sequence decodes to is the decoder's business (x/text), not modelled",
			"Tty.Read fills at most len(p) bytes and reports how many (assumed interface contract)",
			"Go channels are FIFO; one reader of keychan (mainLoop): chunk order = read order (assumed)"},
		Assume: []string{"the composition 'one event per character, in order, for every split of the byte stream' follows from: parseRune offers every prefix length before answering partial and consumes exactly what the decoder consumed; the driver re-runs the parsers on the accumulated buffer; chunks are private copies in read order - the whole-stream statement is a meta-argument (DESIGN.md), not a single obligation",
			"per-charset behaviour of the x/text decoders is outside the verifier's reach: BOUNDED stand-in charset[*]/every-character-one-event = native exhaustive enumeration of the real driver over every character (except U+FFFD, which decoders substitute for invalid input and the library drops by design) of every registered stateless charset, one read and every split; sequences of characters follow from the driver contract"},
		Bounded: []string{"charset[*]/every-character-one-event: exhaustive over single characters per charset, executed natively on the real code; not a proof"},
	})
	reg(&PropDef{
		ID:    "C18",
		Level: "proof",
		Funcs: []string{"tcell.(*simscreen).postEvent", "tcell.(*simscreen).InjectKey", "tcell.(*simscreen).InjectMouse", "tcell.(*simscreen).InjectKeyBytes",
			"tcell.(*simscreen).showCursor", "tcell.(*simscreen).hideCursor", "tcell.(*simscreen).ShowCursor", "tcell.(*simscreen).GetCursor",
			"tcell.(*simscreen).resize", "tcell.(*simscreen).SetSize", "tcell.(*simscreen).clearScreen", "tcell.(*simscreen).drawCell", "tcell.(*simscreen).draw", "tcell.(*simscreen).Show", "tcell.(*simscreen).Fini"},
		Custom: []func(*PropRun){c18Replays, c11Charsets},
		Bounded: []string{"charset[*]/every-character-one-event: InjectKeyBytes on every character of every registered stateless charset, executed natively on the real code; not a proof"},
		Trusted: []string{"transform.Transformer.Transform writes only into dst, returns counts within bounds and produces no output without consuming input (assumed interface contract); which bytes a charset produces is not modelled",
			"utf8.EncodeRune returns 1..4 and writes only into its buffer (assumed)", "Go channels are FIFO: events come out of PollEvent in the order postEvent offered them (assumed)"},
		Assume: []string{"cell widths are non-negative: stated precondition of drawCell/draw/Show; an invariant of CellBuffer proved under C08 (every mutator: ensures#widths), composed over call histories by induction (not a single obligation)",
			"Show is proved for the case without a pending resize; SetSize/resize are proved separately; Sync is not under contract",
			"draw: that every changed cell is visited is proved for buffers without wide cells; per-cell fidelity is drawCell's contract, its composition over the whole scan (front == view of back for every cell) is not proved",
			"InjectKeyBytes: the contract proves that no byte is declared undecodable before every prefix has been offered, termination, and memory safety; the exact event per character depends on the decoder (assumed contract)"},
	})
	reg(&PropDef{
		ID:       "C19",
		Level:    "proof",
		WasmLoad: true,
		Funcs: []string{"tcell.paletteColor", "tcell.(*wScreen).drawCell", "tcell.(*wScreen).clearScreen", "tcell.(*wScreen).draw", "tcell.(*wScreen).postEvent", "tcell.(*wScreen).onMouseEvent", "tcell.(*wScreen).onPaste", "tcell.(*wScreen).onFocus", "tcell.(*wScreen).Show", "tcell.(*wScreen).Resume", "tcell.(*wScreen).enableMouse", "tcell.(*wScreen).enablePasting"},
		Custom:   []func(*PropRun){c19Balance, c19KeyTable, c19InitHandlers, c19MouseModes},
		Trusted: []string{"webfiles/tcell.js implements the calls it receives (JavaScript, outside the verifier)",
			"syscall/js: Value.Int/Bool/String are functions of the value; Call/Set/FuncOf do not touch Go state (assumed contracts in spec/trusted/js.spec)",
			"sync.Mutex semantics; absence of self-deadlock follows from lock balance on every path",
			"DOM naming: MouseEvent.which 1/2/3 = left/middle/right; KeyboardEvent.key names map to tcell key constants by the rule in govc/c19.go (domKeyConst)"},
		Assume: []string{"cell widths are non-negative: stated precondition of draw/Show; an invariant of CellBuffer proved under C08 (every mutator: ensures#widths), composed over call histories by induction (not a single obligation)",
			"draw: completeness of the scan (every changed cell is visited) is proved for buffers without wide or blank-normalised cells; for wide cells only 'every visited cell is a cell of the screen and unchanged cells are not touched' is proved",
			"not decided: Sync, SetSize's effect on the page, the JavaScript side; EnableFocus/DisableFocus install their handler inline (straight-line, not under contract)"},
	})
	reg(&PropDef{
		ID:    "C20",
		Level: "proof",
		Funcs: []string{"views.(*ViewPort).ValidateViewX", "views.(*ViewPort).ValidateViewY", "views.(*ViewPort).ValidateView",
			"views.(*ViewPort).ScrollUp", "views.(*ViewPort).ScrollDown", "views.(*ViewPort).ScrollLeft", "views.(*ViewPort).ScrollRight",
			"views.(*ViewPort).MakeVisible", "views.(*ViewPort).Center", "views.(*ViewPort).SetSize", "views.(*ViewPort).SetContentSize",
			"views.(*ViewPort).SetContent", "views.(*ViewPort).Fill", "views.(*ViewPort).Resize",
			"views.(*BoxLayout).hLayout", "views.(*BoxLayout).vLayout", "views.(*BoxLayout).layout", "views.(*BoxLayout).Resize", "views.(*BoxLayout).AddWidget", "views.(*BoxLayout).InsertWidget"},
		Custom: []func(*PropRun){c20Replays, c20BoxEnum},
		Bounded: []string{"BoxLayout/enumerated-layouts-exact-distribution: the surplus distribution uses floating point behind pointer-linked cells; native exhaustive enumeration of small layouts (<= 3 children quick, <= 4 thorough; extents 0..4; fills 0/1/2; views 0..12) - not a proof"},
		Trusted: []string{"parent View methods terminate, do not panic and do not touch the ViewPort (assumed interface contracts in spec/trusted/views.spec)",
			"child Widget methods (Size >= 0, Resize, SetView, Watch, Unwatch, Draw) and the widget event posting terminate and do not touch the BoxLayout (assumed interface contracts)"},
		Assume: []string{"BoxLayout (THIN): the cells are a slice of pointers to structs holding pointers, outside the verifier's heap model; non-nil cells / child views / widgets are assumed (opt assume-nonnil), the frame clauses cover BoxLayout's own fields only, and nothing is proved about the cells' pad/frac fields or the child views' final geometry",
			"BoxLayout: NOT decided - every child gets at least its preferred extent, the surplus is distributed exactly and in proportion to the fill factors (float arithmetic in the distribution loop), children stay inside the BoxLayout's own view (ViewPort.Resize clamps), RemoveWidget, SetOrientation, nested layouts"},
	})
}

// stdXterm256 is the xterm 256-colour chart: 16 system colours, 6x6x6 cube (levels 0,95,135,175,215,255), greys 8+10k.
func stdXterm256(i int) int64 {
	sys := []int64{0x000000, 0x800000, 0x008000, 0x808000, 0x000080, 0x800080, 0x008080, 0xC0C0C0,
		0x808080, 0xFF0000, 0x00FF00, 0xFFFF00, 0x0000FF, 0xFF00FF, 0x00FFFF, 0xFFFFFF}
	if i < 16 {
		return sys[i]
	}
	if i < 232 {
		lv := func(k int) int64 {
			if k == 0 {
				return 0
			}
			return int64(55 + 40*k)
		}
		j := i - 16
		return lv(j/36)<<16 | lv((j/6)%6)<<8 | lv(j%6)
	}
	g := int64(8 + 10*(i-232))
	return g<<16 | g<<8 | g
}

func loadCSSTable() (map[string]int64, []string, error) {
	f, err := os.Open(filepath.Join(verifDir(), "spec", "std", "css_colors.txt"))
	if err != nil {
		return nil, nil, err
	}
	defer f.Close()
	m := map[string]int64{}
	var order []string
	sc := bufio.NewScanner(f)
	for sc.Scan() {
		ln := strings.TrimSpace(sc.Text())
		if ln == "" || strings.HasPrefix(ln, "#") {
			continue
		}
		var n string
		var v int64
		if _, err := fmt.Sscanf(ln, "%s %x", &n, &v); err == nil {
			m[n] = v
			order = append(order, n)
		}
	}
	return m, order, nil
}

// c16Tables: exhaustive, entry-by-entry obligations over the finite tables, each decided by
// evaluating the REAL functions (PaletteColor, GetColor, Hex, CSS-free) on the concrete entry.
// c16StringRoundTrip: CSS() / GetColor() / FromImageColor() go through fmt, strconv and image/color, which are outside
// the verifier's reach.  BOUNDED stand-in, executed natively on the real code: every palette index, every named colour
// and every RGB value of a lattice (quick: components in steps of 5 plus the boundaries around 0x0F/0x10 and 0xFF;
// thorough: all 2^24) - CSS() is '#' + six upper-case hex digits of Hex(), GetColor(CSS()) has the same Hex(),
// FromImageColor of the opaque colour is NewRGBColor of its components, invalid and special colours give "".
func c16StringRoundTrip(run *PropRun) {
	step := 5
	if run.Tier == "thorough" {
		step = 1
	}
	src := replayTest("tcell", []string{"image/color"}, fmt.Sprintf(`
	step := %d
	const digits = "0123456789ABCDEF"
	n := 0
	check := func(c Color) bool {
		n++
		h := c.Hex()
		want := "#" + string([]byte{digits[(h>>20)&15], digits[(h>>16)&15], digits[(h>>12)&15], digits[(h>>8)&15], digits[(h>>4)&15], digits[h&15]})
		if got := c.CSS(); got != want { fmt.Printf("COLORENUM FAIL Color(%%#x).CSS() = %%q, want %%q\n", uint64(c), got, want); return false }
		if back := GetColor(want); back.Hex() != h || !back.Valid() { fmt.Printf("COLORENUM FAIL GetColor(%%q).Hex() = %%#x, want %%#x\n", want, back.Hex(), h); return false }
		return true
	}
	for i := 0; i < 256; i++ { if !check(PaletteColor(i)) { fail("palette colour %%d", i); return } }
	for name, c := range ColorNames { if !check(c) { fail("named colour %%s", name); return } }
	vals := []int32{}
	for v := int32(0); v < 256; v += int32(step) { vals = append(vals, v) }
	if step > 1 { vals = append(vals, 1, 9, 14, 15, 16, 17, 127, 128, 254, 255) }
	for _, r := range vals {
		for _, g := range vals {
			for _, b := range vals {
				c := NewRGBColor(r, g, b)
				if !check(c) { fail("rgb %%d,%%d,%%d", r, g, b); return }
				if ic := FromImageColor(color.RGBA{uint8(r), uint8(g), uint8(b), 255}); ic != c {
					fmt.Printf("COLORENUM FAIL FromImageColor(%%d,%%d,%%d) = %%#x, want %%#x\n", r, g, b, uint64(ic), uint64(c)); fail("image colour"); return
				}
			}
		}
	}
	for _, c := range []Color{ColorDefault, ColorNone, ColorReset, Color(0), Color(12345)} {
		if c.CSS() != "" { fmt.Printf("COLORENUM FAIL Color(%%#x).CSS() = %%q for a colour that is not valid\n", uint64(c), c.CSS()); fail("invalid colour"); return }
	}
	fmt.Printf("COLORENUM OK %%d\n", n)`, step))
	out, err := runOverlayTest(run.Eng.Repo, run.Eng.Repo, src, 600*time.Second, nil)
	ok, detail := false, ""
	for _, ln := range strings.Split(out, "\n") {
		if strings.HasPrefix(ln, "COLORENUM OK ") {
			ok = true
			detail = strings.TrimPrefix(ln, "COLORENUM OK ") + " colours"
		}
		if strings.HasPrefix(ln, "COLORENUM FAIL ") && detail == "" {
			detail = strings.TrimPrefix(ln, "COLORENUM FAIL ")
		}
	}
	if !ok && detail == "" {
		run.Errors = append(run.Errors, fmt.Sprintf("colour string enumeration did not run: %v %s", err, tail(out, 400)))
		return
	}
	g := run.AddObligation("tcell.ColorStrings/css-getcolor-image-roundtrip", "table-bounded", BoolT(ok),
		fmt.Sprintf("CSS() is '#RRGGBB' of Hex(), GetColor(CSS()) and FromImageColor round-trip, invalid colours give \"\" (native enumeration on the real code, component step %d): %s", step, detail))
	g.ReplayGo = src
	run.Extra["colour_string_enumeration_component_step_bounded"] = step
}

// c16FindColorNative: BOUNDED stand-in next to the FindColor proof, for what the contract cannot see when FindColor's
// body leaves the verifier's subset (caches, maps of interfaces ...): the real FindColor is run natively on an RGB
// lattice against the 8-, 16- and 256-entry palettes and against pairs of DIFFERENT palettes of the same length in
// turn (so that an answer remembered from one palette is noticed in the other); the result must be a member of the
// palette given and no member may be strictly closer in go-colorful's CIE76 distance.
func c16FindColorNative(run *PropRun) {
	src := replayTest("tcell", []string{"github.com/lucasb-eyer/go-colorful"}, `
	dist := func(a, b Color) float64 {
		ar, ag, ab := a.RGB()
		br, bg, bb := b.RGB()
		c1 := colorful.Color{R: float64(ar) / 255.0, G: float64(ag) / 255.0, B: float64(ab) / 255.0}
		c2 := colorful.Color{R: float64(br) / 255.0, G: float64(bg) / 255.0, B: float64(bb) / 255.0}
		return c1.DistanceCIE76(c2)
	}
	var pals [][]Color
	for _, n := range []int{8, 16, 256} {
		var p []Color
		for i := 0; i < n; i++ { p = append(p, PaletteColor(i)) }
		pals = append(pals, p)
	}
	// different palettes of equal length, queried in turn
	pals = append(pals, []Color{ColorRed, ColorGreen, ColorBlue, ColorWhite, ColorBlack, ColorYellow, ColorAqua, ColorFuchsia},
		[]Color{ColorMaroon, ColorOlive, ColorNavy, ColorSilver, ColorGray, ColorTeal, ColorPurple, ColorLime},
		[]Color{NewRGBColor(10, 20, 30), NewRGBColor(200, 100, 50), NewRGBColor(0, 255, 128), NewRGBColor(90, 90, 90), NewRGBColor(255, 255, 0), NewRGBColor(1, 2, 3), NewRGBColor(250, 250, 250), NewRGBColor(128, 0, 255)})
	n := 0
	for rep := 0; rep < 2; rep++ {
		for r := int32(0); r < 256; r += 51 {
			for g := int32(0); g < 256; g += 51 {
				for b := int32(0); b < 256; b += 51 {
					c := NewRGBColor(r, g, b)
					for pi, pal := range pals {
						got := FindColor(c, pal)
						member := false
						for _, m := range pal { if m == got { member = true } }
						if !member { fmt.Printf("FINDCOLOR FAIL FindColor(#%06X, palette %d) = %v is not a member of that palette\n", c.Hex(), pi, got); fail("not a member"); return }
						dg := dist(c, got)
						for _, m := range pal {
							if dist(c, m) < dg-1e-12 { fmt.Printf("FINDCOLOR FAIL FindColor(#%06X, palette %d) = #%06X at %.6f but #%06X is closer (%.6f)\n", c.Hex(), pi, got.Hex(), dg, m.Hex(), dist(c, m)); fail("not optimal"); return }
						}
						n++
					}
				}
			}
		}
	}
	fmt.Printf("FINDCOLOR OK %d\n", n)`)
	out, err := runOverlayTest(run.Eng.Repo, run.Eng.Repo, src, 300*time.Second, nil)
	ok, detail := false, ""
	for _, ln := range strings.Split(out, "\n") {
		if strings.HasPrefix(ln, "FINDCOLOR OK ") {
			ok = true
			detail = strings.TrimPrefix(ln, "FINDCOLOR OK ") + " queries"
		}
		if strings.HasPrefix(ln, "FINDCOLOR FAIL ") && detail == "" {
			detail = strings.TrimPrefix(ln, "FINDCOLOR FAIL ")
		}
	}
	if !ok && detail == "" {
		run.Errors = append(run.Errors, fmt.Sprintf("native FindColor sample did not run: %v %s", err, tail(out, 400)))
		return
	}
	g := run.AddObligation("tcell.FindColor/native-sample-member-and-optimal", "table-bounded", BoolT(ok),
		"the real FindColor, run natively on an RGB lattice against the standard palettes and against different palettes of equal length in turn, returns a member of the palette it was given and no member is strictly closer: "+detail)
	g.ReplayGo = src
}

func c16Tables(run *PropRun) {
	e := run.Eng
	ev := e.NewEvaluator(true, "C16.tables")
	pkg := modPath
	hex := e.FindFunc(pkg + ".Color.Hex")
	pal := e.FindFunc(pkg + ".PaletteColor")
	getc := e.FindFunc(pkg + ".GetColor")
	valid := e.FindFunc(pkg + ".Color.Valid")
	if hex == nil || pal == nil || getc == nil || valid == nil {
		panic(VerErr{"UNDECIDED: Color.Hex / PaletteColor / GetColor / Color.Valid not found"})
	}
	one := func(fn string, paths []EvalPath, err error) Value {
		if err != nil {
			panic(VerErr{"table evaluation of " + fn + ": " + err.Error()})
		}
		if len(paths) != 1 {
			panic(VerErr{fmt.Sprintf("table evaluation of %s: %d paths (expected 1)", fn, len(paths))})
		}
		return paths[0].Ret
	}
	n := 0
	// palette 0..255: Hex(PaletteColor(i)) == xterm256(i)
	for i := 0; i < 256; i++ {
		st := ev.NewState()
		p, err := ev.Call(st, pal, []Value{BVC(big.NewInt(int64(i)), 64)})
		col := one("PaletteColor", p, err)
		st2 := ev.NewState()
		p2, err := ev.Call(st2, hex, []Value{col})
		h := one("Color.Hex", p2, err).(*Term)
		g := run.AddObligation(fmt.Sprintf("tcell.ColorValues/xterm256[%d]", i), "table", Eq(h, BVC(big.NewInt(stdXterm256(i)), 32)),
			fmt.Sprintf("PaletteColor(%d).Hex() == %06X", i, stdXterm256(i)))
		g.ReplayGo = replayTest("tcell", nil, fmt.Sprintf("\tif got := PaletteColor(%d).Hex(); got != 0x%06X { fail(\"PaletteColor(%d).Hex() = %%06X, want %06X\", got); return }", i, stdXterm256(i), i, stdXterm256(i)))
		n++
	}
	css, order, err := loadCSSTable()
	if err != nil {
		panic(VerErr{"cannot read spec/std/css_colors.txt: " + err.Error()})
	}
	for _, name := range order {
		st := ev.NewState()
		p, err := ev.Call(st, getc, []Value{conc(name)})
		col := one("GetColor", p, err)
		st2 := ev.NewState()
		p2, err := ev.Call(st2, hex, []Value{col})
		h := one("Color.Hex", p2, err).(*Term)
		g := run.AddObligation(fmt.Sprintf("tcell.ColorNames/css[%s]", name), "table", Eq(h, BVC(big.NewInt(css[name]), 32)),
			fmt.Sprintf("GetColor(%q).Hex() == %06X", name, css[name]))
		g.ReplayGo = replayTest("tcell", nil, fmt.Sprintf("\tif got := GetColor(%q).Hex(); got != 0x%06X { fail(\"GetColor(%s).Hex() = %%d, want 0x%06X\", got); return }", name, css[name], name, css[name]))
		n++
	}
	// no extra names: every key of ColorNames is a W3C name (or its grey/gray spelling variant of one)
	st := ev.NewState()
	sp := e.SPkgs[pkg]
	if g := sp.Var("ColorNames"); g != nil {
		o := ev.C.globalObj(st, g)
		mv, _ := ev.C.mem(st, o).(MapV)
		mo := ev.C.mapObj(st, mv)
		for _, en := range mo.Entries {
			k := en.K.(StrV)
			name := *k.Conc
			_, ok := css[name]
			alt := strings.Replace(name, "grey", "gray", 1)
			if !ok {
				_, ok = css[alt]
			}
			run.AddObligation(fmt.Sprintf("tcell.ColorNames/known-name[%s]", name), "table", BoolT(ok), "every registered colour name is a W3C name")
			n++
		}
	}
	// special colours are not valid and report -1
	for _, nm := range []string{"ColorDefault", "ColorReset", "ColorNone"} {
		cobj := e.PkgBy[pkg].Types.Scope().Lookup(nm)
		if cobj == nil {
			continue
		}
		cv := ev.C.constToValue(cobj.(*types.Const).Val(), cobj.Type())
		st := ev.NewState()
		p, err := ev.Call(st, valid, []Value{cv})
		v := one("Color.Valid", p, err).(*Term)
		st2 := ev.NewState()
		p2, err := ev.Call(st2, hex, []Value{cv})
		h := one("Color.Hex", p2, err).(*Term)
		run.AddObligation(fmt.Sprintf("tcell.%s/not-valid", nm), "table", And(Not(v), Eq(h, BVC(big.NewInt(-1), 32))), nm+" is not valid and Hex() == -1")
		n++
	}
	run.Extra["table_entries_evaluated_on_real_code"] = n
	for k := range ev.C.Assumed {
		run.Assumed[k] = true
	}
}

func c10Discipline(run *PropRun) {
	e := run.Eng
	for _, tn := range []string{"tScreen", "simscreen"} {
		lc := e.Specs.LockClasses[tn]
		if lc == nil {
			run.Errors = append(run.Errors, "no lockclass for "+tn+" in the contract files")
			continue
		}
		RunDiscipline(run, e, lc)
	}
	// Suspend, Resume and the shutdown run one at a time: disengage gives up the screen lock between its two halves
	// (it has to, the goroutines it waits for take that lock), so without a lock of their own a concurrent Resume
	// re-arms the WaitGroup disengage is waiting on (runtime fault "WaitGroup is reused before previous Wait has
	// returned", or a Suspend that never returns), and Fini closes the tty while Suspend still has to write to it
	{
		field := map[string]string{}
		for fname, inner := range map[string][]string{"Suspend": {"disengage"}, "Resume": {"engage"}, "finish": {"finalize"}} {
			fn := e.FindFunc(modPath + ".(*tScreen)." + fname)
			if fn == nil {
				continue
			}
			var lockB *ssa.BasicBlock
			lockI := -1
			lockField := ""
			for _, b := range fn.Blocks {
				for i, in := range b.Instrs {
					c, ok := in.(*ssa.Call)
					if !ok {
						continue
					}
					callee := c.Common().StaticCallee()
					if isMutexMethod(callee, "Lock") && !screenLockArg(c.Common()) && lockB == nil {
						if fa, ok := c.Common().Args[0].(*ssa.FieldAddr); ok {
							st := under(fa.X.Type().(*types.Pointer).Elem()).(*types.Struct)
							lockB, lockI, lockField = b, i, st.Field(fa.Field).Name()
						}
					}
					if callee != nil {
						for _, n := range inner {
							if callee.Name() == n && callee.Pkg != nil && callee.Pkg.Pkg.Path() == modPath {
								if lockB != nil && (lockB == b && lockI < i || lockB != b && lockB.Dominates(b)) {
									field[fname] = lockField
								} else {
									field[fname] = ""
								}
							}
						}
					}
				}
			}
		}
		ok := field["Suspend"] != "" && field["Suspend"] == field["Resume"] && field["Resume"] == field["finish"]
		g := run.AddObligation("tScreen/lifecycle-calls-serialised", "discipline", BoolT(ok),
			fmt.Sprintf("Suspend, Resume and the shutdown take one and the same lifecycle mutex (not the screen lock, which disengage has to drop while it waits) before they engage / disengage / finalize (found: Suspend %q, Resume %q, finish %q)", field["Suspend"], field["Resume"], field["finish"]))
		g.ReplayGo = replayTest("tcell", []string{"sync", "time", modPath + "/terminfo", "_ " + modPath + "/terminfo/base"}, `
	ti, err := terminfo.LookupTerminfo("xterm")
	if err != nil { fail("no xterm description: %v", err); return }
	tty := &c10ParkTty{wake: make(chan struct{}, 4), parked: make(chan struct{}), release: make(chan struct{})}
	s, err := NewTerminfoScreenFromTtyTerminfo(tty, ti)
	if err != nil { fail("new screen: %v", err); return }
	if err := s.Init(); err != nil { fail("init: %v", err); return }
	tty.arm()
	suspended := make(chan struct{})
	go func() { s.Suspend(); close(suspended) }()
	<-tty.parked // Suspend has closed the stop channel, dropped the screen lock and is about to wait for the goroutines
	resumed := make(chan error, 1)
	go func() { resumed <- s.Resume() }()
	select {
	case err := <-resumed:
		fail("Resume() returned %v while Suspend() was still tearing the screen down: the two overlap", err)
		close(tty.release)
		return
	case <-time.After(200 * time.Millisecond):
	}
	close(tty.release)
	select {
	case <-suspended:
	case <-time.After(2 * time.Second):
		fail("Suspend() did not return within 2s of being released (it waits for goroutines a concurrent Resume started)")
		return
	}
	select {
	case <-resumed:
	case <-time.After(2 * time.Second):
		fail("Resume() did not return after Suspend() finished")
		return
	}
	s.Fini()`) + `
type c10ParkTty struct {
	mu      sync.Mutex
	armed   bool
	wake    chan struct{}
	parked  chan struct{}
	release chan struct{}
}

func (t *c10ParkTty) arm()                            { t.mu.Lock(); t.armed = true; t.mu.Unlock() }
func (t *c10ParkTty) Read(p []byte) (int, error)      { <-t.wake; return 0, nil }
func (t *c10ParkTty) Write(p []byte) (int, error)     { return len(p), nil }
func (t *c10ParkTty) Close() error                    { return nil }
func (t *c10ParkTty) Start() error                    { return nil }
func (t *c10ParkTty) Stop() error                     { return nil }
func (t *c10ParkTty) Drain() error                    { select { case t.wake <- struct{}{}: default: }; return nil }
func (t *c10ParkTty) WindowSize() (WindowSize, error) { return WindowSize{Width: 80, Height: 24}, nil }
func (t *c10ParkTty) NotifyResize(cb func()) {
	t.mu.Lock()
	park := t.armed && cb == nil
	if park {
		t.armed = false
	}
	t.mu.Unlock()
	if park {
		close(t.parked)
		<-t.release
	}
}
`
	}
	// hand-written deterministic replays (race detector) for the access sites of the public methods
	raceBody := func(a, b string) string {
		return replayTest("tcell", []string{"sync"}, `//verif:race
	s := &tScreen{}
	s.fallback = make(map[rune]string)
	s.acs = make(map[rune]string)
	s.cells.Resize(10, 4)
	s.w, s.h = 10, 4
	s.ti = &terminfoStub
	s.tty = nil
	var wg sync.WaitGroup
	wg.Add(2)
	go func() { defer wg.Done(); for i := 0; i < 500; i++ { `+a+` } }()
	go func() { defer wg.Done(); for i := 0; i < 500; i++ { `+b+` } }()
	wg.Wait()`) + "\nvar terminfoStub = terminfoOf()\n"
	}
	_ = raceBody
	for _, g := range run.Groups {
		switch {
		case strings.Contains(g.Name, "(*simscreen).Fini/close[quit]"), strings.Contains(g.Name, "/close[quit]/at-most-once") && strings.Contains(g.Name, "tScreen"):
			mk := `NewSimulationScreen("")`
			if strings.Contains(g.Name, "tScreen") {
				mk = `newC10Screen()`
			}
			g.ReplayGo = replayTest("tcell", []string{"sync", modPath + "/terminfo", "_ " + modPath + "/terminfo/base"}, `
	for round := 0; round < 20; round++ {
		s := `+mk+`
		if s == nil { fail("no screen"); return }
		if err := s.Init(); err != nil { fail("init: %v", err); return }
		var wg sync.WaitGroup
		var mu sync.Mutex
		var failure interface{}
		for k := 0; k < 4; k++ { // four shutdown callers at once (and, after them, one more)
			wg.Add(1)
			go func() {
				defer wg.Done()
				defer func() {
					if r := recover(); r != nil { mu.Lock(); failure = r; mu.Unlock() }
				}()
				s.Fini()
			}()
		}
		wg.Wait()
		func() {
			defer func() {
				if r := recover(); r != nil { failure = r }
			}()
			s.Fini()
		}()
		if failure != nil { fail("concurrent / repeated Fini(): %v", failure); return }
	}`) + `
type c10Tty struct{ wake chan struct{} }

func (t *c10Tty) Read(p []byte) (int, error)      { <-t.wake; return 0, nil }
func (t *c10Tty) Write(p []byte) (int, error)     { return len(p), nil }
func (t *c10Tty) Close() error                    { return nil }
func (t *c10Tty) Start() error                    { return nil }
func (t *c10Tty) Stop() error                     { return nil }
func (t *c10Tty) Drain() error                    { select { case t.wake <- struct{}{}: default: }; return nil }
func (t *c10Tty) NotifyResize(cb func())          {}
func (t *c10Tty) WindowSize() (WindowSize, error) { return WindowSize{Width: 80, Height: 24}, nil }

func newC10Screen() Screen {
	ti, err := terminfo.LookupTerminfo("xterm")
	if err != nil {
		return nil
	}
	s, err := NewTerminfoScreenFromTtyTerminfo(&c10Tty{wake: make(chan struct{}, 4)}, ti)
	if err != nil {
		return nil
	}
	return s
}
`
		case strings.Contains(g.Name, "(*tScreen).CanDisplay/guarded[fallback]"):
			g.ReplayGo = replayTest("tcell", []string{"sync"}, `//verif:race
	s := &tScreen{}
	s.fallback = make(map[rune]string)
	s.acs = make(map[rune]string)
	var wg sync.WaitGroup
	wg.Add(2)
	go func() { defer wg.Done(); for i := 0; i < 2000; i++ { s.RegisterRuneFallback(rune(0x2500+i%7), "-") } }()
	go func() { defer wg.Done(); for i := 0; i < 2000; i++ { s.CanDisplay(rune(0x2500+i%7), true) } }()
	wg.Wait()`)
		case strings.Contains(g.Name, "(*tScreen).SetSize/") || strings.Contains(g.Name, "(*tScreen).resize/"):
			g.ReplayGo = replayTest("tcell", []string{"sync", modPath + "/terminfo"}, `//verif:race
	s := &tScreen{ti: &terminfo.Terminfo{}, tty: verifTty{}}
	s.cells.Resize(10, 4)
	s.buffering = true
	s.resizeQ = make(chan bool, 1000)
	var wg sync.WaitGroup
	wg.Add(2)
	go func() { defer wg.Done(); for i := 0; i < 500; i++ { s.Lock(); s.cells.Invalidate(); s.Unlock() } }()
	go func() { defer wg.Done(); for i := 0; i < 500; i++ { s.SetSize(10, 4) } }()
	wg.Wait()`) + `
type verifTty struct{}

func (verifTty) Start() error                      { return nil }
func (verifTty) Stop() error                       { return nil }
func (verifTty) Drain() error                      { return nil }
func (verifTty) NotifyResize(cb func())            {}
func (verifTty) WindowSize() (WindowSize, error)   { return WindowSize{Width: 10, Height: 4}, nil }
func (verifTty) Read(p []byte) (int, error)        { return 0, nil }
func (verifTty) Write(p []byte) (int, error)       { return len(p), nil }
func (verifTty) Close() error                      { return nil }
`
		case strings.Contains(g.Name, "(*tScreen).writeString/") || strings.Contains(g.Name, "(*tScreen).TPuts/"):
			g.ReplayGo = replayTest("tcell", []string{"sync", modPath + "/terminfo"}, `//verif:race
	s := &tScreen{ti: &terminfo.Terminfo{}}
	s.buffering = true
	var wg sync.WaitGroup
	wg.Add(2)
	go func() { defer wg.Done(); for i := 0; i < 500; i++ { s.Lock(); s.writeString("x"); s.buf.Reset(); s.Unlock() } }()
	go func() { defer wg.Done(); for i := 0; i < 500; i++ { s.Beep() } }()
	wg.Wait()`)
		}
	}
}

func c19Balance(run *PropRun) {
	lc := run.Eng.Specs.LockClasses["wScreen"]
	if lc == nil {
		run.Errors = append(run.Errors, "no lockclass for wScreen in the contract files")
		return
	}
	RunDiscipline(run, run.Eng, lc)
	for _, g := range run.Groups {
		if !strings.HasSuffix(g.Name, "/lock-balanced") || !strings.HasPrefix(g.Name, "wScreen.(*wScreen).") {
			continue
		}
		m := strings.TrimSuffix(strings.TrimPrefix(g.Name, "wScreen.(*wScreen)."), "/lock-balanced")
		if strings.Contains(m, "$") {
			continue
		}
		g.ReplayGo = replayTest("tcell", []string{"reflect", "syscall/js"}, wasmStubs+`
	s := &wScreen{}
	s.fallback = make(map[rune]string)
	s.Init()
	mv := reflect.ValueOf(s).MethodByName("`+m+`")
	if !mv.IsValid() {
		// unexported: callbacks take (js.Value, []js.Value)
		fail("method `+m+` is not exported; no replay")
		return
	}
	var in []reflect.Value
	mt := mv.Type()
	for i := 0; i < mt.NumIn(); i++ {
		if mt.IsVariadic() && i == mt.NumIn()-1 {
			break
		}
		in = append(in, reflect.Zero(mt.In(i)))
	}
	mv.Call(in)
	if !s.TryLock() {
		fail("after `+m+`() on a running screen the screen mutex is still held: the next locking call deadlocks")
		return
	}
	s.Unlock()`)
	}
}

const wasmStubs = `//verif:wasm
	for _, n := range []string{"drawCell", "clearScreen", "show", "showCursor", "resize", "beep", "setTitle", "setCursorStyle"} {
		js.Global().Set(n, js.FuncOf(func(this js.Value, args []js.Value) interface{} { return nil }))
	}`

// c18Replays attaches hand-written demonstrations (run on the real code) to the C18 obligations that have failed before.
func c18Replays(run *PropRun) {
	for _, g := range run.Groups {
		switch g.Name {
		case "tcell.(*simscreen).SetSize/ensures#resize-event":
			g.ReplayGo = replayTest("tcell", nil, `
	s := NewSimulationScreen("").(*simscreen)
	if err := s.Init(); err != nil { fail("init: %v", err); return }
	s.Show()
	for len(s.evch) > 0 { <-s.evch }
	s.SetSize(30, 10)
	s.Show()
	select {
	case ev := <-s.evch:
		if rs, ok := ev.(*EventResize); ok {
			if w, h := rs.Size(); w != 30 || h != 10 { fail("resize event carries %dx%d, want 30x10", w, h); return }
		} else { fail("unexpected event %T", ev); return }
	default:
		fail("SetSize(30,10) followed by Show() produced no resize event")
		return
	}`)
		case "tcell.(*simscreen).SetSize/ensures#cursor-query-consistent":
			g.ReplayGo = replayTest("tcell", nil, `
	s := NewSimulationScreen("").(*simscreen)
	if err := s.Init(); err != nil { fail("init: %v", err); return }
	s.ShowCursor(5, 5)
	s.Show()
	s.SetSize(40, 10)
	if x, y, vis := s.GetCursor(); vis != (x >= 0 && y >= 0 && x < 40 && y < 10) {
		fail("after ShowCursor(5,5); Show; SetSize(40,10) the cursor query says position (%d,%d) visible=%v", x, y, vis)
		return
	}`)
		case "tcell.(*simscreen).Fini/ensures#second-is-noop", "tcell.(*simscreen).Fini/ensures#at-most-once":
			g.ReplayGo = replayTest("tcell", nil, `
	s := NewSimulationScreen("")
	if err := s.Init(); err != nil { fail("init: %v", err); return }
	s.Fini()
	func() {
		defer func() {
			if r := recover(); r != nil { fail("a second Fini() is not a no-op: %v", r) }
		}()
		s.Fini()
	}()`)
		case "tcell.(*simscreen).InjectKeyBytes/loop1/invariant-preserved#nb":
			g.ReplayGo = replayTest("tcell", nil, `
	s := NewSimulationScreen("UTF-8").(*simscreen)
	if err := s.Init(); err != nil { fail("init: %v", err); return }
	ok := s.InjectKeyBytes([]byte("a\xc3\xa9"))
	var got []rune
	for len(s.evch) > 0 {
		if k, isKey := (<-s.evch).(*EventKey); isKey { got = append(got, k.Rune()) }
	}
	if !ok || string(got) != "a\u00e9" {
		fail("InjectKeyBytes(\"a\\xc3\\xa9\") = %v, delivered %q: the multi-byte character at the end is not decoded", ok, string(got))
		return
	}`)
		case "tcell.(*simscreen).postEvent/calls#never-drops", "tcell.(*simscreen).postEvent/ensures#one-select":
			g.ReplayGo = replayTest("tcell", []string{"time"}, `
	s := NewSimulationScreen("").(*simscreen)
	if err := s.Init(); err != nil { fail("init: %v", err); return }
	go func() {
		for i := 0; i < 12; i++ { s.InjectKey(KeyRune, rune('a'+i), ModNone) }
	}()
	time.Sleep(100 * time.Millisecond) // the injector is now ahead of the (absent) poller: the queue holds 10 events
	n := 0
	deadline := time.After(2 * time.Second)
loop:
	for n < 12 {
		select {
		case <-s.evch:
			n++
		case <-deadline:
			break loop
		}
	}
	if n != 12 {
		fail("only %d of 12 injected events were delivered: events are dropped when the queue is full", n)
		return
	}`)
		case "tcell.(*simscreen).drawCell/calls#elided":
			g.ReplayGo = replayTest("tcell", nil, `
	s := NewSimulationScreen("US-ASCII").(*simscreen)
	if err := s.Init(); err != nil { fail("init: %v", err); return }
	s.RegisterRuneFallback(0x0301, "'")
	s.SetContent(0, 0, 'a', []rune{0x0301}, StyleDefault)
	s.Show()
	cells, _, _ := s.GetContents()
	if string(cells[0].Bytes) != "a" {
		fail("cell 'a'+U+0301 (unencodable combining mark with a registered fallback) shows bytes %q; a real screen elides it: \"a\"", string(cells[0].Bytes))
		return
	}`)
		}
	}
}

// c11Paste: for every registered description that has bracketed-paste strings (its own or the XTermLike defaults),
// the key table built by the real prepareKeys + prepareBracketedPaste maps the paste-start / paste-end sequences to
// the internal paste keys, which parseFunctionKey turns into EventPaste(true/false).
func c11Paste(run *PropRun) {
	e := run.Eng
	db := LoadTermDB(e, true)
	c := db.Ev.C
	fn := e.FindFunc(modPath + ".(*tScreen).prepareBracketedPaste")
	if fn == nil {
		panic(VerErr{"UNDECIDED: prepareBracketedPaste not found"})
	}
	const pasteStart, pasteEnd = 16384, 16385 // keyPasteStart, keyPasteEnd (key.go: iota + 16384)
	if o, ok := e.PkgBy[modPath].Types.Scope().Lookup("keyPasteStart").(*types.Const); ok {
		if v, exact := constantInt(o); !exact || v != pasteStart {
			panic(VerErr{"UNDECIDED: keyPasteStart is not 16384 any more"})
		}
	}
	n := 0
	for _, te := range db.Entries {
		_, fs, tp := buildKeyTable(db, te)
		paths, err := db.Ev.Call(fs, fn, []Value{tp})
		if err != nil || len(paths) != 1 {
			panic(VerErr{fmt.Sprintf("evaluating prepareBracketedPaste for %s: %v (%d paths)", te.Name, err, len(paths))})
		}
		st := paths[0].St
		tval := c.mem(st, tp.Obj).(*StructV)
		stt := under(tval.Typ).(*types.Struct)
		tab := map[string]int64{}
		for i := 0; i < stt.NumFields(); i++ {
			if stt.Field(i).Name() == "keycodes" {
				mo := c.mapObj(st, tval.F[i].(MapV))
				for _, en := range mo.Entries {
					kc := c.mem(st, en.V.(PtrV).Obj).(*StructV)
					tab[*en.K.(StrV).Conc] = termInt(kc.F[0])
				}
			}
		}
		var ps, pe string
		switch {
		case db.str(te, "EnablePaste") != "":
			ps, pe = db.str(te, "PasteStart"), db.str(te, "PasteEnd")
		case db.str(te, "Mouse") != "" || strings.HasPrefix(te.Name, "xterm") || db.str(te, "PasteStart") != "":
			ps, pe = "\x1b[200~", "\x1b[201~"
			if db.str(te, "PasteStart") != "" {
				ps, pe = db.str(te, "PasteStart"), db.str(te, "PasteEnd")
			}
		default:
			continue // the library does not enable bracketed paste for this description
		}
		ok := ps != "" && pe != "" && tab[ps] == pasteStart && tab[pe] == pasteEnd
		g := run.AddObligation(fmt.Sprintf("paste[%s]/start-end-keys", te.Name), "table", BoolT(ok),
			fmt.Sprintf("paste start %q and end %q decode to the internal paste keys (which parseFunctionKey turns into EventPaste)", ps, pe))
		g.ReplayGo = replayKeyTable(te.Name, fmt.Sprintf(`s.prepareBracketedPaste(); a, b := s.keycodes[%q], s.keycodes[%q]; if a == nil || b == nil || a.key != keyPasteStart || b.key != keyPasteEnd { fail("paste markers %%q / %%q are not the paste keys", %q, %q); return }`, ps, pe, ps, pe))
		n++
	}
	run.Extra["descriptions_with_bracketed_paste"] = n
	for k := range c.Assumed {
		run.Assumed[k] = true
	}
}

func constantInt(o *types.Const) (int64, bool) {
	return constant.Int64Val(o.Val())
}

func constantUint(o *types.Const) (uint64, bool) {
	return constant.Uint64Val(o.Val())
}

// c02Replays: demonstrations on the real driver for the parseClipboard obligations.
func c02Replays(run *PropRun) {
	drv := func(input string, check string) string {
		return replayTest("tcell", []string{"bytes", modPath + "/terminfo"}, `
	s := &tScreen{ti: &terminfo.Terminfo{}, setClipboard: "x"}
	s.cells.Resize(80, 24)
	buf := bytes.NewBufferString(`+input+`)
	evs := s.collectEventsFromInput(buf, true)
`+check)
	}
	for _, g := range run.Groups {
		switch g.Name {
		case "tcell.(*tScreen).inputLoop/calls#fresh-chunk":
			g.ReplayGo = replayTest("tcell", []string{"time", modPath + "/terminfo"}, `
	tty := &verifSeqTty{reads: []string{"A", "B"}}
	s := &tScreen{ti: &terminfo.Terminfo{}, tty: tty}
	s.keychan = make(chan []byte, 10)
	s.quit = make(chan struct{})
	s.wg.Add(1)
	go s.inputLoop(make(chan struct{}))
	for i := 0; i < 200 && len(s.keychan) < 2; i++ { time.Sleep(5 * time.Millisecond) }
	if len(s.keychan) < 2 { fail("the two reads were not queued"); return }
	c1, c2 := <-s.keychan, <-s.keychan
	if string(c1) != "A" || string(c2) != "B" {
		fail("two reads \"A\", \"B\" were queued as %q, %q: a later read overwrote a chunk that was still queued", string(c1), string(c2))
		return
	}`) + `
type verifSeqTty struct {
	reads []string
	i     int
}

func (t *verifSeqTty) Read(p []byte) (int, error) {
	if t.i < len(t.reads) {
		n := copy(p, t.reads[t.i])
		t.i++
		return n, nil
	}
	select {}
}
func (*verifSeqTty) Write(p []byte) (int, error)     { return len(p), nil }
func (*verifSeqTty) Close() error                    { return nil }
func (*verifSeqTty) Start() error                    { return nil }
func (*verifSeqTty) Stop() error                     { return nil }
func (*verifSeqTty) Drain() error                    { return nil }
func (*verifSeqTty) NotifyResize(cb func())          {}
func (*verifSeqTty) WindowSize() (WindowSize, error) { return WindowSize{Width: 80, Height: 24}, nil }
`
		case "tcell.(*tScreen).collectEventsFromInput/loop1/invariant-entry#esc-carried":
			g.ReplayGo = replayKeyTableImports("xterm", []string{"bytes"}, `
	s.cells.Resize(80, 24)
	buf := bytes.NewBufferString("\x1b\x1b[")
	evs := s.collectEventsFromInput(buf, false)
	buf.WriteString("A")
	evs = append(evs, s.collectEventsFromInput(buf, false)...)
	if len(evs) != 1 { fail("ESC ESC [ | A produced %d events", len(evs)); return }
	k, ok := evs[0].(*EventKey)
	if !ok || k.Key() != KeyUp || k.Modifiers() != ModAlt {
		fail("ESC ESC [ A split before the A decoded to %v: the Alt prefix read with the first chunk was forgotten (in one read it is Alt+Up)", evs[0])
		return
	}`)
		case "tcell.(*tScreen).inputLoop/calls#no-byte-lost":
			g.ReplayGo = replayTest("tcell", []string{"io", "time", modPath + "/terminfo"}, `
	tty := &verifErrTty{}
	s := &tScreen{ti: &terminfo.Terminfo{}, tty: tty, running: true}
	s.keychan = make(chan []byte, 10)
	s.eventQ = make(chan Event, 10)
	s.quit = make(chan struct{})
	s.wg.Add(1)
	go s.inputLoop(make(chan struct{}))
	select {
	case c := <-s.keychan:
		if string(c) != "abc" { fail("the bytes of the failing read arrived as %q", string(c)); return }
	case <-time.After(time.Second):
		fail("Read returned (3, io.EOF) with the bytes \"abc\": they were never handed to the decoder (an io.Reader may return data together with an error)")
		return
	}
	_ = io.EOF`) + `
type verifErrTty struct{ done bool }

func (t *verifErrTty) Read(p []byte) (int, error) {
	if !t.done {
		t.done = true
		return copy(p, "abc"), io.EOF
	}
	select {}
}
func (*verifErrTty) Write(p []byte) (int, error)     { return len(p), nil }
func (*verifErrTty) Close() error                    { return nil }
func (*verifErrTty) Start() error                    { return nil }
func (*verifErrTty) Stop() error                     { return nil }
func (*verifErrTty) Drain() error                    { return nil }
func (*verifErrTty) NotifyResize(cb func())          {}
func (*verifErrTty) WindowSize() (WindowSize, error) { return WindowSize{Width: 80, Height: 24}, nil }
`
		case "tcell.(*tScreen).parseRune/ensures#all-prefixes":
			g.ReplayGo = replayTest("tcell", []string{"bytes", modPath + "/terminfo"}, `
	s := &tScreen{ti: &terminfo.Terminfo{}}
	s.cells.Resize(80, 24)
	s.decoder = GetEncoding("UTF-8").NewDecoder()
	for _, txt := range []string{"\u00e9", "\u65e5", "\U0001F600", "a\U0001D11Eb"} {
		evs := s.collectEventsFromInput(bytes.NewBufferString(txt), false)
		var got []rune
		for _, ev := range evs {
			if k, ok := ev.(*EventKey); ok { got = append(got, k.Rune()) }
		}
		if string(got) != txt {
			fail("text %q was delivered as %q (%d events) without waiting for the escape timeout", txt, string(got), len(evs))
			return
		}
	}`)
		case "tcell.(*tScreen).parseClipboard/ensures#header", "tcell.(*tScreen).parseClipboard/ensures#mismatch", "tcell.(*tScreen).parseClipboard/ensures#consumed":
			g.ReplayGo = drv(`"\x1bXabcdefgh\a"`, `
	// Alt+X, eight letters and Ctrl-G: ten key events; an OSC 52 reply it is not
	if len(evs) != 10 {
		fail("input ESC X a b c d e f g h BEL produced %d events (want 10): bytes that do not start with the OSC 52 header were swallowed as a clipboard reply", len(evs))
		return
	}`)
		case "tcell.(*tScreen).parseClipboard/ensures#short", "tcell.(*tScreen).parseClipboard/loop1/invariant-entry#idx":
			g.ReplayGo = replayTest("tcell", []string{"bytes", modPath + "/terminfo"}, `
	// an OSC 52 reply split after 3..6 bytes of its header: the first read must be held back, not decoded
	for cut := 1; cut <= 7; cut++ {
		s := &tScreen{ti: &terminfo.Terminfo{}, setClipboard: "x"}
		s.cells.Resize(80, 24)
		whole := "\x1b]52;c;QUJD\a"
		buf := bytes.NewBufferString(whole[:cut])
		evs := s.collectEventsFromInput(buf, false)
		buf.WriteString(whole[cut:])
		evs = append(evs, s.collectEventsFromInput(buf, false)...)
		if len(evs) != 1 {
			fail("reply split after %d bytes produced %d events (want one EventClipboard)", cut, len(evs))
			return
		}
		if cb, ok := evs[0].(*EventClipboard); !ok || string(cb.Data()) != "ABC" {
			fail("reply split after %d bytes produced %T", cut, evs[0])
			return
		}
	}`)
		case "tcell.(*tScreen).parseClipboard/calls#decoded":
			g.ReplayGo = drv(`"\x1b]52;c;QUJD\aZ"`, `
	if len(evs) != 2 {
		fail("OSC 52 reply followed by 'Z' produced %d events (want the clipboard event and the key): the reply is lost when more input follows it in the same read", len(evs))
		return
	}
	cb, ok := evs[0].(*EventClipboard)
	if !ok || string(cb.Data()) != "ABC" {
		fail("first event is %T, want EventClipboard(\"ABC\")", evs[0])
		return
	}`)
		}
	}
}

func c05Replays(run *PropRun) {
	for _, g := range run.Groups {
		switch g.Name {
		case "tcell.NewEventFocus/ensures#complete":
			g.ReplayGo = replayTest("tcell", nil, `
	func() {
		defer func() {
			if r := recover(); r != nil {
				fail("NewEventFocus(true).When() panics: %v", r)
			}
		}()
		_ = NewEventFocus(true).When()
	}()`)
		case "tcell.(*tScreen).resize/calls#never-evicts", "tcell.(*tScreen).resize/ensures#one-offer", "tcell.(*tScreen).resize/calls#never-parks":
			g.ReplayGo = replayTest("tcell", []string{"time", modPath + "/terminfo"}, `
	scr := &tScreen{ti: &terminfo.Terminfo{}, tty: &c05Tty{}}
	scr.eventQ = make(chan Event, 10)
	scr.quit = make(chan struct{})
	scr.cells.Resize(80, 24)
	scr.w, scr.h = 80, 24
	for i := 0; i < 10; i++ { scr.eventQ <- NewEventKey(KeyRune, rune('a'+i), ModNone) } // the queue is full, nobody polls
	done := make(chan struct{})
	go func() { scr.resize(); close(done) }() // the window is now 100x40
	select {
	case <-done:
	case <-time.After(time.Second):
		fail("resize() with a full event queue did not return within 1s")
		return
	}
	for i := 0; i < 10; i++ {
		select {
		case ev := <-scr.eventQ:
			k, ok := ev.(*EventKey)
			if !ok || k.Rune() != rune('a'+i) { fail("after resize() with a full queue, event %d in the queue is %T %v: a queued key was evicted or reordered", i, ev, ev); return }
		default:
			fail("after resize() with a full queue only %d of the 10 queued keys are left", i)
			return
		}
	}`) + `
type c05Tty struct{}

func (t *c05Tty) Read(p []byte) (int, error)      { return 0, nil }
func (t *c05Tty) Write(p []byte) (int, error)     { return len(p), nil }
func (t *c05Tty) Close() error                    { return nil }
func (t *c05Tty) Start() error                    { return nil }
func (t *c05Tty) Stop() error                     { return nil }
func (t *c05Tty) Drain() error                    { return nil }
func (t *c05Tty) NotifyResize(cb func())          {}
func (t *c05Tty) WindowSize() (WindowSize, error) { return WindowSize{Width: 100, Height: 40}, nil }
`
		case "tcell.(*baseScreen).PostEvent/calls#not-after-stop":
			g.ReplayGo = replayTest("tcell", nil, `
	s := NewSimulationScreen("")
	if err := s.Init(); err != nil { fail("init: %v", err); return }
	s.Fini()
	if err := s.PostEvent(NewEventInterrupt(nil)); err == nil {
		fail("PostEvent() on a finished screen returned nil (HasPendingEvent=%v), but PollEvent() will never deliver the event: %v", s.HasPendingEvent(), s.PollEvent())
		return
	}`)
		case "tcell.(*baseScreen).ChannelEvents/calls#interruptible":
			g.ReplayGo = replayTest("tcell", []string{"time"}, `
	s := NewSimulationScreen("")
	if err := s.Init(); err != nil { fail("init: %v", err); return }
	ch := make(chan Event) // nobody receives
	quit := make(chan struct{})
	done := make(chan struct{})
	go func() { s.ChannelEvents(ch, quit); close(done) }()
	s.InjectKey(KeyRune, 'x', ModNone)
	time.Sleep(50 * time.Millisecond) // the forwarder now holds the event
	close(quit)
	select {
	case <-done:
	case <-time.After(time.Second):
		fail("ChannelEvents did not return within 1s of quit being closed (blocked in a send nobody receives)")
		return
	}`)
		}
	}
}

// c06Replays: demonstrations with a scripted tty for the discipline obligations known to fail.
func c06Replays(run *PropRun) {
	tty := `
type c06Tty struct {
	data chan byte
	wake chan struct{}
}

func newC06Tty() *c06Tty { return &c06Tty{data: make(chan byte, 4096), wake: make(chan struct{}, 16)} }
func (t *c06Tty) Read(p []byte) (int, error) {
	select {
	case b := <-t.data:
		p[0] = b
		return 1, nil
	case <-t.wake:
		return 0, nil
	}
}
func (t *c06Tty) Write(p []byte) (int, error)     { return len(p), nil }
func (t *c06Tty) Close() error                    { return nil }
func (t *c06Tty) Start() error                    { return nil }
func (t *c06Tty) Stop() error                     { return nil }
func (t *c06Tty) Drain() error                    { t.wake <- struct{}{}; return nil }
func (t *c06Tty) NotifyResize(cb func())          {}
func (t *c06Tty) WindowSize() (WindowSize, error) { return WindowSize{Width: 80, Height: 24}, nil }
`
	scenario := func(n int, call, what string) string {
		return replayTest("tcell", []string{"time", modPath + "/terminfo", "_ " + modPath + "/terminfo/base"}, fmt.Sprintf(`
	ti, err := terminfo.LookupTerminfo("xterm")
	if err != nil { fail("no xterm description: %%v", err); return }
	for round := 0; round < 8; round++ { // which ready select case the main loop takes is random: several rounds
		tty := newC06Tty()
		s, err := NewTerminfoScreenFromTtyTerminfo(tty, ti)
		if err != nil { fail("new screen: %%v", err); return }
		if err := s.Init(); err != nil { fail("init: %%v", err); return }
		// the application does not poll; %d keys arrive one read at a time
		for i := 0; i < %d; i++ { tty.data <- byte('a' + i%%26) }
		time.Sleep(200 * time.Millisecond)
		done := make(chan struct{})
		go func() { %s; close(done) }()
		select {
		case <-done:
		case <-time.After(2 * time.Second):
			fail("%s (round %%d)", round)
			return
		}
	}`, n, n, call, what)) + tty
	}
	inert := replayTest("tcell", []string{"sync", "time", modPath + "/terminfo", "_ " + modPath + "/terminfo/base"}, `
	ti, err := terminfo.LookupTerminfo("xterm")
	if err != nil { fail("no xterm description: %v", err); return }
	tty := &c06RecTty{wake: make(chan struct{}, 4)}
	s, err := NewTerminfoScreenFromTtyTerminfo(tty, ti)
	if err != nil { fail("new screen: %v", err); return }
	if err := s.Init(); err != nil { fail("init: %v", err); return }
	s.SetContent(0, 0, 'x', nil, StyleDefault)
	s.Show()
	within := func(what string, f func()) bool {
		done := make(chan struct{})
		go func() { f(); close(done) }()
		select {
		case <-done:
			return true
		case <-time.After(2 * time.Second):
			fail("%s did not return within 2s (it holds the screen lock: every later call, Resume and Fini included, blocks too)", what)
			return false
		}
	}
	if err := s.Suspend(); err != nil { fail("suspend: %v", err); return }
	n0 := tty.written()
	s.SetContent(1, 0, 'y', nil, StyleDefault)
	if !within("Show() while suspended", s.Show) || !within("Sync() while suspended", s.Sync) { return }
	if n := tty.written(); n != n0 {
		fail("while suspended, Show() and Sync() wrote %d bytes to the terminal that the next Fini (which returns early when not running) will not undo", n-n0)
		return
	}
	if err := s.Resume(); err != nil { fail("resume: %v", err); return }
	s.Show()
	s.Fini()
	n0 = tty.written()
	s.SetContent(2, 0, 'z', nil, StyleDefault)
	if !within("Show() after Fini", s.Show) || !within("Sync() after Fini", s.Sync) { return }
	if n := tty.written(); n != n0 {
		fail("after Fini(), Show() and Sync() wrote %d more bytes to the terminal: the screen is not inert", n-n0)
		return
	}`) + `
type c06RecTty struct {
	mu   sync.Mutex
	n    int
	wake chan struct{}
}

func (t *c06RecTty) written() int                      { t.mu.Lock(); defer t.mu.Unlock(); return t.n }
func (t *c06RecTty) Read(p []byte) (int, error)       { <-t.wake; return 0, nil }
func (t *c06RecTty) Write(p []byte) (int, error)      { t.mu.Lock(); t.n += len(p); t.mu.Unlock(); return len(p), nil }
func (t *c06RecTty) Close() error                     { return nil }
func (t *c06RecTty) Start() error                     { return nil }
func (t *c06RecTty) Stop() error                      { return nil }
func (t *c06RecTty) Drain() error                     { select { case t.wake <- struct{}{}: default: }; return nil }
func (t *c06RecTty) NotifyResize(cb func())           {}
func (t *c06RecTty) WindowSize() (WindowSize, error)  { return WindowSize{Width: 80, Height: 24}, nil }
`
	again := replayTest("tcell", []string{"sync", "runtime", "time", modPath + "/terminfo", "_ " + modPath + "/terminfo/base"}, `
	ti, err := terminfo.LookupTerminfo("xterm")
	if err != nil { fail("no xterm description: %v", err); return }
	tty := &c06RecTty{wake: make(chan struct{}, 4)}
	s, err := NewTerminfoScreenFromTtyTerminfo(tty, ti)
	if err != nil { fail("new screen: %v", err); return }
	if err := s.Init(); err != nil { fail("init: %v", err); return }
	s.Fini()
	time.Sleep(50 * time.Millisecond)
	before := runtime.NumGoroutine()
	rerr := s.Resume()
	time.Sleep(50 * time.Millisecond)
	if rerr == nil || runtime.NumGoroutine() > before {
		fail("Resume() after Fini() returned %v and left %d more goroutine(s) running: a finished screen came back to life", rerr, runtime.NumGoroutine()-before)
		return
	}`) + strings.SplitN(inert, "\ntype c06RecTty struct", 2)[0][:0] + "\ntype c06RecTty struct" + strings.SplitN(inert, "\ntype c06RecTty struct", 2)[1]
	sizes := replayTest("tcell", []string{"time", modPath + "/terminfo", "_ " + modPath + "/terminfo/base"}, `
	ti, err := terminfo.LookupTerminfo("xterm")
	if err != nil { fail("no xterm description: %v", err); return }
	tty := &c06SizeTty{w: 80, h: 24, wake: make(chan struct{}, 16)}
	s, err := NewTerminfoScreenFromTtyTerminfo(tty, ti)
	if err != nil { fail("new screen: %v", err); return }
	if err := s.Init(); err != nil { fail("init: %v", err); return }
	ts := s.(*baseScreen).screenImpl.(*tScreen)
	if err := s.Suspend(); err != nil { fail("suspend: %v", err); return }
	tty.w, tty.h = 40, 10 // the window shrinks while the screen is suspended (nobody is told: the callback is unregistered)
	if err := s.Resume(); err != nil { fail("resume: %v", err); return }
	ts.Lock()
	cw, ch := ts.cells.Size()
	w, h := ts.w, ts.h
	ts.Unlock()
	if w != cw || h != ch {
		fail("after Suspend, a window change to 40x10 and Resume the draw loops run over %dx%d but the cell buffer is %dx%d: once the window is back at %dx%d, resize() sees no change, and Show never returns (drawCell reports width 0 outside the buffer) with the screen lock held", w, h, cw, ch, w, h)
		return
	}
	tty.w, tty.h = 80, 24
	done := make(chan struct{})
	go func() { s.Sync(); s.Fini(); close(done) }()
	select {
	case <-done:
	case <-time.After(3 * time.Second):
		fail("Sync/Fini did not return within 3s after the window went back to 80x24")
	}`) + `
type c06SizeTty struct {
	w, h int
	wake chan struct{}
}

func (t *c06SizeTty) Read(p []byte) (int, error)      { <-t.wake; return 0, nil }
func (t *c06SizeTty) Write(p []byte) (int, error)     { return len(p), nil }
func (t *c06SizeTty) Close() error                    { return nil }
func (t *c06SizeTty) Start() error                    { return nil }
func (t *c06SizeTty) Stop() error                     { return nil }
func (t *c06SizeTty) Drain() error                    { select { case t.wake <- struct{}{}: default: }; return nil }
func (t *c06SizeTty) NotifyResize(cb func())          {}
func (t *c06SizeTty) WindowSize() (WindowSize, error) { return WindowSize{Width: t.w, Height: t.h}, nil }
`
	for _, g := range run.Groups {
		switch {
		case g.Name == "tcell.(*tScreen).engage/ensures#size-agrees":
			g.ReplayGo = sizes
		case g.Name == "tcell.(*tScreen).engage/ensures#finished-stays-down":
			g.ReplayGo = again
		case g.Name == "tcell.(*tScreen).finish/ensures#finished" || strings.HasPrefix(g.Name, "tcell.(*tScreen).Show/ensures#inert") || strings.HasPrefix(g.Name, "tcell.(*tScreen).Sync/ensures#inert"):
			g.ReplayGo = inert
		case strings.HasPrefix(g.Name, "tScreen.(*tScreen).scanInput/blocking#") && strings.HasSuffix(g.Name, "/stops-on-suspend"):
			g.ReplayGo = scenario(15, "s.Suspend()", "Suspend() did not return within 2s: 15 unpolled keys fill the event queue, the main loop blocks delivering the 11th and disengage waits for it forever")
		case strings.HasPrefix(g.Name, "tScreen.(*tScreen).inputLoop/blocking#") && strings.Contains(g.Name, "send:keychan") && strings.HasSuffix(g.Name, "/stops-on-fini"):
			g.ReplayGo = scenario(40, "s.Fini()", "Fini() did not return within 2s: with 40 unpolled keys the input goroutine is blocked sending to the full key channel, which nobody drains after the main loop exits")
		case strings.HasPrefix(g.Name, "tScreen.(*tScreen).inputLoop/blocking#") && strings.Contains(g.Name, "send:keychan") && strings.HasSuffix(g.Name, "/stops-on-suspend"):
			g.ReplayGo = scenario(40, "s.Suspend()", "Suspend() did not return within 2s: with 40 unpolled keys the input goroutine is blocked sending to the full key channel")
		}
	}
}

// c20BoxEnum: BOUNDED stand-in for the part of BoxLayout the contracts cannot reach (the shares of the surplus are
// computed in floating point, the cells sit behind pointers): the real BoxLayout is run natively on EVERY layout of up
// to 3 children (thorough: 4) with preferred extents 0..4, fill factors 0, 1 or 2, both orientations, in a view of
// 0..12 cells along the axis.  Whenever the preferred extents fit, every child gets at least its preferred extent,
// children are placed in order without gaps or overlap, and - if some child has a non-zero fill factor - the extents
// add up to the view exactly, each child's share of the surplus differing from the exact proportional share by less
// than one cell.  Exhaustive up to the stated bounds, not a proof.
func c20BoxEnum(run *PropRun) {
	maxN := 3
	if run.Tier == "thorough" {
		maxN = 4
	}
	src := replayTest("views", []string{"github.com/gdamore/tcell/v2"}, fmt.Sprintf(`
	maxN := %d
	n := 0
	bad := ""
	var rec func(prefs []int, fills []float64)
	check := func(prefs []int, fills []float64) {
		for _, orient := range []Orientation{Horizontal, Vertical} {
			for view := 0; view <= 12 && bad == ""; view++ {
				root := &c20eView{w: view, h: 3}
				if orient == Vertical { root = &c20eView{w: 3, h: view} }
				b := NewBoxLayout(orient)
				b.SetView(root)
				sum := 0
				totf := 0.0
				for i := range prefs {
					w := &c20eWidget{pw: prefs[i], ph: 1}
					if orient == Vertical { w = &c20eWidget{pw: 1, ph: prefs[i]} }
					b.AddWidget(w, fills[i])
					sum += prefs[i]
					totf += fills[i]
				}
				b.Resize()
				n++
				if sum > view { continue } // not enough room: clipping is ViewPort's business
				pos, total := 0, 0
				for i, c := range b.cells {
					x1, y1, x2, y2 := c.view.GetPhysical()
					start, end := x1, x2
					if orient == Vertical { start, end = y1, y2 }
					ext := end - start + 1
					if ext > 0 && start != pos { bad = fmt.Sprintf("orient %%d view %%d prefs %%v fills %%v: child %%d starts at %%d, want %%d", orient, view, prefs, fills, i, start, pos); return }
					if ext < prefs[i] { bad = fmt.Sprintf("orient %%d view %%d prefs %%v fills %%v: child %%d gets %%d, less than its preferred %%d", orient, view, prefs, fills, i, ext, prefs[i]); return }
					if totf > 0 {
						exact := float64(view-sum) * fills[i] / totf
						if d := float64(ext-prefs[i]) - exact; d <= -1 || d >= 1 { bad = fmt.Sprintf("orient %%d view %%d prefs %%v fills %%v: child %%d gets %%d extra cells, its proportional share is %%.3f", orient, view, prefs, fills, i, ext-prefs[i], exact); return }
					}
					if ext > 0 { pos = start + ext }
					total += ext
				}
				if totf > 0 && total != view { bad = fmt.Sprintf("orient %%d view %%d prefs %%v fills %%v: extents add up to %%d, not to the view", orient, view, prefs, fills, total); return }
				if totf == 0 && total != sum { bad = fmt.Sprintf("orient %%d view %%d prefs %%v fills %%v: without fill factors the extents add up to %%d, not to the preferred %%d", orient, view, prefs, fills, total, sum); return }
			}
		}
	}
	rec = func(prefs []int, fills []float64) {
		if bad != "" { return }
		if len(prefs) > 0 { check(prefs, fills) }
		if len(prefs) == maxN { return }
		for p := 0; p <= 4; p++ {
			for _, f := range []float64{0, 1, 2} {
				rec(append(append([]int(nil), prefs...), p), append(append([]float64(nil), fills...), f))
			}
		}
	}
	rec(nil, nil)
	if bad != "" { fmt.Println("BOXENUM FAIL " + bad); fail("%%s", bad); return }
	fmt.Printf("BOXENUM OK %%d\n", n)`, maxN)) + `
type c20eView struct{ w, h int }

func (s *c20eView) SetContent(x, y int, ch rune, comb []rune, st tcell.Style) {}
func (s *c20eView) Size() (int, int)                                       { return s.w, s.h }
func (s *c20eView) Resize(x, y, w, h int)                                  {}
func (s *c20eView) Fill(rune, tcell.Style)                                 {}
func (s *c20eView) Clear()                                                 {}

type c20eWidget struct {
	WidgetWatchers
	pw, ph int
	view   View
}

func (w *c20eWidget) Draw()                        {}
func (w *c20eWidget) Resize()                      {}
func (w *c20eWidget) HandleEvent(tcell.Event) bool { return false }
func (w *c20eWidget) SetView(v View)               { w.view = v }
func (w *c20eWidget) Size() (int, int)             { return w.pw, w.ph }
`
	out, err := runOverlayTest(run.Eng.Repo, run.Eng.Repo+"/views", src, 600*time.Second, nil)
	ok, detail := false, ""
	for _, ln := range strings.Split(out, "\n") {
		if strings.HasPrefix(ln, "BOXENUM OK ") {
			ok = true
			detail = strings.TrimPrefix(ln, "BOXENUM OK ") + " layouts"
		}
		if strings.HasPrefix(ln, "BOXENUM FAIL ") && detail == "" {
			detail = strings.TrimPrefix(ln, "BOXENUM FAIL ")
		}
	}
	if !ok && detail == "" {
		run.Errors = append(run.Errors, fmt.Sprintf("BoxLayout enumeration did not run: %v %s", err, tail(out, 400)))
		return
	}
	g := run.AddObligation("views.BoxLayout/enumerated-layouts-exact-distribution", "table-bounded", BoolT(ok),
		fmt.Sprintf("on every layout of up to %d children (preferred extents 0..4, fill factors 0/1/2, views 0..12, both orientations) that fits, the real BoxLayout gives every child at least its preferred extent, places the children in order without gaps, and distributes the surplus exactly and in proportion to the fill factors (native, exhaustive up to the bounds): %s", maxN, detail))
	g.ReplayDir = run.Eng.Repo + "/views"
	g.ReplayGo = src
	run.Extra["boxlayout_enumeration_max_children_bounded"] = maxN
}

// c20Replays: demonstrations for the BoxLayout call-log clauses (inputs for them cannot be built from a model: the
// cells are pointer-linked and their non-nil-ness is an assumption of the contract).
func c20Replays(run *PropRun) {
	demo := func(orient string) string {
		return replayTest("views", []string{"github.com/gdamore/tcell/v2"}, `
	parent := NewViewPort(&c20Screen{w: 40, h: 10}, 0, 0, 40, 10)
	box := NewBoxLayout(`+orient+`)
	box.SetView(parent)
	w1 := &c20Widget{pw: 5, ph: 2}
	w2 := &c20Widget{pw: 7, ph: 3}
	box.AddWidget(w1, 0)
	n1 := w1.resized
	box.AddWidget(w2, 0) // re-layout: both children are placed again and must both be told
	if w1.resized != n1+1 || w2.resized < 1 {
		fail("after adding a second child the first child was told about its rectangle %d time(s) more (want 1), the second %d time(s) (want >= 1)", w1.resized-n1, w2.resized)
		return
	}
	x1, y1, _, _ := w1.view.(*ViewPort).GetPhysical()
	x2, y2, _, _ := w2.view.(*ViewPort).GetPhysical()
	if `+map[string]string{"Horizontal": "x1 != 0 || x2 != 5 || y1 != 0 || y2 != 0", "Vertical": "y1 != 0 || y2 != 2 || x1 != 0 || x2 != 0"}[orient]+` {
		fail("children placed at (%d,%d) and (%d,%d): not in order / not abutting", x1, y1, x2, y2)
		return
	}`) + `
type c20Screen struct{ w, h int }

func (s *c20Screen) SetContent(x, y int, ch rune, comb []rune, st tcell.Style) {}
func (s *c20Screen) Size() (int, int)                                       { return s.w, s.h }
func (s *c20Screen) Resize(x, y, w, h int)                                  {}
func (s *c20Screen) Fill(rune, tcell.Style)                                 {}
func (s *c20Screen) Clear()                                                 {}

type c20Widget struct {
	WidgetWatchers
	pw, ph  int
	resized int
	view    View
}

func (w *c20Widget) Draw()                          {}
func (w *c20Widget) Resize()                        { w.resized++ }
func (w *c20Widget) HandleEvent(tcell.Event) bool   { return false }
func (w *c20Widget) SetView(v View)                 { w.view = v }
func (w *c20Widget) Size() (int, int)               { return w.pw, w.ph }
`
	}
	for _, g := range run.Groups {
		switch {
		case strings.HasPrefix(g.Name, "views.(*BoxLayout).hLayout/calls#"):
			g.ReplayGo = demo("Horizontal")
			g.ReplayDir = run.Eng.Repo + "/views"
		case strings.HasPrefix(g.Name, "views.(*BoxLayout).vLayout/calls#"):
			g.ReplayGo = demo("Vertical")
			g.ReplayDir = run.Eng.Repo + "/views"
		}
	}
}

// c08FillEnum: "changing a wide rune also dirties every column it covered", for Fill - the quantified clause over
// y*w+x (nonlinear) comes back unknown from the solvers, so this clause of Fill is decided by a bounded native
// enumeration of the real code: a 3x2 buffer, every assignment of {'a','b',wide} to the cells (wide runes only where a
// second column exists), every cell marked clean, Fill with each of {'a','b',' ',wide}: every cell whose content
// changed is dirty, and so is the column next to a wide rune that was replaced. Bounded, labelled as such.
func c08FillEnum(run *PropRun) {
	src := replayTest("tcell", nil, `
	const W, H = 3, 2
	runes := []rune{'a', 'b', 0x4e16}
	fills := []rune{'a', 'b', ' ', 0x4e16, 0x754c}
	n := 0
	bad := ""
	total := 1
	for i := 0; i < W*H; i++ { total *= len(runes) }
	for code := 0; code < total && bad == ""; code++ {
		for _, fr := range fills {
			cb := &CellBuffer{}
			cb.Resize(W, H)
			k := code
			init := make([]rune, W*H)
			for i := 0; i < W*H; i++ { init[i] = runes[k%len(runes)]; k /= len(runes) }
			for y := 0; y < H; y++ {
				for x := 0; x < W; x++ { cb.SetContent(x, y, init[y*W+x], nil, StyleDefault) }
			}
			for y := 0; y < H; y++ {
				for x := 0; x < W; x++ { cb.SetDirty(x, y, false) }
			}
			cb.Fill(fr, StyleDefault)
			n++
			for y := 0; y < H && bad == ""; y++ {
				for x := 0; x < W; x++ {
					if init[y*W+x] != fr && !cb.Dirty(x, y) {
						bad = fmt.Sprintf("cells %q clean, Fill(%q): cell (%d,%d) changed from %q and is not dirty", string(init), fr, x, y, init[y*W+x])
						break
					}
					if init[y*W+x] == 0x4e16 && fr != 0x4e16 && x+1 < W && !cb.Dirty(x+1, y) {
						bad = fmt.Sprintf("cells %q clean, Fill(%q): the wide rune at (%d,%d) was replaced and the column it covered, (%d,%d), is not dirty", string(init), fr, x, y, x+1, y)
						break
					}
				}
			}
		}
	}
	if bad != "" { fmt.Println("FILLENUM FAIL " + bad); fail("%s", bad); return }
	fmt.Printf("FILLENUM OK %d\n", n)`)
	out, err := runOverlayTest(run.Eng.Repo, run.Eng.Repo, src, 300*time.Second, nil)
	ok, detail := false, ""
	for _, ln := range strings.Split(out, "\n") {
		if strings.HasPrefix(ln, "FILLENUM OK ") {
			ok = true
			detail = strings.TrimPrefix(ln, "FILLENUM OK ") + " buffers"
		}
		if strings.HasPrefix(ln, "FILLENUM FAIL ") && detail == "" {
			detail = strings.TrimPrefix(ln, "FILLENUM FAIL ")
		}
	}
	if !ok && detail == "" {
		run.Errors = append(run.Errors, fmt.Sprintf("Fill enumeration did not run: %v %s", err, tail(out, 400)))
		return
	}
	g := run.AddObligation("CellBuffer.Fill/enumerated-changed-and-covered-columns-dirty", "table-bounded", BoolT(ok),
		"on every 3x2 buffer over {'a','b',wide} with all cells clean, Fill with 'a','b',' ' or a wide rune leaves every cell whose rune changed dirty, and the column a replaced wide rune covered as well (native, exhaustive up to the bounds): "+detail)
	g.ReplayDir = run.Eng.Repo
	g.ReplayGo = src
	run.Extra["fill_enumeration_buffers_bounded"] = 729 * 5
}

// c12HugeCoords: "all coordinates (... beyond the screen, multi-digit)": the decimal value in the parser's contract is
// the 64-bit value the code accumulates, so a coordinate with more digits than an int holds is outside what that
// clause pins down. Bounded native stand-in: SGR reports whose coordinates have 1..25 digits (and the values around
// 2^63 and 2^64) through the real parser on an 80x24 screen: the position is the far edge (or 0 for negative ones).
func c12HugeCoords(run *PropRun) {
	src := replayTest("tcell", []string{"bytes", "strconv", "strings", modPath + "/terminfo"}, `
	scr := &tScreen{ti: &terminfo.Terminfo{Mouse: "\x1b[M"}}
	scr.cells.Resize(80, 24)
	scr.w, scr.h = 80, 24
	var coords []string
	for n := 1; n <= 25; n++ { coords = append(coords, strings.Repeat("9", n)) }
	coords = append(coords, "9223372036854775807", "9223372036854775808", "9223372036854775809", "18446744073709551615", "18446744073709551616", "18446744073709551621", "100000000000000000000")
	bad := ""
	n := 0
	for _, c := range coords {
		for _, neg := range []bool{false, true} {
			cs := c
			wantX, wantY := 79, 23
			if len(c) <= 3 {
				v, _ := strconv.Atoi(c)
				if v-1 < wantX { wantX = v - 1 }
				if v-1 < wantY { wantY = v - 1 }
			}
			if neg { cs = "-" + c; wantX, wantY = 0, 0 }
			for axis := 0; axis < 2; axis++ {
				rep := "\x1b[<0;" + cs + ";7M"
				if axis == 1 { rep = "\x1b[<0;5;" + cs + "M" }
				var evs []Event
				buf := bytes.NewBufferString(rep)
				_, comp := scr.parseSgrMouse(buf, &evs)
				n++
				if !comp || len(evs) != 1 { bad = fmt.Sprintf("%q: not decoded as one report", rep); break }
				m, ok := evs[0].(*EventMouse)
				if !ok { bad = fmt.Sprintf("%q: not a mouse event", rep); break }
				x, y := m.Position()
				if axis == 0 && x != wantX || axis == 1 && y != wantY {
					bad = fmt.Sprintf("%q on an 80x24 screen decodes to position (%d,%d): a coordinate beyond the screen is clipped to the edge (want %d)", rep, x, y, map[bool]int{true: wantX, false: wantY}[axis == 0])
					break
				}
				scr.buttondn = false
			}
			if bad != "" { break }
		}
		if bad != "" { break }
	}
	if bad != "" { fmt.Println("HUGECOORD FAIL " + bad); fail("%s", bad); return }
	fmt.Printf("HUGECOORD OK %d\n", n)`)
	out, err := runOverlayTest(run.Eng.Repo, run.Eng.Repo, src, 120*time.Second, nil)
	ok, detail := false, ""
	for _, ln := range strings.Split(out, "\n") {
		if strings.HasPrefix(ln, "HUGECOORD OK ") {
			ok = true
			detail = strings.TrimPrefix(ln, "HUGECOORD OK ") + " reports"
		}
		if strings.HasPrefix(ln, "HUGECOORD FAIL ") && detail == "" {
			detail = strings.TrimPrefix(ln, "HUGECOORD FAIL ")
		}
	}
	if !ok && detail == "" {
		run.Errors = append(run.Errors, fmt.Sprintf("huge-coordinate check did not run: %v %s", err, tail(out, 400)))
		return
	}
	g := run.AddObligation("parseSgrMouse/many-digit-coordinates-clipped", "bounded", BoolT(ok),
		"SGR reports whose coordinates have 1..25 digits, positive and negative, are clipped to the edge of an 80x24 screen (native, bounded list): "+detail)
	g.ReplayDir = run.Eng.Repo
	g.ReplayGo = src
}
