package main

// Reference semantics of terminfo(5) parameterized strings, written from the manual page
// ("Parameterized Strings"): a structured, nesting-aware evaluator over the same symbolic domain
// as the verifier (64-bit vector terms for integers, ropes for output).  It is the oracle for C07/C15.

import (
	"fmt"
	"strings"
	"math/big"
)

type refVal struct {
	I *Term // integer (BV64)
	S *StrV // string
}

type refState struct {
	out    StrV
	stack  []refVal
	params []refVal
	dvars  map[byte]refVal
	svars  map[byte]refVal
	cond   []*Term
	undef  string // non-empty: the reference semantics is not defined for this run (ill-typed program)
}

func (s *refState) clone() *refState {
	n := &refState{out: s.out, undef: s.undef}
	n.stack = append([]refVal(nil), s.stack...)
	n.params = append([]refVal(nil), s.params...)
	n.cond = append([]*Term(nil), s.cond...)
	n.dvars = map[byte]refVal{}
	for k, v := range s.dvars {
		n.dvars[k] = v
	}
	n.svars = map[byte]refVal{}
	for k, v := range s.svars {
		n.svars[k] = v
	}
	return n
}

type RefPath struct {
	Cond  []*Term
	Out   StrV
	Undef string
}

type refEval struct {
	c    *Ctx
	st   *State
	prog string
}

func bv64(v int64) *Term { return BVC(big.NewInt(v), 64) }

func (r *refEval) push(s *refState, v refVal) { s.stack = append(s.stack, v) }

func (r *refEval) pop(s *refState) refVal {
	if len(s.stack) == 0 {
		// terminfo(5): popping an empty stack is undefined; ncurses yields 0 / ""
		return refVal{I: bv64(0)}
	}
	v := s.stack[len(s.stack)-1]
	s.stack = s.stack[:len(s.stack)-1]
	return v
}

func (r *refEval) popInt(s *refState) *Term {
	v := r.pop(s)
	if v.I == nil {
		s.undef = "integer operator applied to a string"
		return bv64(0)
	}
	return v.I
}

func (r *refEval) emit(s *refState, piece StrV) { s.out = r.c.strConcat(s.out, piece) }

func b2i(t *Term) *Term { return Ite(t, bv64(1), bv64(0)) }

// Eval returns every path of the reference evaluation of prog with the given parameters.
func RefTParm(c *Ctx, st *State, prog string, params []refVal) []RefPath {
	r := &refEval{c: c, st: st, prog: prog}
	s0 := &refState{out: conc(""), params: append([]refVal(nil), params...), dvars: map[byte]refVal{}, svars: map[byte]refVal{}}
	for len(s0.params) < 9 {
		s0.params = append(s0.params, refVal{I: bv64(0)})
	}
	ends := r.run([]*refState{s0}, 0, len(prog), nil)
	var out []RefPath
	for _, e := range ends {
		out = append(out, RefPath{Cond: e.cond, Out: e.out, Undef: e.undef})
	}
	return out
}

// findCondEnd locates, from position i (just after a "%?"), the matching "%;" and the top-level "%t"/"%e" markers.
type condParts struct {
	tPos []int // positions of top-level %t
	ePos []int // positions of top-level %e
	end  int   // position of the matching %; (index of '%'), or len(prog) if unterminated
}

func (r *refEval) scanCond(i, limit int) condParts {
	cp := condParts{end: limit}
	depth := 0
	for i < limit {
		if r.prog[i] != '%' || i+1 >= limit {
			i++
			continue
		}
		ch := r.prog[i+1]
		switch ch {
		case '?':
			depth++
		case ';':
			if depth == 0 {
				cp.end = i
				return cp
			}
			depth--
		case 't':
			if depth == 0 {
				cp.tPos = append(cp.tPos, i)
			}
		case 'e':
			if depth == 0 {
				cp.ePos = append(cp.ePos, i)
			}
		case '\'':
			i += 2 // %'c'
		case '{':
			for i < limit && r.prog[i] != '}' {
				i++
			}
		}
		i += 2
	}
	return cp
}

// run evaluates prog[i:limit] for each state; returns the resulting states (forking on symbolic conditions).
func (r *refEval) run(states []*refState, i, limit int, _ interface{}) []*refState {
	for i < limit && len(states) > 0 {
		ch := r.prog[i]
		if ch != '%' {
			for _, s := range states {
				r.emit(s, conc(string([]byte{ch})))
			}
			i++
			continue
		}
		i++
		if i >= limit {
			break
		}
		op := r.prog[i]
		i++
		switch op {
		case '%':
			for _, s := range states {
				r.emit(s, conc("%"))
			}
		case 'i':
			for _, s := range states {
				for k := 0; k < 2; k++ {
					if s.params[k].I != nil {
						s.params[k] = refVal{I: Arith("+", s.params[k].I, bv64(1))}
					}
				}
			}
		case 'p':
			if i < limit {
				n := int(r.prog[i]) - '1'
				i++
				for _, s := range states {
					if n >= 0 && n < 9 {
						r.push(s, s.params[n])
					} else {
						r.push(s, refVal{I: bv64(0)})
					}
				}
			}
		case 'd':
			for _, s := range states {
				v := r.popInt(s)
				if isNum(v) {
					r.emit(s, conc(bvSigned(v.Val, 64).String()))
				} else {
					r.emit(s, StrV{Spec: "itoa", SArgs: []Value{v}})
				}
			}
		case 'c':
			for _, s := range states {
				v := r.popInt(s)
				b := BVResize(v, 8, false)
				if isNum(b) {
					r.emit(s, conc(string([]byte{byte(b.Val.Int64())})))
				} else {
					r.emit(s, StrV{Spec: "chr", SArgs: []Value{b}})
				}
			}
		case 's':
			for _, s := range states {
				v := r.pop(s)
				if v.S == nil {
					s.undef = "%s applied to an integer"
					continue
				}
				r.emit(s, *v.S)
			}
		case '\'':
			if i+1 < limit {
				cv := r.prog[i]
				i += 2
				for _, s := range states {
					r.push(s, refVal{I: bv64(int64(cv))})
				}
			}
		case '{':
			n := int64(0)
			for i < limit && r.prog[i] >= '0' && r.prog[i] <= '9' {
				n = n*10 + int64(r.prog[i]-'0')
				i++
			}
			if i < limit {
				i++ // '}'
			}
			for _, s := range states {
				r.push(s, refVal{I: bv64(n)})
			}
		case 'l':
			for _, s := range states {
				v := r.pop(s)
				if v.S == nil {
					s.undef = "%l applied to an integer"
					continue
				}
				r.push(s, refVal{I: r.c.strLen(r.st, *v.S)})
			}
		case '+', '-', '*', '/', 'm', '&', '|', '^', '=', '>', '<', 'A', 'O':
			var next []*refState
			for _, s := range states {
				b := r.popInt(s)
				a := r.popInt(s)
				var res *Term
				zero := bv64(0)
				// operators whose result depends on a condition fork on it (as any implementation must branch there)
				var cnd *Term
				switch op {
				case '/', 'm':
					cnd = Eq(b, zero)
				case '=':
					cnd = Eq(a, b)
				case '>':
					cnd = Cmp(">", a, b, true)
				case '<':
					cnd = Cmp("<", a, b, true)
				case 'A':
					cnd = And(Not(Eq(a, zero)), Not(Eq(b, zero)))
				case 'O':
					cnd = Or(Not(Eq(a, zero)), Not(Eq(b, zero)))
				}
				if cnd != nil && !cnd.IsTrue() && !cnd.IsFalse() {
					t := s.clone()
					t.cond = append(t.cond, cnd)
					s.cond = append(s.cond, Not(cnd))
					var tv, fv *Term
					switch op {
					case '/':
						tv, fv = zero, BVOp("quo", a, b, true)
					case 'm':
						tv, fv = zero, BVOp("rem", a, b, true)
					default:
						tv, fv = bv64(1), zero
					}
					r.push(t, refVal{I: tv})
					r.push(s, refVal{I: fv})
					next = append(next, t, s)
					continue
				}
				next = append(next, s)
				switch op {
				case '+':
					res = Arith("+", a, b)
				case '-':
					res = Arith("-", a, b)
				case '*':
					res = Arith("*", a, b)
				case '/':
					res = Ite(Eq(b, zero), zero, BVOp("quo", a, b, true))
				case 'm':
					res = Ite(Eq(b, zero), zero, BVOp("rem", a, b, true))
				case '&':
					res = BVOp("and", a, b, false)
				case '|':
					res = BVOp("or", a, b, false)
				case '^':
					res = BVOp("xor", a, b, false)
				case '=':
					res = b2i(Eq(a, b))
				case '>':
					res = b2i(Cmp(">", a, b, true))
				case '<':
					res = b2i(Cmp("<", a, b, true))
				case 'A':
					res = b2i(And(Not(Eq(a, zero)), Not(Eq(b, zero))))
				case 'O':
					res = b2i(Or(Not(Eq(a, zero)), Not(Eq(b, zero))))
				}
				r.push(s, refVal{I: res})
			}
			states = next
		case '!':
			var next []*refState
			for _, s := range states {
				a := r.popInt(s)
				z := Eq(a, bv64(0))
				if !z.IsTrue() && !z.IsFalse() {
					t := s.clone()
					t.cond = append(t.cond, z)
					s.cond = append(s.cond, Not(z))
					r.push(t, refVal{I: bv64(1)})
					r.push(s, refVal{I: bv64(0)})
					next = append(next, t, s)
					continue
				}
				r.push(s, refVal{I: b2i(z)})
				next = append(next, s)
			}
			states = next
		case '~':
			for _, s := range states {
				a := r.popInt(s)
				r.push(s, refVal{I: mk("bvnot", a.Sort, a)})
			}
		case 'P':
			if i < limit {
				v := r.prog[i]
				i++
				for _, s := range states {
					x := r.pop(s)
					if v >= 'A' && v <= 'Z' {
						s.svars[v] = x
					} else if v >= 'a' && v <= 'z' {
						s.dvars[v] = x
					}
				}
			}
		case 'g':
			if i < limit {
				v := r.prog[i]
				i++
				for _, s := range states {
					var x refVal
					var ok bool
					if v >= 'A' && v <= 'Z' {
						x, ok = s.svars[v]
						if !ok {
							s.undef = "static variable read before being set in this evaluation"
						}
					} else {
						x, ok = s.dvars[v]
					}
					if !ok {
						x = refVal{I: bv64(0)}
					}
					r.push(s, x)
				}
			}
		case '?':
			cp := r.scanCond(i, limit)
			states = r.runCond(states, i, cp)
			i = cp.end + 2
			if cp.end >= limit {
				i = limit
			}
		case ';', 't', 'e':
			// stray markers outside a conditional: ignored
		default:
			// printf-style formats  %[[:]flags][width[.precision]][doxXs]
			j := i - 1
			if op == ':' {
				j = i
			}
			k := j
			for k < limit && (r.prog[k] == '+' || r.prog[k] == '-' || r.prog[k] == '#' || r.prog[k] == ' ') {
				k++
			}
			for k < limit && (r.prog[k] >= '0' && r.prog[k] <= '9' || r.prog[k] == '.') {
				k++
			}
			if k < limit && (r.prog[k] == 'd' || r.prog[k] == 'o' || r.prog[k] == 'x' || r.prog[k] == 'X' || r.prog[k] == 's' || r.prog[k] == 'c') && k > j {
				f := "%" + r.prog[j:k+1]
				conv := r.prog[k]
				i = k + 1
				var extra []*refState
				for _, s := range states {
					if conv == 's' {
						v := r.pop(s)
						if v.S == nil {
							s.undef = "%s format applied to an integer"
							continue
						}
						r.emit(s, StrV{Spec: "fmt", SArgs: []Value{conc(f), *v.S}})
					} else {
						v := r.popInt(s)
						// printf(3): the alternate form of x/X prefixes 0x only to a NONZERO result (Go's fmt prefixes zero too)
						fz := f
						if (conv == 'x' || conv == 'X') && strings.Contains(f, "#") {
							fz = strings.Replace(f, "#", "", 1)
						}
						if isNum(v) {
							if v.Val.Sign() == 0 {
								r.emit(s, conc(fmt.Sprintf(fz, 0)))
							} else {
								r.emit(s, conc(fmt.Sprintf(f, int(bvSigned(v.Val, 64).Int64()))))
							}
						} else if fz != f {
							z := s.clone()
							z.cond = append(z.cond, Eq(v, bv64(0)))
							r.emit(z, StrV{Spec: "fmt", SArgs: []Value{conc(fz), v}}) // printf(fz, v) with v == 0 on this branch
							extra = append(extra, z)
							s.cond = append(s.cond, Not(Eq(v, bv64(0))))
							r.emit(s, StrV{Spec: "fmt", SArgs: []Value{conc(f), v}})
						} else {
							r.emit(s, StrV{Spec: "fmt", SArgs: []Value{conc(f), v}})
						}
					}
				}
				states = append(states, extra...)
			} else {
				for _, s := range states {
					s.undef = fmt.Sprintf("unknown %%%c", op)
				}
			}
		}
	}
	return states
}

// runCond evaluates  %? c1 %t b1 %e c2 %t b2 %e ... bn %;  (else-if chains) starting at position i.
func (r *refEval) runCond(states []*refState, i int, cp condParts) []*refState {
	// segments: [i, t0) cond, (t0, e0) then, (e0, t1) cond2 ... last else body up to end
	var done []*refState
	cur := states
	pos := i
	ti, ei := 0, 0
	for {
		if ti >= len(cp.tPos) || (ei < len(cp.ePos) && cp.ePos[ei] < cp.tPos[ti] && false) {
			// no more %t: the rest up to end is the final else body
			rest := r.run(cur, pos, cp.end, nil)
			done = append(done, rest...)
			return done
		}
		t := cp.tPos[ti]
		// condition part
		cur = r.run(cur, pos, t, nil)
		// find the %e that ends this then-part (first top-level %e after t), or end
		thenEnd := cp.end
		for ei < len(cp.ePos) && cp.ePos[ei] < t {
			ei++
		}
		hasElse := false
		if ei < len(cp.ePos) {
			thenEnd = cp.ePos[ei]
			hasElse = true
		}
		var thenStates, elseStates []*refState
		for _, s := range cur {
			v := r.popInt(s)
			z := Eq(v, bv64(0))
			switch {
			case z.IsTrue():
				elseStates = append(elseStates, s)
			case z.IsFalse():
				thenStates = append(thenStates, s)
			default:
				a := s.clone()
				a.cond = append(a.cond, Not(z))
				b := s
				b.cond = append(b.cond, z)
				thenStates = append(thenStates, a)
				elseStates = append(elseStates, b)
			}
		}
		done = append(done, r.run(thenStates, t+2, thenEnd, nil)...)
		if !hasElse {
			done = append(done, elseStates...)
			return done
		}
		cur = elseStates
		pos = thenEnd + 2
		ei++
		// next %t must come after this %e to be an else-if; otherwise the rest is a plain else body
		for ti < len(cp.tPos) && cp.tPos[ti] <= thenEnd {
			ti++
		}
		if ti >= len(cp.tPos) {
			rest := r.run(cur, pos, cp.end, nil)
			done = append(done, rest...)
			return done
		}
	}
}
