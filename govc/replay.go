package main

// Replay of counterexamples against the real code: a generated in-package test is injected with
// `go test -overlay` (nothing is written into the repository), the real function is called on the
// inputs of the solver's model, its outputs / post-state / panics are dumped, and the violated
// clause is then evaluated on those concrete values.

import (
	"bytes"
	"context"
	"encoding/json"
	"fmt"
	"go/types"
	"math/big"
	"os"
	"os/exec"
	"path/filepath"
	"sort"
	"strings"
	"time"

	"golang.org/x/tools/go/ssa"
)

const replayMaxElems = 16
const replayMaxBytes = 48

// inputLeafTerms enumerates the terms whose model values are needed to rebuild the inputs.
func (c *Ctx) inputLeafTerms() []*Term {
	var out []*Term
	seen := map[int]bool{}
	add := func(t *Term) {
		if t != nil && !t.IsConst() && !seen[t.id] {
			seen[t.id] = true
			out = append(out, t)
		}
	}
	st := c.scratchState()
	var walk func(v Value, depth int)
	walk = func(v Value, depth int) {
		if depth > 6 {
			return
		}
		switch x := v.(type) {
		case *Term:
			add(x)
		case *StructV:
			for _, f := range x.F {
				walk(f, depth+1)
			}
		case *ArrayV:
			for _, f := range x.Elems {
				walk(f, depth+1)
			}
		case PtrV:
			if x.Sym != nil {
				add(x.Sym)
				if o, ok := c.InitSym[x.Sym.id]; ok {
					walk(c.initVals[o], depth+1)
				}
			}
		case IfaceV:
			add(x.Sym)
		case SliceV:
			if x.Heap {
				add(x.Ref)
				add(x.Off)
				add(x.Len)
				add(x.Cap)
				for i := 0; i < replayMaxElems; i++ {
					func() {
						defer func() { recover() }()
						ev := c.heapRead(st, x.Elem, x.Ref, Arith("+", x.Off, c.idx(int64(i))), nil)
						walk(ev, depth+2)
					}()
				}
			}
		case StrV:
			if x.Arr != nil {
				add(x.Len)
				add(x.Off)
				for i := 0; i < replayMaxBytes; i++ {
					add(Select(x.Arr, Arith("+", x.Off, c.idx(int64(i)))))
				}
			}
		}
	}
	for _, v := range c.ParamVals {
		walk(v, 0)
	}
	return out
}

func (c *Ctx) scratchState() *State {
	st := &State{Mem: map[*Object]Value{}, Heap: map[string]*Term{}, Ghost: map[string]Value{}, SymObjs: map[int]*Object{}, pcSeen: map[int]bool{}}
	st.Alloc = c.alloc0
	return st
}

type modelEval struct {
	m map[string]string
	p *printer
}

func (me *modelEval) intOf(t *Term) (int64, bool) {
	if t.IsConst() {
		switch t.Sort.Kind {
		case SInt:
			if t.Val.IsInt64() {
				return t.Val.Int64(), true
			}
			if t.Val.IsUint64() {
				return int64(t.Val.Uint64()), true
			}
			return 0, false
		case SBV:
			return int64(t.Val.Uint64()), true
		case SBool:
			if t.BVal {
				return 1, true
			}
			return 0, true
		}
	}
	s, ok := me.m[me.p.str(t)]
	if !ok {
		return 0, true // unconstrained: any value will do
	}
	if s == "true" {
		return 1, true
	}
	if s == "false" {
		return 0, true
	}
	// arbitrary-size integers (math-mode models are unbounded): wrap into 64 bits
	str := strings.TrimSpace(s)
	neg := false
	if strings.HasPrefix(str, "(- ") && strings.HasSuffix(str, ")") {
		neg = true
		str = strings.TrimSpace(str[3 : len(str)-1])
	}
	if bi, ok := new(big.Int).SetString(str, 10); ok {
		if neg {
			bi.Neg(bi)
		}
		m := new(big.Int).Lsh(big.NewInt(1), 64)
		bi.Mod(bi, m)
		return int64(bi.Uint64()), true
	}
	if v, ok := modelInt(s); ok {
		return v, true
	}
	return 0, false
}

// valueToJSON renders an input value (symbolic tree + model) as JSON-able data typed by t.
func (c *Ctx) valueToJSON(me *modelEval, v Value, t types.Type, depth int) (interface{}, bool) {
	if depth > 8 {
		return nil, false
	}
	switch u := under(t).(type) {
	case *types.Basic:
		switch x := v.(type) {
		case *Term:
			if x.Sort.Kind == SFP || x.Sort.Kind == SReal {
				return 0.0, true
			}
			n, ok := me.intOf(x)
			if !ok {
				return nil, false
			}
			if isBool(t) {
				return n != 0, true
			}
			if isUnsigned(t) {
				return uint64(n), true
			}
			// wrap into the type's range
			switch intBits(t) {
			case 8:
				return int64(int8(n)), true
			case 16:
				return int64(int16(n)), true
			case 32:
				return int64(int32(n)), true
			}
			return n, true
		case StrV:
			if x.Conc != nil {
				return []byte(*x.Conc), true
			}
			if x.Arr != nil {
				ln, ok := me.intOf(x.Len)
				if !ok || ln < 0 || ln > replayMaxBytes {
					c.Notes = append(c.Notes, fmt.Sprintf("replay: string length %d (%s) above bound", ln, x.Len))
					return nil, false
				}
				bs := make([]byte, ln)
				for i := int64(0); i < ln; i++ {
					b, ok := me.intOf(Select(x.Arr, Arith("+", x.Off, c.idx(i))))
					if !ok {
						return nil, false
					}
					bs[i] = byte(b)
				}
				return bs, true
			}
		}
		return nil, false
	case *types.Struct:
		sv, ok := v.(*StructV)
		if !ok {
			return nil, false
		}
		m := map[string]interface{}{}
		for i := 0; i < u.NumFields(); i++ {
			j, ok := c.valueToJSON(me, sv.F[i], u.Field(i).Type(), depth+1)
			if !ok {
				// a field the harness cannot build (map, channel, func, oversized data) keeps its zero value
				continue
			}
			m[u.Field(i).Name()] = j
		}
		return m, true
	case *types.Array:
		av, ok := v.(*ArrayV)
		if !ok {
			return nil, false
		}
		var l []interface{}
		for _, e := range av.Elems {
			j, ok := c.valueToJSON(me, e, u.Elem(), depth+1)
			if !ok {
				return nil, false
			}
			l = append(l, j)
		}
		return l, true
	case *types.Pointer:
		pv, ok := v.(PtrV)
		if !ok {
			return nil, false
		}
		if pv.Nil {
			return nil, true
		}
		if pv.Sym != nil {
			n, ok := me.intOf(pv.Sym)
			if !ok {
				return nil, false
			}
			if n == 0 {
				return nil, true
			}
			if o, ok := c.InitSym[pv.Sym.id]; ok {
				return c.valueToJSON(me, c.initVals[o], u.Elem(), depth+1)
			}
			return map[string]interface{}{}, true // never dereferenced: zero value
		}
		return nil, false
	case *types.Slice:
		sv, ok := v.(SliceV)
		if !ok {
			return nil, false
		}
		if !sv.Heap {
			return nil, false
		}
		ref, ok1 := me.intOf(sv.Ref)
		ln, ok2 := me.intOf(sv.Len)
		if !ok1 || !ok2 {
			c.Notes = append(c.Notes, "replay: slice header not in model")
			return nil, false
		}
		if ref == 0 || ln < 0 {
			return nil, true // nil slice (a negative length only occurs for memory the path never looked at)
		}
		if ln > replayMaxElems {
			c.Notes = append(c.Notes, fmt.Sprintf("replay: slice length %d (%s) above bound", ln, sv.Len))
			return nil, false
		}
		st := c.scratchState()
		l := []interface{}{}
		for i := int64(0); i < ln; i++ {
			ev := c.heapRead(st, sv.Elem, sv.Ref, Arith("+", sv.Off, c.idx(i)), nil)
			j, ok := c.valueToJSON(me, ev, u.Elem(), depth+1)
			if !ok {
				return nil, false
			}
			l = append(l, j)
		}
		return l, true
	case *types.Interface:
		iv, ok := v.(IfaceV)
		if !ok {
			return nil, false
		}
		if iv.Nil {
			return nil, true
		}
		if iv.Sym != nil {
			n, ok := me.intOf(iv.Sym)
			if !ok {
				return nil, false
			}
			if n == 0 {
				return nil, true
			}
			return map[string]interface{}{"$stub": true}, true
		}
		return nil, false
	}
	return nil, false
}

// ---- harness generation ----

const harnessRuntime = `
var verifCalls []map[string]interface{}

func verifLoad(dst reflect.Value, j interface{}) {
	if !dst.CanSet() {
		dst = reflect.NewAt(dst.Type(), unsafe.Pointer(dst.UnsafeAddr())).Elem()
	}
	switch dst.Kind() {
	case reflect.Bool:
		b, _ := j.(bool)
		dst.SetBool(b)
	case reflect.Int, reflect.Int8, reflect.Int16, reflect.Int32, reflect.Int64:
		switch n := j.(type) {
		case json.Number:
			v, err := n.Int64()
			if err != nil {
				u, _ := strconv.ParseUint(string(n), 10, 64)
				v = int64(u)
			}
			dst.SetInt(v)
		}
	case reflect.Uint, reflect.Uint8, reflect.Uint16, reflect.Uint32, reflect.Uint64, reflect.Uintptr:
		switch n := j.(type) {
		case json.Number:
			u, err := strconv.ParseUint(string(n), 10, 64)
			if err != nil {
				v, _ := n.Int64()
				u = uint64(v)
			}
			dst.SetUint(u)
		}
	case reflect.Float32, reflect.Float64:
		if n, ok := j.(json.Number); ok {
			f, _ := n.Float64()
			dst.SetFloat(f)
		}
	case reflect.String:
		// strings travel as arrays of byte values
		if l, ok := j.([]interface{}); ok {
			bs := make([]byte, len(l))
			for i, e := range l {
				if n, ok := e.(json.Number); ok {
					v, _ := n.Int64()
					bs[i] = byte(v)
				}
			}
			dst.SetString(string(bs))
		}
	case reflect.Struct:
		m, _ := j.(map[string]interface{})
		for i := 0; i < dst.NumField(); i++ {
			if v, ok := m[dst.Type().Field(i).Name]; ok {
				verifLoad(dst.Field(i), v)
			}
		}
	case reflect.Ptr:
		if j == nil {
			return
		}
		n := reflect.New(dst.Type().Elem())
		verifLoad(n.Elem(), j)
		dst.Set(n)
	case reflect.Slice:
		if j == nil {
			return
		}
		l, _ := j.([]interface{})
		s := reflect.MakeSlice(dst.Type(), len(l), len(l))
		for i, e := range l {
			verifLoad(s.Index(i), e)
		}
		dst.Set(s)
	case reflect.Array:
		l, _ := j.([]interface{})
		for i := 0; i < dst.Len() && i < len(l); i++ {
			verifLoad(dst.Index(i), l[i])
		}
	case reflect.Interface:
		if j == nil {
			return
		}
		if st := verifStubFor(dst.Type()); st.IsValid() {
			dst.Set(st)
		}
	}
}

func verifDump(v reflect.Value, depth int) interface{} {
	if depth > 8 {
		return "..."
	}
	switch v.Kind() {
	case reflect.Bool:
		return v.Bool()
	case reflect.Int, reflect.Int8, reflect.Int16, reflect.Int32, reflect.Int64:
		return v.Int()
	case reflect.Uint, reflect.Uint8, reflect.Uint16, reflect.Uint32, reflect.Uint64, reflect.Uintptr:
		return v.Uint()
	case reflect.Float32, reflect.Float64:
		return v.Float()
	case reflect.String:
		bs := []byte(v.String())
		l := make([]interface{}, len(bs))
		for i, b := range bs {
			l[i] = int(b)
		}
		return l
	case reflect.Struct:
		m := map[string]interface{}{}
		for i := 0; i < v.NumField(); i++ {
			m[v.Type().Field(i).Name] = verifDump(v.Field(i), depth+1)
		}
		return m
	case reflect.Ptr:
		if v.IsNil() {
			return nil
		}
		return verifDump(v.Elem(), depth+1)
	case reflect.Slice:
		if v.IsNil() {
			return nil
		}
		l := []interface{}{}
		for i := 0; i < v.Len() && i < 64; i++ {
			l = append(l, verifDump(v.Index(i), depth+1))
		}
		return map[string]interface{}{"$p": uint64(v.Pointer()), "$e": l}
	case reflect.Array:
		l := []interface{}{}
		for i := 0; i < v.Len(); i++ {
			l = append(l, verifDump(v.Index(i), depth+1))
		}
		return l
	case reflect.Interface:
		if v.IsNil() {
			return nil
		}
		e := v.Elem()
		name := ""
		if e.Kind() == reflect.Ptr {
			name = e.Type().Elem().Name()
		}
		return map[string]interface{}{"$stub": true, "$dynptr": name, "$v": verifDump(e, depth+1)}
	}
	return map[string]interface{}{"$opaque": v.Kind().String(), "$nil": (v.Kind() == reflect.Map || v.Kind() == reflect.Func || v.Kind() == reflect.Chan) && v.IsNil()}
}

func verifRecord(method string, args ...interface{}) {
	var l []interface{}
	for _, a := range args {
		l = append(l, verifDump(reflect.ValueOf(&a).Elem().Elem(), 0))
	}
	verifCalls = append(verifCalls, map[string]interface{}{"m": method, "args": l})
}
`

type stubSpec struct {
	name  string
	iface *types.Named
}

// collectIfaces finds named interface types reachable from the parameter types.
func collectIfaces(t types.Type, out map[string]*types.Named, seen map[types.Type]bool) {
	if seen[t] {
		return
	}
	seen[t] = true
	switch u := t.(type) {
	case *types.Named:
		if _, ok := u.Underlying().(*types.Interface); ok {
			if u.Obj().Pkg() != nil {
				out[u.Obj().Pkg().Path()+"."+u.Obj().Name()] = u
			}
			return
		}
		collectIfaces(u.Underlying(), out, seen)
	case *types.Pointer:
		collectIfaces(u.Elem(), out, seen)
	case *types.Slice:
		collectIfaces(u.Elem(), out, seen)
	case *types.Array:
		collectIfaces(u.Elem(), out, seen)
	case *types.Struct:
		for i := 0; i < u.NumFields(); i++ {
			collectIfaces(u.Field(i).Type(), out, seen)
		}
	}
}

func genHarness(fn *ssa.Function, inputs []interface{}) (string, error) {
	pkg := fn.Pkg.Pkg
	imports := map[string]string{} // path -> name
	qual := func(p *types.Package) string {
		if p == pkg {
			return ""
		}
		imports[p.Path()] = p.Name()
		return p.Name()
	}
	var sb strings.Builder
	ifaces := map[string]*types.Named{}
	for _, p := range fn.Params {
		collectIfaces(p.Type(), ifaces, map[types.Type]bool{})
	}
	var body strings.Builder
	// stubs
	var inames []string
	for k := range ifaces {
		inames = append(inames, k)
	}
	sort.Strings(inames)
	var stubCases strings.Builder
	for i, k := range inames {
		it := ifaces[k]
		sn := fmt.Sprintf("verifStub%d", i)
		fmt.Fprintf(&body, "type %s struct{}\n", sn)
		ms := types.NewMethodSet(it)
		for j := 0; j < ms.Len(); j++ {
			m := ms.At(j).Obj().(*types.Func)
			if !m.Exported() && m.Pkg() != pkg {
				return "", fmt.Errorf("interface %s has unexported methods of another package", k)
			}
			sig := m.Type().(*types.Signature)
			var ps, as []string
			for a := 0; a < sig.Params().Len(); a++ {
				pt := types.TypeString(sig.Params().At(a).Type(), qual)
				if sig.Variadic() && a == sig.Params().Len()-1 {
					pt = "..." + strings.TrimPrefix(pt, "[]")
				}
				ps = append(ps, fmt.Sprintf("a%d %s", a, pt))
				as = append(as, fmt.Sprintf("a%d", a))
			}
			var rs []string
			for r := 0; r < sig.Results().Len(); r++ {
				rs = append(rs, fmt.Sprintf("r%d %s", r, types.TypeString(sig.Results().At(r).Type(), qual)))
			}
			fmt.Fprintf(&body, "func (*%s) %s(%s) (%s) { verifRecord(%q%s); return }\n", sn, m.Name(), strings.Join(ps, ", "), strings.Join(rs, ", "), m.Name(), prefixComma(as))
		}
		fmt.Fprintf(&stubCases, "\tif t == reflect.TypeOf((*%s)(nil)).Elem() { return reflect.ValueOf(&%s{}) }\n", types.TypeString(it, qual), sn)
	}
	fmt.Fprintf(&body, "func verifStubFor(t reflect.Type) reflect.Value {\n%s\treturn reflect.Value{}\n}\n", stubCases.String())
	// test
	in, _ := json.Marshal(inputs)
	fmt.Fprintf(&body, "\nconst verifInputs = %q\n\n", string(in))
	body.WriteString("func TestVerifReplay(t *testing.T) {\n")
	body.WriteString("\tvar ins []interface{}\n\tdec := json.NewDecoder(strings.NewReader(verifInputs))\n\tdec.UseNumber()\n\tif err := dec.Decode(&ins); err != nil { t.Fatal(err) }\n")
	var argNames []string
	for i, p := range fn.Params {
		fmt.Fprintf(&body, "\tvar p%d %s\n\tverifLoad(reflect.ValueOf(&p%d).Elem(), ins[%d])\n", i, types.TypeString(p.Type(), qual), i, i)
		argNames = append(argNames, fmt.Sprintf("p%d", i))
	}
	body.WriteString("\tout := map[string]interface{}{}\n\tvar pre []interface{}\n")
	for i := range fn.Params {
		fmt.Fprintf(&body, "\tpre = append(pre, verifDump(reflect.ValueOf(&p%d).Elem(), 0))\n", i)
	}
	body.WriteString("\tout[\"pre\"] = pre\n")
	body.WriteString("\tfunc() {\n\t\tdefer func() {\n\t\t\tif r := recover(); r != nil { out[\"panic\"] = fmt.Sprint(r) }\n\t\t}()\n")
	call := ""
	args := argNames
	if fn.Signature.Recv() != nil {
		call = "p0." + fn.Name()
		args = argNames[1:]
	} else {
		call = fn.Name()
	}
	if fn.Signature.Variadic() && len(args) > 0 {
		args[len(args)-1] += "..."
	}
	nres := fn.Signature.Results().Len()
	var rn []string
	for i := 0; i < nres; i++ {
		rn = append(rn, fmt.Sprintf("r%d", i))
	}
	if nres > 0 {
		fmt.Fprintf(&body, "\t\t%s := %s(%s)\n", strings.Join(rn, ", "), call, strings.Join(args, ", "))
		body.WriteString("\t\tvar res []interface{}\n")
		for i := 0; i < nres; i++ {
			fmt.Fprintf(&body, "\t\tres = append(res, verifDump(reflect.ValueOf(&r%d).Elem(), 0))\n", i)
		}
		body.WriteString("\t\tout[\"results\"] = res\n")
	} else {
		fmt.Fprintf(&body, "\t\t%s(%s)\n", call, strings.Join(args, ", "))
	}
	body.WriteString("\t}()\n\tvar post []interface{}\n")
	for i := range fn.Params {
		fmt.Fprintf(&body, "\tpost = append(post, verifDump(reflect.ValueOf(&p%d).Elem(), 0))\n", i)
	}
	body.WriteString("\tout[\"post\"] = post\n\tout[\"calls\"] = verifCalls\n\tb, _ := json.Marshal(out)\n\tfmt.Println(\"VERIF-OUT \" + string(b))\n}\n")

	fmt.Fprintf(&sb, "package %s\n\nimport (\n\t\"encoding/json\"\n\t\"fmt\"\n\t\"reflect\"\n\t\"strconv\"\n\t\"strings\"\n\t\"testing\"\n\t\"unsafe\"\n", pkg.Name())
	var ips []string
	for p := range imports {
		ips = append(ips, p)
	}
	sort.Strings(ips)
	for _, p := range ips {
		fmt.Fprintf(&sb, "\t%s %q\n", imports[p], p)
	}
	sb.WriteString(")\n\nvar _ = strconv.Itoa\nvar _ = unsafe.Pointer(nil)\nvar _ = strings.NewReader\n")
	sb.WriteString(harnessRuntime)
	sb.WriteString(body.String())
	return sb.String(), nil
}

func prefixComma(as []string) string {
	if len(as) == 0 {
		return ""
	}
	return ", " + strings.Join(as, ", ")
}

// runOverlayTest runs an in-package test file against the repository without writing into it.
func goEnv(k string) string {
	cmd := exec.Command("go", "env", k)
	cmd.Env = append(os.Environ(), "GOTOOLCHAIN=local")
	out, _ := cmd.Output()
	return string(out)
}

func runOverlayTest(repo, pkgDir, src string, timeout time.Duration, extraEnv []string) (string, error) {
	tmp, err := os.MkdirTemp("", "govc-replay-")
	if err != nil {
		return "", err
	}
	defer os.RemoveAll(tmp)
	tf := filepath.Join(tmp, "zz_verif_replay_test.go")
	if err := os.WriteFile(tf, []byte(src), 0o644); err != nil {
		return "", err
	}
	ov := map[string]interface{}{"Replace": map[string]string{filepath.Join(pkgDir, "zz_verif_replay_test.go"): tf}}
	ovb, _ := json.Marshal(ov)
	ovf := filepath.Join(tmp, "overlay.json")
	os.WriteFile(ovf, ovb, 0o644)
	ctx, cancel := context.WithTimeout(context.Background(), timeout+30*time.Second)
	defer cancel()
	argv := []string{"test", "-overlay", ovf, "-vet=off", "-count=1", "-timeout", fmt.Sprintf("%ds", int(timeout.Seconds())), "-run", "^TestVerifReplay$", "-v", "."}
	if strings.Contains(src, "//verif:race") {
		argv = append([]string{"test", "-race"}, argv[1:]...)
	}
	if strings.Contains(src, "//verif:wasm") {
		// run the js/wasm test binary under node with the toolchain's own wrapper
		root := strings.TrimSpace(goEnv("GOROOT"))
		wrapper := filepath.Join(root, "lib", "wasm", "go_js_wasm_exec")
		if _, err := os.Stat(wrapper); err != nil {
			wrapper = filepath.Join(root, "misc", "wasm", "go_js_wasm_exec")
		}
		argv = append([]string{"test", "-exec", wrapper}, argv[1:]...)
	}
	cmd := exec.CommandContext(ctx, "go", argv...)
	cmd.Dir = pkgDir
	cmd.Env = append(os.Environ(), "GOFLAGS=-mod=mod", "GOPROXY=off", "GOSUMDB=off", "GOTOOLCHAIN=local")
	cmd.Env = append(cmd.Env, extraEnv...)
	var out bytes.Buffer
	cmd.Stdout = &out
	cmd.Stderr = &out
	err = cmd.Run()
	return out.String(), err
}

// ---- concrete evaluation of the clause on the replay outputs ----

func (c *Ctx) jsonToValue(st *State, t types.Type, j interface{}) Value {
	switch u := under(t).(type) {
	case *types.Basic:
		switch {
		case isBool(t):
			b, _ := j.(bool)
			return BoolT(b)
		case isString(t):
			l, _ := j.([]interface{})
			bs := make([]byte, len(l))
			for i, e := range l {
				bs[i] = byte(jsonInt(e).Int64())
			}
			return conc(string(bs))
		case isInteger(t):
			return NumC(jsonInt(j), c.sortOfBasic(t))
		case isFloat(t):
			f, _ := j.(float64)
			if n, ok := j.(json.Number); ok {
				f, _ = n.Float64()
			}
			r := new(big.Rat)
			r.SetFloat64(f)
			if c.FP {
				return TS.intern(&Term{Op: "fplit", Sort: FPSort, Name: ratSMT(r)})
			}
			return RealC(r)
		}
	case *types.Struct:
		m, _ := j.(map[string]interface{})
		sv := &StructV{Typ: t}
		for i := 0; i < u.NumFields(); i++ {
			sv.F = append(sv.F, c.jsonToValue(st, u.Field(i).Type(), m[u.Field(i).Name()]))
		}
		return sv
	case *types.Array:
		l, _ := j.([]interface{})
		av := &ArrayV{Elem: u.Elem()}
		for i := 0; i < int(u.Len()); i++ {
			var e interface{}
			if i < len(l) {
				e = l[i]
			}
			av.Elems = append(av.Elems, c.jsonToValue(st, u.Elem(), e))
		}
		return av
	case *types.Pointer:
		if j == nil {
			return PtrV{Nil: true}
		}
		o := c.newObject("replay", u.Elem())
		st.Mem[o] = c.jsonToValue(st, u.Elem(), j)
		return PtrV{Obj: o}
	case *types.Slice:
		if j == nil {
			return SliceV{Elem: u.Elem()}
		}
		var ptr uint64
		l, isList := j.([]interface{})
		if m, ok := j.(map[string]interface{}); ok && !isList {
			l, _ = m["$e"].([]interface{})
			ptr = jsonInt(m["$p"]).Uint64()
		}
		av := &ArrayV{Elem: u.Elem()}
		for _, e := range l {
			av.Elems = append(av.Elems, c.jsonToValue(st, u.Elem(), e))
		}
		var o *Object
		if ptr != 0 && c.replayPtrs != nil {
			o = c.replayPtrs[ptr]
		}
		if o == nil {
			o = c.newObject("replay.slice", types.NewArray(u.Elem(), int64(len(l))))
			if ptr != 0 && c.replayPtrs != nil {
				c.replayPtrs[ptr] = o
			}
			if c.replayPost {
				c.replayFresh[o] = true
			}
		}
		st.Mem[o] = av
		return SliceV{Elem: u.Elem(), Obj: o, CLen: len(l), CCap: len(l)}
	case *types.Interface:
		if j == nil {
			return IfaceV{Nil: true, Iface: t}
		}
		if m, ok := j.(map[string]interface{}); ok {
			if dn, _ := m["$dynptr"].(string); dn != "" && c.Fn != nil && c.Fn.Pkg != nil {
				if obj := c.Fn.Pkg.Pkg.Scope().Lookup(dn); obj != nil {
					if _, isTN := obj.(*types.TypeName); isTN {
						pt := types.NewPointer(obj.Type())
						return IfaceV{Dyn: pt, Val: c.jsonToValue(st, pt, m["$v"]), Iface: t}
					}
				}
			}
		}
		return IfaceV{Sym: IntC(1), Iface: t}
	case *types.Map:
		o := c.newObject("replay.map", t)
		st.Mem[o] = &MapObj{Abstract: true, Tag: c.freshName("replay.map")}
		return MapV{Obj: o, Typ: u}
	case *types.Signature:
		return FuncV{Sym: IntC(1)}
	case *types.Chan:
		return ChanV{Sym: IntC(1)}
	}
	panic(VerErr{"replay: cannot rebuild value of type " + t.String()})
}

func jsonInt(j interface{}) *big.Int {
	switch n := j.(type) {
	case json.Number:
		if bi, ok := new(big.Int).SetString(string(n), 10); ok {
			return bi
		}
		f, _ := n.Float64()
		return big.NewInt(int64(f))
	case float64:
		return big.NewInt(int64(n))
	case bool:
		if n {
			return big.NewInt(1)
		}
	}
	return big.NewInt(0)
}

// overwrite copies post-state values into the objects reachable from the pre-state value (same shape).
func (c *Ctx) overwritePost(st *State, t types.Type, pre Value, j interface{}) Value {
	switch u := under(t).(type) {
	case *types.Pointer:
		pv, ok := pre.(PtrV)
		if !ok || pv.Nil || pv.Obj == nil || j == nil {
			return c.jsonToValue(st, t, j)
		}
		st.Mem[pv.Obj] = c.overwritePost(st, u.Elem(), st.Mem[pv.Obj], j)
		return pv
	case *types.Struct:
		sv, ok := pre.(*StructV)
		m, ok2 := j.(map[string]interface{})
		if !ok || !ok2 {
			return c.jsonToValue(st, t, j)
		}
		n := &StructV{Typ: t}
		for i := 0; i < u.NumFields(); i++ {
			n.F = append(n.F, c.overwritePost(st, u.Field(i).Type(), sv.F[i], m[u.Field(i).Name()]))
		}
		return n
	case *types.Interface:
		// identity of an interface value cannot change by reading; keep the pre value when nil-ness agrees
		if iv, ok := pre.(IfaceV); ok && (j == nil) == iv.Nil {
			return pre
		}
	}
	return c.jsonToValue(st, t, j)
}

type ReplayOutcome struct {
	Inputs    []interface{}
	Ran       bool
	Confirmed bool
	Detail    string
	Output    string
}

// replayFunction re-runs fn on the model's inputs and evaluates the failed clause(s).
func replayFunction(run *PropRun, g *ObGroup) ReplayOutcome {
	var c *Ctx
	for _, o := range g.Instances {
		if o.Ctx != nil {
			c = o.Ctx
		}
	}
	if c == nil || c.Fn == nil || c.Spec == nil || len(c.ParamVals) != len(c.Fn.Params) {
		return ReplayOutcome{Detail: "no replay harness for this kind of obligation"}
	}
	fn := c.Fn
	me := &modelEval{m: g.Model, p: &printer{named: map[int]string{}}}
	var inputs []interface{}
	for i, p := range fn.Params {
		j, ok := c.valueToJSON(me, c.ParamVals[i], p.Type(), 0)
		if !ok {
			return ReplayOutcome{Detail: fmt.Sprintf("model input %s cannot be materialised (size above the replay bound, or an unsupported type) %v", p.Name(), c.Notes)}
		}
		inputs = append(inputs, j)
	}
	src, err := genHarness(fn, inputs)
	if err != nil {
		return ReplayOutcome{Detail: "harness generation: " + err.Error()}
	}
	var xenv []string
	if run.Def.WasmLoad {
		// js/wasm: run under node, with do-nothing stand-ins for the functions webfiles/tcell.js would provide
		xenv = []string{"GOOS=js", "GOARCH=wasm"}
		src = "//verif:wasm\n" + src
		if !strings.Contains(src, "\"syscall/js\"") {
			src = strings.Replace(src, "import (\n", "import (\n\t\"syscall/js\"\n", 1)
		}
		src = strings.Replace(src, "func TestVerifReplay(t *testing.T) {\n", "func TestVerifReplay(t *testing.T) {\n\tfor _, n := range []string{\"drawCell\", \"clearScreen\", \"show\", \"showCursor\", \"resize\", \"beep\", \"setTitle\", \"setCursorStyle\"} {\n\t\tjs.Global().Set(n, js.FuncOf(func(this js.Value, args []js.Value) interface{} { return nil }))\n\t}\n", 1)
	}
	pkgDir := ""
	if p := run.Eng.PkgBy[fn.Pkg.Pkg.Path()]; p != nil && len(p.GoFiles) > 0 {
		pkgDir = filepath.Dir(p.GoFiles[0])
	}
	if pkgDir == "" {
		return ReplayOutcome{Detail: "package directory not found"}
	}
	out, rerr := runOverlayTest(run.Eng.Repo, pkgDir, src, 60*time.Second, xenv)
	ro := ReplayOutcome{Ran: true, Output: tail(out, 4000), Inputs: inputs}
	idx := strings.Index(out, "VERIF-OUT ")
	if idx < 0 {
		ro.Detail = fmt.Sprintf("replay produced no output (go test error: %v)", rerr)
		if strings.Contains(out, "panic:") || strings.Contains(out, "fatal error:") {
			ro.Confirmed = strings.HasPrefix(g.Kind, "safety")
			ro.Detail = "the real code crashed: " + firstLine(out[strings.Index(out, "panic:")+0:])
		}
		return ro
	}
	line := out[idx+len("VERIF-OUT "):]
	if nl := strings.Index(line, "\n"); nl >= 0 {
		line = line[:nl]
	}
	var res map[string]interface{}
	dec := json.NewDecoder(strings.NewReader(line))
	dec.UseNumber()
	if err := dec.Decode(&res); err != nil {
		ro.Detail = "cannot parse replay output: " + err.Error()
		return ro
	}
	inb, _ := json.Marshal(inputs)
	var ins []interface{}
	d2 := json.NewDecoder(bytes.NewReader(inb))
	d2.UseNumber()
	d2.Decode(&ins)
	if p, ok := res["panic"]; ok {
		ro.Detail = fmt.Sprintf("real code panicked: %v", p)
		ro.Confirmed = true // every contract here promises normal termination under its precondition
		return ro
	}
	if strings.HasPrefix(g.Kind, "safety") {
		ro.Detail = "real code did not panic on the model's input"
		return ro
	}
	ok, detail := evalClausesConcrete(run, c, g, ins, res)
	ro.Confirmed = ok
	ro.Detail = detail
	return ro
}

func tail(s string, n int) string {
	if len(s) > n {
		return s[len(s)-n:]
	}
	return s
}
func firstLine(s string) string {
	if i := strings.Index(s, "\n"); i >= 0 {
		return s[:i]
	}
	return s
}

// evalClausesConcrete rebuilds pre/post states from the replay and evaluates the failed clause.
func evalClausesConcrete(run *PropRun, c0 *Ctx, g *ObGroup, ins []interface{}, res map[string]interface{}) (confirmed bool, detail string) {
	defer func() {
		if r := recover(); r != nil {
			confirmed = false
			detail = fmt.Sprintf("clause evaluation on replay values failed: %v", r)
		}
	}()
	fn, sp := c0.Fn, c0.Spec
	c := NewCtx(run.Eng, fn, sp)
	c.initVals = map[*Object]Value{}
	c.globals = map[*ssa.Global]*Object{}
	c.InitSym = map[int]*Object{}
	c.alloc0 = IntC(1 << 40)
	st := c.scratchState()
	c.curState = st
	fr := &Frame{Fn: fn, Env: map[ssa.Value]Value{}, Block: fn.Blocks[0], Params: map[string]Value{}, Spec: sp}
	st.Frames = []*Frame{fr}
	c.replayPtrs = map[uint64]*Object{}
	c.replayFresh = map[*Object]bool{}
	if pj, ok := res["pre"].([]interface{}); ok && len(pj) == len(ins) {
		ins = pj
	}
	var pre []Value
	for i, p := range fn.Params {
		v := c.jsonToValue(st, p.Type(), ins[i])
		pre = append(pre, v)
		fr.Params[p.Name()] = v
		fr.Env[p] = v
	}
	fr.Old = st.snapshot()
	func() {
		defer func() { recover() }()
		c.specEnvFor(st, fr) // bind the contract's `let` names in the pre-state
	}()
	c.replayPost = true
	post, _ := res["post"].([]interface{})
	for i, p := range fn.Params {
		if i < len(post) {
			c.overwritePost(st, p.Type(), pre[i], post[i])
		}
	}
	// call log from stubs
	if calls, ok := res["calls"].([]interface{}); ok {
		for _, cj := range calls {
			m, _ := cj.(map[string]interface{})
			name, _ := m["m"].(string)
			args, _ := m["args"].([]interface{})
			rec := CallRec{Callee: name, Args: []Value{IfaceV{Sym: IntC(1)}}}
			// find the method signature among interfaces reachable from params
			ifs := map[string]*types.Named{}
			for _, p := range fn.Params {
				collectIfaces(p.Type(), ifs, map[types.Type]bool{})
			}
			for _, it := range ifs {
				ms := types.NewMethodSet(it)
				if sel := ms.Lookup(it.Obj().Pkg(), name); sel != nil {
					sig := sel.Obj().Type().(*types.Signature)
					for a := 0; a < sig.Params().Len() && a < len(args); a++ {
						rec.Args = append(rec.Args, c.jsonToValue(st, sig.Params().At(a).Type(), args[a]))
					}
					// the generated stubs return zero values
					switch sig.Results().Len() {
					case 0:
					case 1:
						rec.Ret = c.zeroValue(st, sig.Results().At(0).Type())
					default:
						rec.Ret = c.zeroValue(st, sig.Results())
					}
					break
				}
			}
			st.CallLog = append(st.CallLog, rec)
		}
	}
	// results
	var ret Value
	if rl, ok := res["results"].([]interface{}); ok {
		rs := fn.Signature.Results()
		if rs.Len() == 1 {
			ret = c.jsonToValue(st, rs.At(0).Type(), rl[0])
		} else if rs.Len() > 1 {
			tv := &TupleV{}
			for i := 0; i < rs.Len(); i++ {
				tv.V = append(tv.V, c.jsonToValue(st, rs.At(i).Type(), rl[i]))
			}
			ret = tv
		}
	}
	c.Obs = nil
	// evaluate the clauses one by one (a clause that cannot be evaluated on concrete values is skipped)
	env := c.specEnvFor(st, fr)
	env.result = ret
	env.hasResult = true
	rs := fn.Signature.Results()
	for i := 0; i < rs.Len(); i++ {
		if nme := rs.At(i).Name(); nme != "" && nme != "_" && ret != nil {
			if rs.Len() == 1 {
				env.vars[nme] = ret
			} else {
				env.vars[nme] = ret.(*TupleV).V[i]
			}
		}
	}
	base := fnDisplay(fn)
	skipped := map[string]string{}
	tryClause := func(name, kind string, f func()) {
		defer func() {
			if r := recover(); r != nil {
				if ve, ok := r.(VerErr); ok {
					skipped[name] = ve.Msg
					return
				}
				panic(r)
			}
		}()
		f()
	}
	for i, en := range sp.Ensures {
		lbl := en.Label
		if lbl == "" {
			lbl = fmt.Sprint(i + 1)
		}
		en := en
		name := fmt.Sprintf("%s/ensures#%s", base, lbl)
		if ghostChannelClause(en.Src) {
			skipped[name] = "the ghost channel log (select/send/recv records) is not observable in a replay"
			continue
		}
		tryClause(name, "ensures", func() {
			t := c.evalBool(env, en.Expr)
			c.oblige(st, name, "ensures", t, en.Src, fn.Pos())
		})
	}
	c.curRet = ret
	for i := range sp.Calls {
		i := i
		if ghostChannelClause(sp.Calls[i].Src) {
			lbl := sp.Calls[i].Label
			if lbl == "" {
				lbl = fmt.Sprint(i + 1)
			}
			skipped[fmt.Sprintf("%s/calls#%s", base, lbl)] = "the ghost channel log (select/send/recv records) is not observable in a replay"
			continue
		}
		tryClause("calls", "calls", func() {
			c.callsAtReturn = true
			c.checkCallClause(st, fr, sp.Calls[i], i)
		})
	}
	var failed []string
	want := g.Name
	for _, o := range c.Obs {
		if o.Canary {
			continue
		}
		relevant := o.Name == want || !(g.Kind == "ensures" || g.Kind == "calls" || g.Kind == "frame")
		if !relevant {
			continue
		}
		if o.Claim.IsTrue() {
			continue
		}
		if o.Claim.IsFalse() {
			failed = append(failed, o.Name)
			continue
		}
		script := Script(append(append([]*Term(nil), o.PC...), Not(o.Claim)), nil, "", TS.Defs)
		r := Solve(script, 10*time.Second, 0, "replay", false)
		if r.Status == "sat" {
			failed = append(failed, o.Name)
		}
	}
	if len(failed) > 0 {
		return true, "on the real code's outputs these clauses are false: " + strings.Join(failed, ", ")
	}
	if msg, ok := skipped[g.Name]; ok {
		return false, "the clause could not be evaluated on the real code's concrete outputs: " + msg
	}
	return false, "the real code's outputs satisfy the clause on the model's inputs (spurious model: a callee contract or assumed contract is weaker than the code)"
}

// replayCustom runs a hand-written Go test body (table obligations).
func replayCustom(run *PropRun, g *ObGroup) ReplayOutcome {
	pkgDir := g.ReplayDir
	if pkgDir == "" {
		pkgDir = run.Eng.Repo
	}
	if strings.HasPrefix(g.ReplayGo, "//verif:wasmbuild") {
		cmd := exec.Command("go", "build", "-o", os.DevNull, ".")
		cmd.Dir = pkgDir
		cmd.Env = append(os.Environ(), "GOFLAGS=-mod=mod", "GOPROXY=off", "GOSUMDB=off", "GOTOOLCHAIN=local", "GOOS=js", "GOARCH=wasm")
		ob, err := cmd.CombinedOutput()
		ro := ReplayOutcome{Ran: true, Output: tail(string(ob), 3000)}
		if err != nil {
			ro.Confirmed = true
			ro.Detail = "GOOS=js GOARCH=wasm go build fails on the real code: " + firstLine(strings.TrimPrefix(strings.TrimSpace(string(ob)), "# github.com/gdamore/tcell/v2\n"))
		} else {
			ro.Detail = "GOOS=js GOARCH=wasm go build succeeds"
		}
		return ro
	}
	var xenv []string
	if strings.Contains(g.ReplayGo, "//verif:wasm") {
		xenv = []string{"GOOS=js", "GOARCH=wasm"}
	}
	out, err := runOverlayTest(run.Eng.Repo, pkgDir, g.ReplayGo, 60*time.Second, xenv)
	ro := ReplayOutcome{Ran: true, Output: tail(out, 3000)}
	if strings.Contains(g.ReplayGo, "//verif:race") && strings.Contains(out, "WARNING: DATA RACE") {
		ro.Confirmed = true
		ro.Detail = "the race detector reports a data race on the real code: " + firstLine(out[strings.Index(out, "WARNING: DATA RACE"):]) + " " + raceSummary(out)
	} else if strings.Contains(out, "VERIF-REPLAY-FAIL") {
		ro.Confirmed = true
		ro.Detail = "replay on the real code reproduces the violation: " + firstLine(out[strings.Index(out, "VERIF-REPLAY-FAIL"):])
	} else if strings.Contains(out, "VERIF-REPLAY-PASS") {
		ro.Detail = "replay on the real code does not reproduce the violation"
	} else {
		ro.Detail = fmt.Sprintf("replay did not run to completion (%v)", err)
	}
	return ro
}

func replayConfirms(run *PropRun, g *ObGroup, path string) bool {
	var ro ReplayOutcome
	if g.Status != "failed" && !(g.Candidate && g.Model != nil && g.ReplayGo == "" && g.ReplayGen == nil) {
		ro = ReplayOutcome{Detail: "no model: the obligation is undischarged, not refuted"}
	} else if g.ReplayGo != "" || g.ReplayGen != nil {
		if g.ReplayGen != nil {
			g.ReplayGo = g.ReplayGen(g.Model)
		}
		ro = replayCustom(run, g)
	} else {
		ro = replayFunction(run, g)
	}
	// append the outcome to the replay file
	data, err := os.ReadFile(path)
	if err == nil {
		var m map[string]interface{}
		if json.Unmarshal(data, &m) == nil {
			m["replay"] = map[string]interface{}{"ran": ro.Ran, "confirmed_on_real_code": ro.Confirmed, "detail": ro.Detail, "output_tail": ro.Output, "inputs_built_from_model": ro.Inputs}
			if g.ReplayGo != "" {
				src := g.ReplayGo
				if len(src) > 30000 {
					src = src[:30000]
				}
				m["replay_test_source"] = src // run with: go test -overlay (file placed in the package directory) -run TestVerifReplay
			}
			if nd, err := json.MarshalIndent(m, "", " "); err == nil {
				os.WriteFile(path, nd, 0o644)
			}
		}
	}
	if g.Status != "failed" && g.Candidate {
		if ro.Confirmed {
			ro.Detail = "candidate input from the quantifier-weakened query confirmed: " + ro.Detail
		} else {
			ro.Detail = "undischarged; candidate input from the quantifier-weakened query not confirmed: " + ro.Detail
		}
	}
	fmt.Printf("  replay: %s\n", ro.Detail)
	return ro.Confirmed
}

func ghostChannelClause(src string) bool {
	for _, m := range []string{`"*sel`, `"*send`, `"*recv`, `"send:`, `"recv:`, `"close:`, `"*close`} {
		if strings.Contains(src, m) {
			return true
		}
	}
	return false
}

// replayConfirmsUnknown: demonstration for an obligation that is undischarged (not refuted by a solver).
func replayConfirmsUnknown(run *PropRun, g *ObGroup, path string) bool {
	saved := g.Status
	if g.ReplayGo != "" || g.ReplayGen != nil {
		g.Status = "failed" // run the hand-written demonstration
	}
	ok := replayConfirms(run, g, path)
	g.Status = saved
	return ok
}

func cmdReplay(args []string) int {
	if len(args) < 1 {
		fmt.Println("usage: govc replay <replay.json>")
		return 2
	}
	data, err := os.ReadFile(args[0])
	if err != nil {
		fmt.Println(err)
		return 2
	}
	var m map[string]interface{}
	if err := json.Unmarshal(data, &m); err != nil {
		fmt.Println(err)
		return 2
	}
	id, _ := m["property"].(string)
	ob, _ := m["obligation"].(string)
	fmt.Printf("replaying %s of %s: re-running the property check and looking for the same obligation\n", ob, id)
	os.Args = []string{"govc", "check", id, "quick"}
	rc := cmdCheck([]string{id, "quick"})
	return rc
}

func raceSummary(out string) string {
	var fns []string
	for _, ln := range strings.Split(out, "\n") {
		t := strings.TrimSpace(ln)
		if strings.HasPrefix(t, "github.com/gdamore/tcell/v2.") && strings.Contains(t, "tScreen") && len(fns) < 4 {
			fns = append(fns, strings.TrimPrefix(t, "github.com/gdamore/tcell/v2."))
		}
	}
	return strings.Join(fns, " / ")
}
