package main

// Term DAG with hash-consing, eager constant folding and an SMT-LIB2 printer.

import (
	"fmt"
	"math/big"
	"sort"
	"strings"
)

type SortKind int

const (
	SBool SortKind = iota
	SInt
	SBV
	SReal
	SFP // float64
	SArray
)

type Sort struct {
	Kind SortKind
	Bits int
	Idx  *Sort
	Elem *Sort
}

var (
	BoolSort = &Sort{Kind: SBool}
	IntSort  = &Sort{Kind: SInt}
	RealSort = &Sort{Kind: SReal}
	FPSort   = &Sort{Kind: SFP}
	bvSorts  = map[int]*Sort{}
	arrSorts = map[string]*Sort{}
)

func BVSort(n int) *Sort {
	if s, ok := bvSorts[n]; ok {
		return s
	}
	s := &Sort{Kind: SBV, Bits: n}
	bvSorts[n] = s
	return s
}

func ArraySort(idx, elem *Sort) *Sort {
	k := idx.String() + "->" + elem.String()
	if s, ok := arrSorts[k]; ok {
		return s
	}
	s := &Sort{Kind: SArray, Idx: idx, Elem: elem}
	arrSorts[k] = s
	return s
}

func (s *Sort) String() string {
	switch s.Kind {
	case SBool:
		return "Bool"
	case SInt:
		return "Int"
	case SReal:
		return "Real"
	case SFP:
		return "(_ FloatingPoint 11 53)"
	case SBV:
		return fmt.Sprintf("(_ BitVec %d)", s.Bits)
	case SArray:
		return fmt.Sprintf("(Array %s %s)", s.Idx, s.Elem)
	}
	return "?"
}

type Term struct {
	Op    string // "const", "var", "bvar", "app" (UF), or builtin op name
	Sort  *Sort
	Args  []*Term
	Name  string   // var / UF / bound var name
	Val   *big.Int // integer or bv constant (unsigned normalised for bv)
	RVal  *big.Rat // real constant
	BVal  bool     // bool constant
	Bound []*Term  // quantifier bound vars
	Pats  [][]*Term
	id    int
	open  bool // mentions a bound variable
	size  int
}

// TermStore hash-conses terms.
type TermStore struct {
	tab    map[string]*Term
	nextID int
	fresh  int
	// declarations
	Vars map[string]*Sort
	UFs  map[string]*UFDecl
	// recursive function definitions (define-fun-rec) printed verbatim
	Defs []string
}

type UFDecl struct {
	Name string
	Args []*Sort
	Res  *Sort
}

var TS = NewTermStore()

// fpAbstract: float arithmetic and int->float conversion as uninterpreted functions (mode `float fpuf`).
var fpAbstract bool

func I2FP(x *Term) *Term {
	if fpAbstract {
		return App("f.fromint."+x.Sort.String(), FPSort, x)
	}
	if x.Sort.Kind == SBV {
		return mk("sbv2fp", FPSort, x)
	}
	return mk("i2fp", FPSort, x)
}

func NewTermStore() *TermStore {
	return &TermStore{tab: map[string]*Term{}, Vars: map[string]*Sort{}, UFs: map[string]*UFDecl{}}
}

func (ts *TermStore) intern(t *Term) *Term {
	var sb strings.Builder
	sb.WriteString(t.Op)
	sb.WriteByte('|')
	sb.WriteString(t.Sort.String())
	sb.WriteByte('|')
	sb.WriteString(t.Name)
	if t.Val != nil {
		sb.WriteByte('#')
		sb.WriteString(t.Val.String())
	}
	if t.RVal != nil {
		sb.WriteByte('#')
		sb.WriteString(t.RVal.String())
	}
	if t.Op == "const" && t.Sort.Kind == SBool {
		if t.BVal {
			sb.WriteString("#t")
		} else {
			sb.WriteString("#f")
		}
	}
	for _, a := range t.Args {
		fmt.Fprintf(&sb, ",%d", a.id)
	}
	for _, b := range t.Bound {
		fmt.Fprintf(&sb, ";%d", b.id)
	}
	for _, p := range t.Pats {
		sb.WriteString("!")
		for _, a := range p {
			fmt.Fprintf(&sb, ",%d", a.id)
		}
	}
	k := sb.String()
	if o, ok := ts.tab[k]; ok {
		return o
	}
	ts.nextID++
	t.id = ts.nextID
	t.size = 1
	for _, a := range t.Args {
		if a.open {
			t.open = true
		}
		t.size += a.size
		if t.size > 1<<30 {
			t.size = 1 << 30
		}
	}
	if t.Op == "bvar" {
		t.open = true
	}
	if t.Op == "forall" || t.Op == "exists" {
		// still conservatively open if body mentions other bound vars; recompute
		t.open = false
		bound := map[int]bool{}
		for _, b := range t.Bound {
			bound[b.id] = true
		}
		if mentionsOtherBound(t.Args[0], bound, map[int]bool{}) {
			t.open = true
		}
	}
	ts.tab[k] = t
	return t
}

func mentionsOtherBound(t *Term, bound map[int]bool, seen map[int]bool) bool {
	if !t.open || seen[t.id] {
		return false
	}
	seen[t.id] = true
	if t.Op == "bvar" {
		return !bound[t.id]
	}
	if t.Op == "forall" || t.Op == "exists" {
		nb := map[int]bool{}
		for k := range bound {
			nb[k] = true
		}
		for _, b := range t.Bound {
			nb[b.id] = true
		}
		return mentionsOtherBound(t.Args[0], nb, map[int]bool{})
	}
	for _, a := range t.Args {
		if mentionsOtherBound(a, bound, seen) {
			return true
		}
	}
	return false
}

// ---- constructors ----

func True() *Term  { return TS.intern(&Term{Op: "const", Sort: BoolSort, BVal: true}) }
func False() *Term { return TS.intern(&Term{Op: "const", Sort: BoolSort, BVal: false}) }
func BoolT(b bool) *Term {
	if b {
		return True()
	}
	return False()
}
func (t *Term) IsTrue() bool  { return t.Op == "const" && t.Sort.Kind == SBool && t.BVal }
func (t *Term) IsFalse() bool { return t.Op == "const" && t.Sort.Kind == SBool && !t.BVal }
func (t *Term) IsConst() bool { return t.Op == "const" }

func IntC(v int64) *Term { return IntBig(big.NewInt(v)) }
func IntBig(v *big.Int) *Term {
	return TS.intern(&Term{Op: "const", Sort: IntSort, Val: new(big.Int).Set(v)})
}
func RealC(r *big.Rat) *Term {
	return TS.intern(&Term{Op: "const", Sort: RealSort, RVal: new(big.Rat).Set(r)})
}
func BVC(v *big.Int, bits int) *Term {
	m := new(big.Int).Lsh(big.NewInt(1), uint(bits))
	x := new(big.Int).Mod(v, m)
	return TS.intern(&Term{Op: "const", Sort: BVSort(bits), Val: x})
}

// NumC makes a numeric constant of the given sort.
func NumC(v *big.Int, s *Sort) *Term {
	switch s.Kind {
	case SInt:
		return IntBig(v)
	case SBV:
		return BVC(v, s.Bits)
	case SReal:
		return RealC(new(big.Rat).SetInt(v))
	}
	panic("NumC: bad sort " + s.String())
}

func Var(name string, s *Sort) *Term {
	if o, ok := TS.Vars[name]; ok && o != s {
		panic("Var redeclared with different sort: " + name)
	}
	TS.Vars[name] = s
	return TS.intern(&Term{Op: "var", Sort: s, Name: name})
}

func Fresh(prefix string, s *Sort) *Term {
	TS.fresh++
	return Var(fmt.Sprintf("%s!%d", sanitize(prefix), TS.fresh), s)
}

func BoundVar(name string, s *Sort) *Term {
	TS.fresh++
	return TS.intern(&Term{Op: "bvar", Sort: s, Name: fmt.Sprintf("%s?%d", sanitize(name), TS.fresh)})
}

// CanonBound returns the same bound variable for the same (name, sort): quantified formulas built from
// identical bodies are then identical terms (used for string / sequence equality).
func CanonBound(name string, s *Sort) *Term {
	return TS.intern(&Term{Op: "bvar", Sort: s, Name: name + "?c" + fmt.Sprint(s.Kind) + fmt.Sprint(s.Bits)})
}

func sanitize(s string) string {
	var sb strings.Builder
	for _, r := range s {
		if r >= 'a' && r <= 'z' || r >= 'A' && r <= 'Z' || r >= '0' && r <= '9' || r == '_' || r == '.' {
			sb.WriteRune(r)
		} else {
			sb.WriteByte('_')
		}
	}
	return sb.String()
}

func App(name string, res *Sort, args ...*Term) *Term {
	d, ok := TS.UFs[name]
	if !ok {
		d = &UFDecl{Name: name, Res: res}
		for _, a := range args {
			d.Args = append(d.Args, a.Sort)
		}
		TS.UFs[name] = d
	} else {
		if len(d.Args) != len(args) || d.Res != res {
			panic("UF arity/sort mismatch: " + name)
		}
		for i, a := range args {
			if d.Args[i] != a.Sort {
				panic(fmt.Sprintf("UF %s arg %d sort mismatch: %s vs %s", name, i, d.Args[i], a.Sort))
			}
		}
	}
	return TS.intern(&Term{Op: "app", Sort: res, Name: name, Args: args})
}

func mk(op string, s *Sort, args ...*Term) *Term {
	return TS.intern(&Term{Op: op, Sort: s, Args: args})
}

func Not(a *Term) *Term {
	if a.IsTrue() {
		return False()
	}
	if a.IsFalse() {
		return True()
	}
	if a.Op == "not" {
		return a.Args[0]
	}
	return mk("not", BoolSort, a)
}

func And(as ...*Term) *Term {
	var out []*Term
	seen := map[int]bool{}
	for _, a := range as {
		if a.IsFalse() {
			return False()
		}
		if a.IsTrue() || seen[a.id] {
			continue
		}
		if a.Op == "and" {
			for _, b := range a.Args {
				if !seen[b.id] {
					seen[b.id] = true
					out = append(out, b)
				}
			}
			continue
		}
		seen[a.id] = true
		out = append(out, a)
	}
	for _, a := range out {
		if a.Op == "not" && seen[a.Args[0].id] {
			return False()
		}
	}
	if len(out) == 0 {
		return True()
	}
	if len(out) == 1 {
		return out[0]
	}
	return mk("and", BoolSort, out...)
}

func Or(as ...*Term) *Term {
	var out []*Term
	seen := map[int]bool{}
	for _, a := range as {
		if a.IsTrue() {
			return True()
		}
		if a.IsFalse() || seen[a.id] {
			continue
		}
		if a.Op == "or" {
			for _, b := range a.Args {
				if !seen[b.id] {
					seen[b.id] = true
					out = append(out, b)
				}
			}
			continue
		}
		seen[a.id] = true
		out = append(out, a)
	}
	for _, a := range out {
		if a.Op == "not" && seen[a.Args[0].id] {
			return True()
		}
	}
	if len(out) == 0 {
		return False()
	}
	if len(out) == 1 {
		return out[0]
	}
	return mk("or", BoolSort, out...)
}

func Implies(a, b *Term) *Term {
	if a.IsTrue() {
		return b
	}
	if a.IsFalse() || b.IsTrue() {
		return True()
	}
	if b.IsFalse() {
		return Not(a)
	}
	return mk("=>", BoolSort, a, b)
}

func Ite(c, a, b *Term) *Term {
	if c.IsTrue() {
		return a
	}
	if c.IsFalse() {
		return b
	}
	if a == b {
		return a
	}
	if a.Sort != b.Sort {
		panic(fmt.Sprintf("ite sort mismatch %s vs %s", a.Sort, b.Sort))
	}
	if a.Sort.Kind == SBool {
		if a.IsTrue() && b.IsFalse() {
			return c
		}
		if a.IsFalse() && b.IsTrue() {
			return Not(c)
		}
		if a.IsTrue() {
			return Or(c, b)
		}
		if b.IsFalse() {
			return And(c, a)
		}
		if a.IsFalse() {
			return And(Not(c), b)
		}
		if b.IsTrue() {
			return Or(Not(c), a)
		}
	}
	return mk("ite", a.Sort, c, a, b)
}

func Eq(a, b *Term) *Term {
	if a == b {
		return True()
	}
	if a.Sort != b.Sort {
		panic(fmt.Sprintf("eq sort mismatch %s vs %s (%s / %s)", a.Sort, b.Sort, a, b))
	}
	if a.IsConst() && b.IsConst() {
		switch a.Sort.Kind {
		case SBool:
			return BoolT(a.BVal == b.BVal)
		case SInt, SBV:
			return BoolT(a.Val.Cmp(b.Val) == 0)
		case SReal:
			return BoolT(a.RVal.Cmp(b.RVal) == 0)
		}
	}
	if a.Sort.Kind == SBool {
		if a.IsTrue() {
			return b
		}
		if b.IsTrue() {
			return a
		}
		if a.IsFalse() {
			return Not(b)
		}
		if b.IsFalse() {
			return Not(a)
		}
	}
	// ite(c, k1, k2) == k  with constants folds
	if b.IsConst() && a.Op == "ite" && a.Args[1].IsConst() && a.Args[2].IsConst() {
		return Ite(a.Args[0], Eq(a.Args[1], b), Eq(a.Args[2], b))
	}
	if a.IsConst() && b.Op == "ite" && b.Args[1].IsConst() && b.Args[2].IsConst() {
		return Ite(b.Args[0], Eq(b.Args[1], a), Eq(b.Args[2], a))
	}
	if a.id > b.id {
		a, b = b, a
	}
	if a.Sort.Kind == SFP {
		// Go == on floats is IEEE equality
		return mk("fp.eq", BoolSort, a, b)
	}
	return mk("=", BoolSort, a, b)
}

func Neq(a, b *Term) *Term { return Not(Eq(a, b)) }

func isNum(t *Term) bool { return t.Op == "const" && (t.Sort.Kind == SInt || t.Sort.Kind == SBV) }

func bvMask(bits int) *big.Int {
	m := new(big.Int).Lsh(big.NewInt(1), uint(bits))
	return m.Sub(m, big.NewInt(1))
}

// signed value of a bv constant
func bvSigned(v *big.Int, bits int) *big.Int {
	h := new(big.Int).Lsh(big.NewInt(1), uint(bits-1))
	if v.Cmp(h) >= 0 {
		return new(big.Int).Sub(v, new(big.Int).Lsh(big.NewInt(1), uint(bits)))
	}
	return new(big.Int).Set(v)
}

// Arith builds an arithmetic term. op in + - * (sorts Int, BV, Real).
func Arith(op string, a, b *Term) *Term {
	if a.Sort != b.Sort {
		panic(fmt.Sprintf("arith %s sort mismatch %s vs %s", op, a.Sort, b.Sort))
	}
	s := a.Sort
	if s.Kind == SReal {
		if a.IsConst() && b.IsConst() {
			r := new(big.Rat)
			switch op {
			case "+":
				r.Add(a.RVal, b.RVal)
			case "-":
				r.Sub(a.RVal, b.RVal)
			case "*":
				r.Mul(a.RVal, b.RVal)
			case "/":
				if b.RVal.Sign() == 0 {
					return mk("/", s, a, b)
				}
				r.Quo(a.RVal, b.RVal)
			}
			return RealC(r)
		}
		return mk(op, s, a, b)
	}
	if s.Kind == SFP {
		if fpAbstract {
			// float arithmetic as uninterpreted functions over the FP sort (comparisons stay exact)
			return App("f."+map[string]string{"+": "add", "-": "sub", "*": "mul", "/": "div"}[op], s, a, b)
		}
		return mk("fp."+map[string]string{"+": "add", "-": "sub", "*": "mul", "/": "div"}[op], s, a, b)
	}
	if isNum(a) && isNum(b) {
		r := new(big.Int)
		switch op {
		case "+":
			r.Add(a.Val, b.Val)
		case "-":
			r.Sub(a.Val, b.Val)
		case "*":
			r.Mul(a.Val, b.Val)
		}
		return NumC(r, s)
	}
	zero := func(t *Term) bool { return isNum(t) && t.Val.Sign() == 0 }
	one := func(t *Term) bool { return isNum(t) && t.Val.Cmp(big.NewInt(1)) == 0 }
	switch op {
	case "+":
		if zero(a) {
			return b
		}
		if zero(b) {
			return a
		}
		// a + (x - a) == x ; (x - a) + a == x
		if s.Kind == SInt && b.Op == "-" && len(b.Args) == 2 && b.Args[1] == a {
			return b.Args[0]
		}
		if s.Kind == SInt && a.Op == "-" && len(a.Args) == 2 && a.Args[1] == b {
			return a.Args[0]
		}
		// (x + c1) + c2
		if s.Kind == SInt && isNum(b) && a.Op == "+" && len(a.Args) == 2 && isNum(a.Args[1]) {
			return Arith("+", a.Args[0], IntBig(new(big.Int).Add(a.Args[1].Val, b.Val)))
		}
		if s.Kind == SInt && isNum(b) && a.Op == "-" && len(a.Args) == 2 && isNum(a.Args[1]) {
			return Arith("+", a.Args[0], IntBig(new(big.Int).Sub(b.Val, a.Args[1].Val)))
		}
		if s.Kind == SInt && isNum(b) && b.Val.Sign() < 0 {
			return mk("-", s, a, IntBig(new(big.Int).Neg(b.Val)))
		}
	case "-":
		if zero(b) {
			return a
		}
		if a == b {
			return NumC(big.NewInt(0), s)
		}
		if s.Kind == SInt && isNum(b) {
			return Arith("+", a, IntBig(new(big.Int).Neg(b.Val)))
		}
	case "*":
		if zero(a) || zero(b) {
			return NumC(big.NewInt(0), s)
		}
		if one(a) {
			return b
		}
		if one(b) {
			return a
		}
	}
	if s.Kind == SBV {
		return mk(map[string]string{"+": "bvadd", "-": "bvsub", "*": "bvmul"}[op], s, a, b)
	}
	return mk(op, s, a, b)
}

func Neg(a *Term) *Term {
	switch a.Sort.Kind {
	case SInt:
		return Arith("-", IntC(0), a)
	case SBV:
		return Arith("-", BVC(big.NewInt(0), a.Sort.Bits), a)
	case SReal:
		return Arith("-", RealC(new(big.Rat)), a)
	case SFP:
		return mk("fp.neg", a.Sort, a)
	}
	panic("neg")
}

// Go truncated division / remainder on Int sort.
func IntQuo(a, b *Term) *Term {
	if isNum(a) && isNum(b) && b.Val.Sign() != 0 {
		return IntBig(new(big.Int).Quo(a.Val, b.Val))
	}
	if isNum(b) && b.Val.Sign() > 0 {
		return Ite(Cmp(">=", a, IntC(0), true), mk("div", IntSort, a, b), Neg(mk("div", IntSort, Neg(a), b)))
	}
	// general
	absdiv := mk("div", IntSort, Ite(Cmp(">=", a, IntC(0), true), a, Neg(a)), Ite(Cmp(">=", b, IntC(0), true), b, Neg(b)))
	same := Eq(Cmp(">=", a, IntC(0), true), Cmp(">=", b, IntC(0), true))
	return Ite(same, absdiv, Neg(absdiv))
}

func IntRem(a, b *Term) *Term {
	if isNum(a) && isNum(b) && b.Val.Sign() != 0 {
		return IntBig(new(big.Int).Rem(a.Val, b.Val))
	}
	if isNum(b) && b.Val.Sign() > 0 {
		return Ite(Cmp(">=", a, IntC(0), true), mk("mod", IntSort, a, b), Neg(mk("mod", IntSort, Neg(a), b)))
	}
	return Arith("-", a, Arith("*", b, IntQuo(a, b)))
}

// IntMod is the SMT (floor/Euclid) mod with positive constant modulus.
func IntMod(a *Term, m *big.Int) *Term {
	if isNum(a) {
		return IntBig(new(big.Int).Mod(a.Val, m))
	}
	return mk("mod", IntSort, a, IntBig(m))
}

func BVOp(op string, a, b *Term, signed bool) *Term {
	if a.Sort != b.Sort {
		panic(fmt.Sprintf("bvop %s sort mismatch %s vs %s", op, a.Sort, b.Sort))
	}
	bits := a.Sort.Bits
	if isNum(a) && isNum(b) {
		r := new(big.Int)
		switch op {
		case "and":
			return BVC(r.And(a.Val, b.Val), bits)
		case "or":
			return BVC(r.Or(a.Val, b.Val), bits)
		case "xor":
			return BVC(r.Xor(a.Val, b.Val), bits)
		case "andnot":
			return BVC(r.AndNot(a.Val, b.Val), bits)
		case "shl":
			if b.Val.Cmp(big.NewInt(int64(bits))) >= 0 {
				return BVC(big.NewInt(0), bits)
			}
			return BVC(r.Lsh(a.Val, uint(b.Val.Int64())), bits)
		case "shr":
			sh := uint(bits)
			if b.Val.Cmp(big.NewInt(int64(bits))) < 0 {
				sh = uint(b.Val.Int64())
			}
			if signed {
				return BVC(r.Rsh(bvSigned(a.Val, bits), sh), bits)
			}
			return BVC(r.Rsh(a.Val, sh), bits)
		case "quo":
			if b.Val.Sign() != 0 {
				if signed {
					return BVC(r.Quo(bvSigned(a.Val, bits), bvSigned(b.Val, bits)), bits)
				}
				return BVC(r.Quo(a.Val, b.Val), bits)
			}
		case "rem":
			if b.Val.Sign() != 0 {
				if signed {
					return BVC(r.Rem(bvSigned(a.Val, bits), bvSigned(b.Val, bits)), bits)
				}
				return BVC(r.Rem(a.Val, b.Val), bits)
			}
		}
	}
	switch op {
	case "and":
		if isNum(b) && b.Val.Sign() == 0 || isNum(a) && a.Val.Sign() == 0 {
			return BVC(big.NewInt(0), bits)
		}
		if isNum(b) && b.Val.Cmp(bvMask(bits)) == 0 {
			return a
		}
		return mk("bvand", a.Sort, a, b)
	case "or":
		if isNum(b) && b.Val.Sign() == 0 {
			return a
		}
		if isNum(a) && a.Val.Sign() == 0 {
			return b
		}
		return mk("bvor", a.Sort, a, b)
	case "xor":
		return mk("bvxor", a.Sort, a, b)
	case "andnot":
		return mk("bvand", a.Sort, a, mk("bvnot", b.Sort, b))
	case "shl":
		if isNum(b) && b.Val.Sign() == 0 {
			return a
		}
		return mk("bvshl", a.Sort, a, b)
	case "shr":
		if isNum(b) && b.Val.Sign() == 0 {
			return a
		}
		if signed {
			return mk("bvashr", a.Sort, a, b)
		}
		return mk("bvlshr", a.Sort, a, b)
	case "quo":
		if signed {
			return mk("bvsdiv", a.Sort, a, b)
		}
		return mk("bvudiv", a.Sort, a, b)
	case "rem":
		if signed {
			return mk("bvsrem", a.Sort, a, b)
		}
		return mk("bvurem", a.Sort, a, b)
	}
	panic("bvop " + op)
}

// BVResize converts between widths (sign/zero extension by the *source* signedness, or truncation).
func BVResize(a *Term, bits int, srcSigned bool) *Term {
	sb := a.Sort.Bits
	if sb == bits {
		return a
	}
	if isNum(a) {
		if srcSigned {
			return BVC(bvSigned(a.Val, sb), bits)
		}
		return BVC(a.Val, bits)
	}
	if bits < sb {
		return TS.intern(&Term{Op: "extract", Sort: BVSort(bits), Args: []*Term{a}, Name: fmt.Sprintf("%d.0", bits-1)})
	}
	op := "zero_extend"
	if srcSigned {
		op = "sign_extend"
	}
	return TS.intern(&Term{Op: op, Sort: BVSort(bits), Args: []*Term{a}, Name: fmt.Sprintf("%d", bits-sb)})
}

// Cmp: op in < <= > >=
func Cmp(op string, a, b *Term, signed bool) *Term {
	if a.Sort != b.Sort {
		panic(fmt.Sprintf("cmp %s sort mismatch %s vs %s", op, a.Sort, b.Sort))
	}
	if a.IsConst() && b.IsConst() {
		var c int
		switch a.Sort.Kind {
		case SInt:
			c = a.Val.Cmp(b.Val)
		case SBV:
			if signed {
				c = bvSigned(a.Val, a.Sort.Bits).Cmp(bvSigned(b.Val, a.Sort.Bits))
			} else {
				c = a.Val.Cmp(b.Val)
			}
		case SReal:
			c = a.RVal.Cmp(b.RVal)
		default:
			goto nofold
		}
		switch op {
		case "<":
			return BoolT(c < 0)
		case "<=":
			return BoolT(c <= 0)
		case ">":
			return BoolT(c > 0)
		case ">=":
			return BoolT(c >= 0)
		}
	}
nofold:
	if a == b && a.Sort.Kind != SFP {
		return BoolT(op == "<=" || op == ">=")
	}
	switch a.Sort.Kind {
	case SInt, SReal:
		// normalise to < and <= only
		switch op {
		case ">":
			return mk("<", BoolSort, b, a)
		case ">=":
			return mk("<=", BoolSort, b, a)
		}
		return mk(op, BoolSort, a, b)
	case SBV:
		p := "bvu"
		if signed {
			p = "bvs"
		}
		return mk(p+map[string]string{"<": "lt", "<=": "le", ">": "gt", ">=": "ge"}[op], BoolSort, a, b)
	case SFP:
		return mk("fp."+map[string]string{"<": "lt", "<=": "leq", ">": "gt", ">=": "geq"}[op], BoolSort, a, b)
	}
	panic("cmp")
}

func Select(arr, idx *Term) *Term {
	if arr.Sort.Kind != SArray {
		panic("select on non-array " + arr.String())
	}
	if arr.Sort.Idx != idx.Sort {
		panic(fmt.Sprintf("select index sort mismatch: %s vs %s", arr.Sort.Idx, idx.Sort))
	}
	// read-over-write with syntactically decidable indices
	cur := arr
	for cur.Op == "store" {
		if cur.Args[1] == idx {
			return cur.Args[2]
		}
		if cur.Args[1].IsConst() && idx.IsConst() {
			cur = cur.Args[0]
			continue
		}
		break
	}
	if cur.Op == "constarr" {
		return cur.Args[0]
	}
	return mk("select", cur.Sort.Elem, cur, idx)
}

func Store(arr, idx, v *Term) *Term {
	if arr.Sort.Kind != SArray || arr.Sort.Idx != idx.Sort || arr.Sort.Elem != v.Sort {
		panic(fmt.Sprintf("store sort mismatch: %s [%s] := %s", arr.Sort, idx.Sort, v.Sort))
	}
	if arr.Op == "store" && arr.Args[1] == idx {
		arr = arr.Args[0]
	}
	return mk("store", arr.Sort, arr, idx, v)
}

func ConstArr(s *Sort, v *Term) *Term { return mk("constarr", s, v) }

// validPattern: solvers reject (z3: warn about) patterns containing logical connectives or ite.
func validPattern(t *Term) bool {
	switch t.Op {
	case "and", "or", "not", "=>", "ite", "forall", "exists", "=", "distinct":
		return false
	}
	for _, a := range t.Args {
		if !validPattern(a) {
			return false
		}
	}
	return true
}

func Forall(bound []*Term, body *Term, pats ...[]*Term) *Term {
	if body.IsTrue() {
		return True()
	}
	if len(bound) == 0 {
		return body
	}
	if len(pats) == 0 && len(bound) == 1 && bound[0].Sort.Kind == SInt {
		bound, body, pats = normalizeIndexQuant(bound, body)
	}
	return TS.intern(&Term{Op: "forall", Sort: BoolSort, Args: []*Term{body}, Bound: bound, Pats: pats})
}

func Exists(bound []*Term, body *Term) *Term {
	if body.IsFalse() {
		return False()
	}
	if len(bound) == 0 {
		return body
	}
	return TS.intern(&Term{Op: "exists", Sort: BoolSort, Args: []*Term{body}, Bound: bound})
}

// Subst replaces terms (by identity) in t.
func Subst(t *Term, m map[*Term]*Term) *Term {
	if len(m) == 0 {
		return t
	}
	memo := map[*Term]*Term{}
	var rec func(t *Term) *Term
	rec = func(t *Term) *Term {
		if r, ok := m[t]; ok {
			return r
		}
		if len(t.Args) == 0 {
			return t
		}
		if r, ok := memo[t]; ok {
			return r
		}
		changed := false
		na := make([]*Term, len(t.Args))
		for i, a := range t.Args {
			na[i] = rec(a)
			if na[i] != a {
				changed = true
			}
		}
		var r *Term
		if !changed {
			r = t
		} else {
			r = rebuild(t, na)
		}
		memo[t] = r
		return r
	}
	return rec(t)
}

// rebuild re-applies the smart constructor for t.Op on new args (so folding happens after substitution).
func rebuild(t *Term, a []*Term) *Term {
	switch t.Op {
	case "not":
		return Not(a[0])
	case "and":
		return And(a...)
	case "or":
		return Or(a...)
	case "=>":
		return Implies(a[0], a[1])
	case "ite":
		return Ite(a[0], a[1], a[2])
	case "=", "fp.eq":
		return Eq(a[0], a[1])
	case "+", "-", "*", "/":
		if len(a) == 2 {
			return Arith(t.Op, a[0], a[1])
		}
	case "bvadd":
		return Arith("+", a[0], a[1])
	case "bvsub":
		return Arith("-", a[0], a[1])
	case "bvmul":
		return Arith("*", a[0], a[1])
	case "<", "<=":
		if a[0].Sort.Kind != SFP {
			return Cmp(t.Op, a[0], a[1], true)
		}
	case "bvult":
		return Cmp("<", a[0], a[1], false)
	case "bvule":
		return Cmp("<=", a[0], a[1], false)
	case "bvugt":
		return Cmp(">", a[0], a[1], false)
	case "bvuge":
		return Cmp(">=", a[0], a[1], false)
	case "bvslt":
		return Cmp("<", a[0], a[1], true)
	case "bvsle":
		return Cmp("<=", a[0], a[1], true)
	case "bvsgt":
		return Cmp(">", a[0], a[1], true)
	case "bvsge":
		return Cmp(">=", a[0], a[1], true)
	case "bvand":
		return BVOp("and", a[0], a[1], false)
	case "bvor":
		return BVOp("or", a[0], a[1], false)
	case "bvxor":
		return BVOp("xor", a[0], a[1], false)
	case "bvshl":
		return BVOp("shl", a[0], a[1], false)
	case "bvlshr":
		return BVOp("shr", a[0], a[1], false)
	case "bvashr":
		return BVOp("shr", a[0], a[1], true)
	case "select":
		return Select(a[0], a[1])
	case "store":
		return Store(a[0], a[1], a[2])
	case "div":
		if isNum(a[0]) && isNum(a[1]) && a[1].Val.Sign() > 0 {
			return IntBig(new(big.Int).Div(a[0].Val, a[1].Val))
		}
	case "mod":
		if isNum(a[0]) && isNum(a[1]) && a[1].Val.Sign() > 0 {
			return IntBig(new(big.Int).Mod(a[0].Val, a[1].Val))
		}
	case "extract":
		var hi int
		fmt.Sscanf(t.Name, "%d.0", &hi)
		return BVResize(a[0], hi+1, false)
	case "zero_extend":
		return BVResize(a[0], t.Sort.Bits, false)
	case "sign_extend":
		return BVResize(a[0], t.Sort.Bits, true)
	case "forall":
		return TS.intern(&Term{Op: "forall", Sort: BoolSort, Args: a, Bound: t.Bound, Pats: t.Pats})
	case "exists":
		return TS.intern(&Term{Op: "exists", Sort: BoolSort, Args: a, Bound: t.Bound})
	}
	return TS.intern(&Term{Op: t.Op, Sort: t.Sort, Args: a, Name: t.Name, Val: t.Val, RVal: t.RVal, BVal: t.BVal, Bound: t.Bound, Pats: t.Pats})
}

// ---- printing ----

func smtSym(name string) string {
	for _, r := range name {
		if !(r >= 'a' && r <= 'z' || r >= 'A' && r <= 'Z' || r >= '0' && r <= '9' || r == '_' || r == '.' || r == '!' || r == '?' || r == '$') {
			return "|" + name + "|"
		}
	}
	return name
}

func (t *Term) String() string {
	p := &printer{defs: nil, named: map[int]string{}}
	return p.str(t)
}

type printer struct {
	defs  []string
	named map[int]string
	refs  map[int]int
}

func (p *printer) str(t *Term) string {
	if n, ok := p.named[t.id]; ok {
		return n
	}
	switch t.Op {
	case "const":
		switch t.Sort.Kind {
		case SBool:
			if t.BVal {
				return "true"
			}
			return "false"
		case SInt:
			if t.Val.Sign() < 0 {
				return "(- " + new(big.Int).Neg(t.Val).String() + ")"
			}
			return t.Val.String()
		case SBV:
			return fmt.Sprintf("(_ bv%s %d)", t.Val.String(), t.Sort.Bits)
		case SReal:
			r := t.RVal
			num, den := r.Num(), r.Denom()
			s := ""
			if num.Sign() < 0 {
				s = "(- " + new(big.Int).Neg(num).String() + ".0)"
			} else {
				s = num.String() + ".0"
			}
			if den.Cmp(big.NewInt(1)) != 0 {
				s = "(/ " + s + " " + den.String() + ".0)"
			}
			return s
		}
	case "var", "bvar":
		return smtSym(t.Name)
	case "app":
		if len(t.Args) == 0 {
			return smtSym(t.Name)
		}
		return "(" + smtSym(t.Name) + " " + p.args(t.Args) + ")"
	case "extract":
		var hi int
		fmt.Sscanf(t.Name, "%d.0", &hi)
		return fmt.Sprintf("((_ extract %d 0) %s)", hi, p.str(t.Args[0]))
	case "zero_extend", "sign_extend":
		return fmt.Sprintf("((_ %s %s) %s)", t.Op, t.Name, p.str(t.Args[0]))
	case "constarr":
		return fmt.Sprintf("((as const %s) %s)", t.Sort, p.str(t.Args[0]))
	case "forall", "exists":
		var bs []string
		for _, b := range t.Bound {
			bs = append(bs, fmt.Sprintf("(%s %s)", smtSym(b.Name), b.Sort))
		}
		body := p.str(t.Args[0])
		if len(t.Pats) > 0 {
			var ps []string
			for _, pat := range t.Pats {
				ok := true
				for _, pt := range pat {
					if !validPattern(pt) {
						ok = false
					}
				}
				if ok {
					ps = append(ps, ":pattern ("+p.args(pat)+")")
				}
			}
			if len(ps) > 0 {
				body = "(! " + body + " " + strings.Join(ps, " ") + ")"
			}
		}
		return fmt.Sprintf("(%s (%s) %s)", t.Op, strings.Join(bs, " "), body)
	case "fp.add", "fp.sub", "fp.mul", "fp.div":
		return "(" + t.Op + " RNE " + p.args(t.Args) + ")"
	case "i2fp":
		return "((_ to_fp 11 53) RNE (to_real " + p.str(t.Args[0]) + "))"
	case "sbv2fp":
		return "((_ to_fp 11 53) RNE " + p.str(t.Args[0]) + ")"
	case "fpinf":
		return "(_ +oo 11 53)"
	case "fplit":
		return "((_ to_fp 11 53) RNE " + t.Name + ")"
	case "-":
		if len(t.Args) == 2 && t.Args[0].IsConst() && t.Args[0].Sort.Kind == SInt && t.Args[0].Val.Sign() == 0 {
			return "(- " + p.str(t.Args[1]) + ")"
		}
	}
	return "(" + t.Op + " " + p.args(t.Args) + ")"
}

func (p *printer) args(as []*Term) string {
	ss := make([]string, len(as))
	for i, a := range as {
		ss[i] = p.str(a)
	}
	return strings.Join(ss, " ")
}

// countRefs counts references to closed, non-trivial sub-terms.
func (p *printer) countRefs(t *Term, seen map[int]bool) {
	p.refs[t.id]++
	if seen[t.id] {
		return
	}
	seen[t.id] = true
	for _, a := range t.Args {
		p.countRefs(a, seen)
	}
	for _, pat := range t.Pats {
		for _, a := range pat {
			p.countRefs(a, seen)
		}
	}
}

// share emits define-funs (in dependency order) for closed sub-terms referenced more than once.
func (p *printer) share(t *Term, done map[int]bool) {
	if done[t.id] {
		return
	}
	done[t.id] = true
	for _, a := range t.Args {
		p.share(a, done)
	}
	if !t.open && len(t.Args) > 0 && p.refs[t.id] > 1 && t.size > 3 {
		s := p.str(t)
		name := fmt.Sprintf("$d%d", t.id)
		p.defs = append(p.defs, fmt.Sprintf("(define-fun %s () %s %s)", name, t.Sort, s))
		p.named[t.id] = name
	}
}

// collect gathers free variables and UFs used.
func collectDecls(t *Term, vars map[string]*Sort, ufs map[string]bool, seen map[int]bool) {
	if seen[t.id] {
		return
	}
	seen[t.id] = true
	switch t.Op {
	case "var":
		vars[t.Name] = t.Sort
	case "app":
		ufs[t.Name] = true
	}
	for _, a := range t.Args {
		collectDecls(a, vars, ufs, seen)
	}
	for _, pat := range t.Pats {
		for _, a := range pat {
			collectDecls(a, vars, ufs, seen)
		}
	}
}

// Script renders a satisfiability query: assert all of `asserts`.
// getvals are terms whose values are requested if sat.
func Script(asserts []*Term, getvals []*Term, logic string, extraDefs []string) string {
	p := &printer{named: map[int]string{}, refs: map[int]int{}}
	vars := map[string]*Sort{}
	ufs := map[string]bool{}
	seen := map[int]bool{}
	cseen := map[int]bool{}
	for _, a := range asserts {
		collectDecls(a, vars, ufs, seen)
		p.countRefs(a, cseen)
	}
	for _, a := range getvals {
		collectDecls(a, vars, ufs, seen)
	}
	var sb strings.Builder
	sb.WriteString("(set-option :produce-models true)\n")
	if logic != "" {
		sb.WriteString("(set-logic " + logic + ")\n")
	}
	var names []string
	for n := range vars {
		names = append(names, n)
	}
	sort.Strings(names)
	for _, n := range names {
		fmt.Fprintf(&sb, "(declare-fun %s () %s)\n", smtSym(n), vars[n])
	}
	// UFs referenced by extra defs must be declared too: declare all known UFs that are used.
	names = names[:0]
	for n := range ufs {
		names = append(names, n)
	}
	sort.Strings(names)
	for _, n := range names {
		d := TS.UFs[n]
		if d == nil {
			continue
		}
		var as []string
		for _, a := range d.Args {
			as = append(as, a.String())
		}
		fmt.Fprintf(&sb, "(declare-fun %s (%s) %s)\n", smtSym(n), strings.Join(as, " "), d.Res)
	}
	for _, d := range extraDefs {
		sb.WriteString(d)
		sb.WriteString("\n")
	}
	done := map[int]bool{}
	for _, a := range asserts {
		p.share(a, done)
	}
	for _, d := range p.defs {
		sb.WriteString(d)
		sb.WriteString("\n")
	}
	for _, a := range asserts {
		fmt.Fprintf(&sb, "(assert %s)\n", p.str(a))
	}
	sb.WriteString("(check-sat)\n")
	if len(getvals) > 0 {
		q := &printer{named: map[int]string{}}
		var vs []string
		for _, g := range getvals {
			vs = append(vs, q.str(g))
		}
		fmt.Fprintf(&sb, "(get-value (%s))\n", strings.Join(vs, " "))
	}
	return sb.String()
}

// normalizeIndexQuant rewrites  forall k. phi(select(A, off + k))  into  forall j. phi(select(A, j))[k := j - off]
// and attaches the bare selects as patterns, so that E-matching does not have to match through arithmetic.
func normalizeIndexQuant(bound []*Term, body *Term) ([]*Term, *Term, [][]*Term) {
	k := bound[0]
	var off *Term
	seen := map[int]bool{}
	var find func(t *Term)
	find = func(t *Term) {
		if off != nil || seen[t.id] || !t.open {
			return
		}
		seen[t.id] = true
		if t.Op == "select" {
			idx := t.Args[1]
			if idx.Op == "+" && len(idx.Args) == 2 {
				if idx.Args[1] == k && !idx.Args[0].open {
					off = idx.Args[0]
					return
				}
				if idx.Args[0] == k && !idx.Args[1].open {
					off = idx.Args[1]
					return
				}
			}
		}
		if t.Op == "forall" || t.Op == "exists" {
			return
		}
		for _, a := range t.Args {
			find(a)
		}
	}
	find(body)
	nb := k
	nbody := body
	if off != nil {
		nb = TS.intern(&Term{Op: "bvar", Sort: k.Sort, Name: k.Name + "j"})
		nbody = Subst(body, map[*Term]*Term{k: Arith("-", nb, off)})
	}
	// patterns: selects whose index is exactly the bound variable
	var pats [][]*Term
	pseen := map[int]bool{}
	var collect func(t *Term)
	collect = func(t *Term) {
		if pseen[t.id] || !t.open {
			return
		}
		pseen[t.id] = true
		if t.Op == "forall" || t.Op == "exists" {
			return
		}
		if t.Op == "select" && t.Args[1] == nb && !t.Args[0].open {
			pats = append(pats, []*Term{t})
		}
		for _, a := range t.Args {
			collect(a)
		}
	}
	collect(nbody)
	// only usable when every occurrence of the bound variable is coverable by some pattern (always true: each pattern mentions it)
	return []*Term{nb}, nbody, pats
}
