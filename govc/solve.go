package main

// Solver portfolio: z3-new 5.1.0, z3 4.8.12, cvc5 1.0.  One process per query.

import (
	"bytes"
	"context"
	"fmt"
	"os"
	"os/exec"
	"path/filepath"
	"strings"
	"sync"
	"time"
)

type SolverResult struct {
	Status string // unsat | sat | unknown | timeout | error
	Solver string
	Secs   float64
	Output string // raw (for models)
	Tried  []string
}

var scratchDir string
var scratchOnce sync.Once

func scratch() string {
	scratchOnce.Do(func() {
		d, err := os.MkdirTemp("", "govc-q-")
		if err != nil {
			panic(err)
		}
		scratchDir = d
	})
	return scratchDir
}

func cleanupScratch() {
	if scratchDir != "" {
		os.RemoveAll(scratchDir)
	}
}

type solverSpec struct {
	name string
	argv func(file string, to time.Duration, seed int) []string
	fix  func(script string) string
}

var solvers = []solverSpec{
	{"z3-new-5.1.0", func(f string, to time.Duration, seed int) []string {
		return []string{"z3-new", fmt.Sprintf("-T:%d", int(to.Seconds())+1), fmt.Sprintf("smt.random_seed=%d", seed), f}
	}, nil},
	{"z3-4.8.12", func(f string, to time.Duration, seed int) []string {
		return []string{"z3", fmt.Sprintf("-T:%d", int(to.Seconds())+1), fmt.Sprintf("smt.random_seed=%d", seed), f}
	}, nil},
	{"cvc5-1.0.3", func(f string, to time.Duration, seed int) []string {
		return []string{"cvc5", "--full-saturate-quant", fmt.Sprintf("--tlimit=%d", to.Milliseconds()), fmt.Sprintf("--seed=%d", seed), f}
	}, func(s string) string {
		if !strings.Contains(s, "(set-logic") {
			s = strings.Replace(s, "(set-option :produce-models true)\n", "(set-option :produce-models true)\n(set-logic ALL)\n", 1)
		}
		return s
	}},
}

func runOne(sp solverSpec, script string, to time.Duration, seed int, tag string) SolverResult {
	if sp.fix != nil {
		script = sp.fix(script)
	}
	f := filepath.Join(scratch(), fmt.Sprintf("%s-%s.smt2", tag, sp.name))
	if err := os.WriteFile(f, []byte(script), 0o644); err != nil {
		return SolverResult{Status: "error", Solver: sp.name, Output: err.Error()}
	}
	defer os.Remove(f)
	ctx, cancel := context.WithTimeout(context.Background(), to+2*time.Second)
	defer cancel()
	argv := sp.argv(f, to, seed)
	cmd := exec.CommandContext(ctx, argv[0], argv[1:]...)
	var out bytes.Buffer
	cmd.Stdout = &out
	cmd.Stderr = &out
	t0 := time.Now()
	_ = cmd.Run()
	secs := time.Since(t0).Seconds()
	o := out.String()
	first := strings.TrimSpace(strings.SplitN(o, "\n", 2)[0])
	st := "error"
	switch {
	case first == "unsat":
		st = "unsat"
	case first == "sat":
		st = "sat"
	case first == "unknown":
		st = "unknown"
	case first == "timeout" || strings.Contains(o, "timeout") || ctx.Err() != nil:
		st = "timeout"
	case strings.Contains(o, "interrupted"):
		st = "timeout"
	}
	return SolverResult{Status: st, Solver: sp.name, Secs: secs, Output: o}
}

// Solve runs the portfolio.  First the fast solver with a short slice of the budget;
// when undecided, the others are raced with the full budget.
// needTwo: require two agreeing solvers for unsat (thorough tier).
func Solve(script string, to time.Duration, seed int, tag string, needTwo bool) SolverResult {
	var tried []string
	total := 0.0
	short := to / 4
	if short < 2*time.Second {
		short = 2 * time.Second
	}
	r := runOne(solvers[0], script, short, seed, tag)
	tried = append(tried, fmt.Sprintf("%s:%s:%.2fs", r.Solver, r.Status, r.Secs))
	total += r.Secs
	if (r.Status == "unsat" && !needTwo) || r.Status == "sat" {
		r.Tried = tried
		return r
	}
	firstUnsat := r.Status == "unsat"
	// race the rest (and z3-new again with full budget if it timed out)
	type item struct{ r SolverResult }
	ch := make(chan SolverResult, 3)
	n := 0
	for i, sp := range solvers {
		if i == 0 && (firstUnsat || r.Status == "unknown" || r.Status == "error") {
			continue
		}
		n++
		go func(sp solverSpec) { ch <- runOne(sp, script, to, seed, tag) }(sp)
	}
	var best SolverResult
	best = r
	for i := 0; i < n; i++ {
		x := <-ch
		tried = append(tried, fmt.Sprintf("%s:%s:%.2fs", x.Solver, x.Status, x.Secs))
		total += x.Secs
		if x.Status == "sat" {
			best = x
			break
		}
		if x.Status == "unsat" {
			if !needTwo || firstUnsat || best.Status == "unsat" {
				best = x
				break
			}
			best = x
			continue
		}
		if best.Status != "unsat" && (best.Status == "error" || best.Status == "") {
			best = x
		}
	}
	if needTwo && best.Status == "unsat" {
		cnt := 0
		for _, t := range tried {
			if strings.Contains(t, ":unsat:") {
				cnt++
			}
		}
		if cnt < 2 {
			best.Status = "unsat" // single solver; recorded in Tried; still accepted but flagged
			best.Solver += "(single)"
		}
	}
	best.Tried = tried
	best.Secs = total
	return best
}
