package main

// Solver portfolio: z3-new 5.1.0, z3 4.8.12, cvc5 1.0.  One process per query.

import (
	"bytes"
	"context"
	"fmt"
	"os"
	"os/exec"
	"path/filepath"
	"strings"
	"sync"
	"time"
)

type SolverResult struct {
	Status string // unsat | sat | unknown | timeout | error
	Solver string
	Secs   float64
	Output string // raw (for models)
	Tried  []string
}

var scratchDir string
var scratchOnce sync.Once

func scratch() string {
	scratchOnce.Do(func() {
		d, err := os.MkdirTemp("", "govc-q-")
		if err != nil {
			panic(err)
		}
		scratchDir = d
	})
	return scratchDir
}

func cleanupScratch() {
	if scratchDir != "" {
		os.RemoveAll(scratchDir)
	}
}

type solverSpec struct {
	name string
	argv func(file string, to time.Duration, seed int) []string
	fix  func(script string) string
}

var solvers = []solverSpec{
	{"z3-new-5.1.0", func(f string, to time.Duration, seed int) []string {
		return []string{"z3-new", fmt.Sprintf("-T:%d", int(to.Seconds())+1), fmt.Sprintf("smt.random_seed=%d", seed), f}
	}, nil},
	{"z3-4.8.12", func(f string, to time.Duration, seed int) []string {
		return []string{"z3", fmt.Sprintf("-T:%d", int(to.Seconds())+1), fmt.Sprintf("smt.random_seed=%d", seed), f}
	}, nil},
	{"cvc5-1.0.3", func(f string, to time.Duration, seed int) []string {
		return []string{"cvc5", "--full-saturate-quant", fmt.Sprintf("--tlimit=%d", to.Milliseconds()), fmt.Sprintf("--seed=%d", seed), f}
	}, func(s string) string {
		if !strings.Contains(s, "(set-logic") {
			s = strings.Replace(s, "(set-option :produce-models true)\n", "(set-option :produce-models true)\n(set-logic ALL)\n", 1)
		}
		return s
	}},
}

func runOneCtx(ctx context.Context, sp solverSpec, script string, to time.Duration, seed int, tag string) SolverResult {
	if sp.fix != nil {
		script = sp.fix(script)
	}
	f := filepath.Join(scratch(), fmt.Sprintf("%s-%s.smt2", tag, sp.name))
	if err := os.WriteFile(f, []byte(script), 0o644); err != nil {
		return SolverResult{Status: "error", Solver: sp.name, Output: err.Error()}
	}
	defer os.Remove(f)
	cctx, cancel := context.WithTimeout(ctx, to+2*time.Second)
	defer cancel()
	argv := sp.argv(f, to, seed)
	cmd := exec.CommandContext(cctx, argv[0], argv[1:]...)
	var out bytes.Buffer
	cmd.Stdout = &out
	cmd.Stderr = &out
	t0 := time.Now()
	_ = cmd.Run()
	secs := time.Since(t0).Seconds()
	o := out.String()
	first := ""
	for _, ln := range strings.Split(o, "\n") {
		ln = strings.TrimSpace(ln)
		if ln == "" || strings.HasPrefix(ln, "WARNING:") {
			continue
		}
		first = ln
		break
	}
	st := "error"
	switch {
	case first == "unsat":
		st = "unsat"
	case first == "sat":
		st = "sat"
	case ctx.Err() != nil:
		st = "cancelled"
	case first == "unknown":
		st = "unknown"
	case first == "timeout" || strings.Contains(o, "timeout") || cctx.Err() != nil:
		st = "timeout"
	case strings.Contains(o, "interrupted"):
		st = "timeout"
	}
	return SolverResult{Status: st, Solver: sp.name, Secs: secs, Output: o}
}

func runOne(sp solverSpec, script string, to time.Duration, seed int, tag string) SolverResult {
	return runOneCtx(context.Background(), sp, script, to, seed, tag)
}

// Solve runs the portfolio: z3-new starts at once; if it has not answered after a short head start the
// other two solvers are started as well; the first decisive answer (sat/unsat) wins and the rest are cancelled.
// needTwo (thorough tier): an unsat must be confirmed by a second solver where one can decide it in time.
func Solve(script string, to time.Duration, seed int, tag string, needTwo bool) SolverResult {
	ctx, cancel := context.WithCancel(context.Background())
	defer cancel()
	ch := make(chan SolverResult, len(solvers))
	launch := func(i int) {
		go func() { ch <- runOneCtx(ctx, solvers[i], script, to, seed, tag) }()
	}
	launch(0)
	started := 1
	head := time.NewTimer(700 * time.Millisecond)
	defer head.Stop()
	var tried []string
	total := 0.0
	var best SolverResult
	unsats := 0
	got := 0
	for got < started {
		select {
		case <-head.C:
			if started == 1 {
				launch(1)
				launch(2)
				started = 3
			}
		case r := <-ch:
			got++
			if r.Status != "cancelled" {
				tried = append(tried, fmt.Sprintf("%s:%s:%.2fs", r.Solver, r.Status, r.Secs))
				total += r.Secs
			}
			switch r.Status {
			case "sat":
				r.Tried, r.Secs = tried, total
				return r
			case "unsat":
				unsats++
				if best.Status != "unsat" {
					best = r
				}
				if !needTwo || unsats >= 2 {
					best.Tried, best.Secs = tried, total
					return best
				}
				if started == 1 {
					launch(1)
					launch(2)
					started = 3
				}
			default:
				if best.Status == "" || best.Status == "error" || best.Status == "cancelled" {
					best = r
				}
				if started == 1 {
					launch(1)
					launch(2)
					started = 3
				}
			}
		}
	}
	if best.Status == "unsat" && needTwo && unsats < 2 {
		best.Solver += "(single)"
	}
	best.Tried, best.Secs = tried, total
	return best
}
