package main

// Contract files: //@ lines in *_verif.go files of each package in the repository
// (build tag verif, comment-only) plus /verif/spec/trusted/*.spec for assumed contracts.
// Expression language: Go-like expressions + ==>, <==>, c ? a : b, forall/exists x T :: e, old(e), result.

import (
	"fmt"
	"os"
	"path/filepath"
	"sort"
	"strconv"
	"strings"
)

// ---- expression AST ----

type SExpr struct {
	Kind string // ident, int, char, str, bool, unary, binary, cond, call, index, slice, sel, quant, old
	Op   string
	Name string
	Args []*SExpr
	Vars []SVar // quant
	Pos  string
	Src  string
}

type SVar struct{ Name, Type string }

func (e *SExpr) String() string {
	if e == nil {
		return "<nil>"
	}
	switch e.Kind {
	case "ident", "int", "bool", "float":
		return e.Name
	case "char":
		return "'" + e.Name + "'"
	case "str":
		return strconv.Quote(e.Name)
	case "unary":
		return e.Op + e.Args[0].String()
	case "binary":
		return "(" + e.Args[0].String() + " " + e.Op + " " + e.Args[1].String() + ")"
	case "cond":
		return "(" + e.Args[0].String() + " ? " + e.Args[1].String() + " : " + e.Args[2].String() + ")"
	case "call":
		var ss []string
		for _, a := range e.Args[1:] {
			ss = append(ss, a.String())
		}
		return e.Args[0].String() + "(" + strings.Join(ss, ", ") + ")"
	case "index":
		return e.Args[0].String() + "[" + e.Args[1].String() + "]"
	case "slice":
		s := e.Args[0].String() + "["
		if e.Args[1] != nil {
			s += e.Args[1].String()
		}
		s += ":"
		if e.Args[2] != nil {
			s += e.Args[2].String()
		}
		return s + "]"
	case "sel", "tupsel":
		return e.Args[0].String() + "." + e.Name
	case "quant":
		var vs []string
		for _, v := range e.Vars {
			vs = append(vs, v.Name+" "+v.Type)
		}
		return "(" + e.Op + " " + strings.Join(vs, ", ") + " :: " + e.Args[0].String() + ")"
	case "old":
		return "old(" + e.Args[0].String() + ")"
	}
	return "?" + e.Kind
}

// ---- lexer ----

type tok struct {
	k string // ident int char str op eof
	s string
}

func lexSpec(src string) ([]tok, error) {
	var toks []tok
	i := 0
	isIdStart := func(c byte) bool { return c == '_' || c >= 'a' && c <= 'z' || c >= 'A' && c <= 'Z' }
	isDigit := func(c byte) bool { return c >= '0' && c <= '9' }
	ops := []string{"<==>", "==>", "&&", "||", "==", "!=", "<=", ">=", "<<", ">>", "&^", "::", "++",
		"+", "-", "*", "/", "%", "&", "|", "^", "<", ">", "!", "(", ")", "[", "]", ",", ".", ":", "?", "{", "}", "=", ";"}
	for i < len(src) {
		c := src[i]
		if c == ' ' || c == '\t' || c == '\n' || c == '\r' {
			i++
			continue
		}
		if isIdStart(c) {
			j := i
			for j < len(src) && (isIdStart(src[j]) || isDigit(src[j])) {
				j++
			}
			toks = append(toks, tok{"ident", src[i:j]})
			i = j
			continue
		}
		if isDigit(c) {
			j := i
			for j < len(src) && (isDigit(src[j]) || src[j] == 'x' || src[j] == 'X' || src[j] == '_' || src[j] >= 'a' && src[j] <= 'f' || src[j] >= 'A' && src[j] <= 'F') {
				j++
			}
			if j+1 < len(src) && src[j] == '.' && isDigit(src[j+1]) && !strings.HasPrefix(src[i:j], "0x") {
				j++
				for j < len(src) && isDigit(src[j]) {
					j++
				}
				toks = append(toks, tok{"float", src[i:j]})
				i = j
				continue
			}
			toks = append(toks, tok{"int", strings.ReplaceAll(src[i:j], "_", "")})
			i = j
			continue
		}
		if c == '\'' {
			j := i + 1
			for j < len(src) && src[j] != '\'' {
				if src[j] == '\\' {
					j++
				}
				j++
			}
			if j >= len(src) {
				return nil, fmt.Errorf("unterminated char literal")
			}
			v, _, _, err := strconv.UnquoteChar(src[i+1:j], '\'')
			if err != nil {
				return nil, fmt.Errorf("bad char literal %s", src[i:j+1])
			}
			toks = append(toks, tok{"char", string(v)})
			i = j + 1
			continue
		}
		if c == '"' {
			j := i + 1
			for j < len(src) && src[j] != '"' {
				if src[j] == '\\' {
					j++
				}
				j++
			}
			if j >= len(src) {
				return nil, fmt.Errorf("unterminated string literal")
			}
			v, err := strconv.Unquote(src[i : j+1])
			if err != nil {
				return nil, fmt.Errorf("bad string literal %s", src[i:j+1])
			}
			toks = append(toks, tok{"str", v})
			i = j + 1
			continue
		}
		matched := false
		for _, o := range ops {
			if strings.HasPrefix(src[i:], o) {
				toks = append(toks, tok{"op", o})
				i += len(o)
				matched = true
				break
			}
		}
		if !matched {
			return nil, fmt.Errorf("unexpected character %q in %q", c, src)
		}
	}
	toks = append(toks, tok{"eof", ""})
	return toks, nil
}

type sparser struct {
	t   []tok
	p   int
	src string
}

func ParseSpecExpr(src string) (e *SExpr, err error) {
	toks, err := lexSpec(src)
	if err != nil {
		return nil, err
	}
	ps := &sparser{t: toks, src: src}
	defer func() {
		if r := recover(); r != nil {
			if s, ok := r.(specErr); ok {
				err = fmt.Errorf("%s in spec expression %q", string(s), src)
				return
			}
			panic(r)
		}
	}()
	e = ps.expr()
	if ps.peek().k != "eof" {
		ps.fail("trailing tokens at %q", ps.peek().s)
	}
	e.Src = src
	return e, nil
}

type specErr string

func (p *sparser) fail(f string, a ...interface{}) { panic(specErr(fmt.Sprintf(f, a...))) }
func (p *sparser) peek() tok                        { return p.t[p.p] }
func (p *sparser) next() tok                        { t := p.t[p.p]; p.p++; return t }
func (p *sparser) isOp(s string) bool               { t := p.peek(); return t.k == "op" && t.s == s }
func (p *sparser) accept(s string) bool {
	if p.isOp(s) {
		p.p++
		return true
	}
	return false
}
func (p *sparser) expect(s string) {
	if !p.accept(s) {
		p.fail("expected %q, found %q", s, p.peek().s)
	}
}

func (p *sparser) typeName() string {
	// [] * ident . ident
	s := ""
	for {
		if p.accept("[") {
			p.expect("]")
			s += "[]"
			continue
		}
		if p.accept("*") {
			s += "*"
			continue
		}
		break
	}
	t := p.next()
	if t.k != "ident" {
		p.fail("expected type name, found %q", t.s)
	}
	s += t.s
	if p.accept(".") {
		t2 := p.next()
		s += "." + t2.s
	}
	return s
}

func (p *sparser) expr() *SExpr {
	t := p.peek()
	if t.k == "ident" && (t.s == "forall" || t.s == "exists") {
		p.next()
		q := &SExpr{Kind: "quant", Op: t.s}
		for {
			n := p.next()
			if n.k != "ident" {
				p.fail("expected bound variable name")
			}
			ty := p.typeName()
			q.Vars = append(q.Vars, SVar{n.s, ty})
			if !p.accept(",") {
				break
			}
		}
		p.expect("::")
		q.Args = []*SExpr{p.expr()}
		return q
	}
	return p.iff()
}

func (p *sparser) iff() *SExpr {
	l := p.implies()
	for p.accept("<==>") {
		r := p.implies()
		l = &SExpr{Kind: "binary", Op: "<==>", Args: []*SExpr{l, r}}
	}
	return l
}

func (p *sparser) implies() *SExpr {
	l := p.cond()
	if p.accept("==>") {
		var r *SExpr
		t := p.peek()
		if t.k == "ident" && (t.s == "forall" || t.s == "exists") {
			r = p.expr()
		} else {
			r = p.implies()
		}
		return &SExpr{Kind: "binary", Op: "==>", Args: []*SExpr{l, r}}
	}
	return l
}

func (p *sparser) cond() *SExpr {
	c := p.or()
	if p.accept("?") {
		a := p.cond()
		p.expect(":")
		b := p.cond()
		return &SExpr{Kind: "cond", Args: []*SExpr{c, a, b}}
	}
	return c
}

func (p *sparser) or() *SExpr {
	l := p.and()
	for p.accept("||") {
		r := p.and()
		l = &SExpr{Kind: "binary", Op: "||", Args: []*SExpr{l, r}}
	}
	return l
}

func (p *sparser) and() *SExpr {
	l := p.cmp()
	for p.accept("&&") {
		r := p.cmp()
		l = &SExpr{Kind: "binary", Op: "&&", Args: []*SExpr{l, r}}
	}
	return l
}

func (p *sparser) cmp() *SExpr {
	l := p.add()
	for _, o := range []string{"==", "!=", "<=", ">=", "<", ">"} {
		if p.accept(o) {
			r := p.add()
			return &SExpr{Kind: "binary", Op: o, Args: []*SExpr{l, r}}
		}
	}
	return l
}

func (p *sparser) add() *SExpr {
	l := p.mul()
	for {
		found := false
		for _, o := range []string{"++", "+", "-", "|", "^"} {
			if p.isOp(o) {
				// "||" is lexed as one token so a single | here is bit-or
				p.next()
				r := p.mul()
				l = &SExpr{Kind: "binary", Op: o, Args: []*SExpr{l, r}}
				found = true
				break
			}
		}
		if !found {
			return l
		}
	}
}

func (p *sparser) mul() *SExpr {
	l := p.unary()
	for {
		found := false
		for _, o := range []string{"*", "/", "%", "<<", ">>", "&^", "&"} {
			if p.isOp(o) {
				p.next()
				r := p.unary()
				l = &SExpr{Kind: "binary", Op: o, Args: []*SExpr{l, r}}
				found = true
				break
			}
		}
		if !found {
			return l
		}
	}
}

func (p *sparser) unary() *SExpr {
	for _, o := range []string{"!", "-", "^", "*", "&"} {
		if p.accept(o) {
			return &SExpr{Kind: "unary", Op: o, Args: []*SExpr{p.unary()}}
		}
	}
	return p.postfix()
}

func (p *sparser) postfix() *SExpr {
	e := p.primary()
	for {
		switch {
		case p.accept("."):
			t := p.next()
			if t.k == "int" {
				e = &SExpr{Kind: "tupsel", Name: t.s, Args: []*SExpr{e}}
				continue
			}
			if t.k != "ident" {
				p.fail("expected field name after '.'")
			}
			e = &SExpr{Kind: "sel", Name: t.s, Args: []*SExpr{e}}
		case p.accept("["):
			var lo, hi *SExpr
			if p.accept(":") {
				if !p.isOp("]") {
					hi = p.expr()
				}
				p.expect("]")
				e = &SExpr{Kind: "slice", Args: []*SExpr{e, lo, hi}}
				continue
			}
			lo = p.expr()
			if p.accept(":") {
				if !p.isOp("]") {
					hi = p.expr()
				}
				p.expect("]")
				e = &SExpr{Kind: "slice", Args: []*SExpr{e, lo, hi}}
				continue
			}
			p.expect("]")
			e = &SExpr{Kind: "index", Args: []*SExpr{e, lo}}
		case p.accept("("):
			args := []*SExpr{e}
			if !p.isOp(")") {
				for {
					args = append(args, p.expr())
					if !p.accept(",") {
						break
					}
				}
			}
			p.expect(")")
			if e.Kind == "ident" && e.Name == "old" && len(args) == 2 {
				e = &SExpr{Kind: "old", Args: []*SExpr{args[1]}}
			} else {
				e = &SExpr{Kind: "call", Args: args}
			}
		default:
			return e
		}
	}
}

func (p *sparser) primary() *SExpr {
	t := p.next()
	switch t.k {
	case "ident":
		if t.s == "true" || t.s == "false" {
			return &SExpr{Kind: "bool", Name: t.s}
		}
		return &SExpr{Kind: "ident", Name: t.s}
	case "int":
		return &SExpr{Kind: "int", Name: t.s}
	case "float":
		return &SExpr{Kind: "float", Name: t.s}
	case "char":
		return &SExpr{Kind: "char", Name: t.s}
	case "str":
		return &SExpr{Kind: "str", Name: t.s}
	case "op":
		if t.s == "(" {
			e := p.expr()
			p.expect(")")
			return e
		}
	}
	p.fail("unexpected token %q", t.s)
	return nil
}

// ---- contract structures ----

type Clause struct {
	Label string
	Expr  *SExpr
	Src   string
}

type LoopSpec struct {
	ID         string // "1", "1.1", "2"
	Invariants []Clause
	Decreases  *SExpr
	Modifies   []string
}

type GhostStmt struct {
	At   string // exit | loop-end:<id>
	Name string
	Expr *SExpr
}

type FuncSpec struct {
	Key      string // e.g. "(*CellBuffer).Dirty" or "FindColor"; qualified with package at load
	Pkg      string
	Arith    string // "math" | "bv"
	Float    string // "real" | "fp"
	Requires []Clause
	Ensures  []Clause
	Assumes  []Clause // postconditions callers may use that are NOT verified on the body (reported as assumptions)
	Modifies []string // paths; "nothing"
	Loops    map[string]*LoopSpec
	Inline   []string // callees to inline even if they have contracts
	UseSpec  []string // callees for which to use contract (default if they have one)
	Pure     bool
	Trusted  bool // assumed contract (no body verification)
	Opts     map[string]string
	Lets     []LetDef
	Source   string
	Lemmas   []Clause // extra facts assumed at entry after being proved as separate obligations
	Ghost    []GhostStmt
	Calls    []Clause // obligations over the call log
}

type LetDef struct {
	Name string
	Expr *SExpr
}

type SpecFunc struct {
	Name   string
	Params []SVar
	Res    string
	Body   *SExpr
	Pkg    string
	Rec    bool
	Uninterp bool
}

type LemmaSpec struct {
	Name   string
	Pkg    string
	Arith  string
	Float  string
	Vars   []SVar
	Assume []Clause
	Prove  []Clause
	Source string
}

type SpecSet struct {
	Funcs  map[string]*FuncSpec // key: pkgpath + "." + Key
	SFuncs map[string]*SpecFunc // by name (global)
	Lemmas []*LemmaSpec
	Files  []string
	Raw    map[string][]string // file -> //@ lines (for the assumption scan)
	LockClasses map[string]*LockClass
	lcLines map[string][]string
}

func NewSpecSet() *SpecSet {
	return &SpecSet{Funcs: map[string]*FuncSpec{}, SFuncs: map[string]*SpecFunc{}, Raw: map[string][]string{}}
}

// LoadSpecFile parses one file.  pkgPath is the import path the file belongs to ("" for trusted files,
// which qualify their keys explicitly with `package <path>` lines).
func (ss *SpecSet) LoadSpecFile(path string, pkgPath string) error {
	data, err := os.ReadFile(path)
	if err != nil {
		return err
	}
	ss.Files = append(ss.Files, path)
	var lines []string
	for _, ln := range strings.Split(string(data), "\n") {
		t := strings.TrimSpace(ln)
		if strings.HasPrefix(t, "//@") {
			lines = append(lines, strings.TrimPrefix(t, "//@"))
		} else if strings.HasSuffix(path, ".spec") {
			if strings.HasPrefix(t, "#") {
				continue
			}
			lines = append(lines, ln)
		}
	}
	ss.Raw[path] = lines
	return ss.parseLines(lines, pkgPath, path)
}

var clauseKW = map[string]bool{"arith": true, "float": true, "requires": true, "ensures": true, "modifies": true,
	"loop": true, "invariant": true, "decreases": true, "inline": true, "pure": true, "trusted": true, "opt": true,
	"let": true, "assume": true, "assumes": true, "prove": true, "vars": true, "ghost": true, "calls": true, "usespec": true,
	"guarded": true, "initonly": true, "confined": true, "channel": true, "initfuncs": true, "conffuncs": true, "entry": true, "heldfuncs": true, "balanceonly": true, "serial": true}
var topKW = map[string]bool{"func": true, "spec": true, "pred": true, "lemma": true, "package": true, "uninterp": true, "lockclass": true}

func firstWord(s string) (string, string) {
	s = strings.TrimSpace(s)
	i := strings.IndexAny(s, " \t")
	if i < 0 {
		return s, ""
	}
	return s[:i], strings.TrimSpace(s[i+1:])
}

func (ss *SpecSet) parseLines(lines []string, pkgPath, file string) error {
	// join continuation lines: a line whose first word is not a keyword continues the previous one
	type item struct {
		kw, rest string
		ln       int
	}
	var items []item
	for i, ln := range lines {
		if strings.TrimSpace(ln) == "" {
			continue
		}
		if strings.HasPrefix(strings.TrimSpace(ln), "--") {
			continue // comment inside spec
		}
		w, rest := firstWord(ln)
		w2 := strings.TrimSuffix(w, ":")
		if topKW[w2] || clauseKW[w2] {
			items = append(items, item{w2, rest, i + 1})
		} else if len(items) > 0 {
			items[len(items)-1].rest += " " + strings.TrimSpace(ln)
		} else {
			return fmt.Errorf("%s: stray spec line %q", file, ln)
		}
	}
	var cur *FuncSpec
	var curLoop *LoopSpec
	var curLemma *LemmaSpec
	curLC := ""
	if ss.LockClasses == nil {
		ss.LockClasses = map[string]*LockClass{}
		ss.lcLines = map[string][]string{}
	}
	defer func() {
		for k, lines := range ss.lcLines {
			parts := strings.SplitN(k, "\x00", 2)
			ss.LockClasses[parts[1]] = parseLockClass(lines, parts[0], parts[1])
		}
	}()
	mkClause := func(rest string, ln int) (Clause, error) {
		label := ""
		// optional label:  [name] expr
		r := strings.TrimSpace(rest)
		if strings.HasPrefix(r, "[") {
			if j := strings.Index(r, "]"); j > 0 && !strings.ContainsAny(r[1:j], " ()") {
				label = r[1:j]
				r = strings.TrimSpace(r[j+1:])
			}
		}
		e, err := ParseSpecExpr(r)
		if err != nil {
			return Clause{}, fmt.Errorf("%s:%d: %v", file, ln, err)
		}
		return Clause{Label: label, Expr: e, Src: r}, nil
	}
	for _, it := range items {
		if it.kw != "lockclass" && curLC != "" {
			switch it.kw {
			case "guarded", "initonly", "confined", "channel", "initfuncs", "conffuncs", "entry", "heldfuncs", "balanceonly", "serial":
				ss.lcLines[curLC] = append(ss.lcLines[curLC], it.kw+" "+it.rest)
				continue
			}
			curLC = ""
		}
		switch it.kw {
		case "lockclass":
			curLC = pkgPath + "\x00" + strings.TrimSpace(it.rest)
			cur, curLoop, curLemma = nil, nil, nil
		case "package":
			pkgPath = strings.TrimSpace(it.rest)
			cur, curLoop, curLemma = nil, nil, nil
		case "func":
			key := strings.TrimSpace(it.rest)
			cur = &FuncSpec{Key: key, Pkg: pkgPath, Loops: map[string]*LoopSpec{}, Opts: map[string]string{}, Source: file}
			curLoop, curLemma = nil, nil
			full := pkgPath + "." + key
			if _, dup := ss.Funcs[full]; dup {
				return fmt.Errorf("%s:%d: duplicate contract for %s", file, it.ln, full)
			}
			ss.Funcs[full] = cur
		case "lemma":
			curLemma = &LemmaSpec{Name: strings.TrimSpace(it.rest), Pkg: pkgPath, Source: file}
			cur, curLoop = nil, nil
			ss.Lemmas = append(ss.Lemmas, curLemma)
		case "spec", "pred", "uninterp":
			cur, curLoop, curLemma = nil, nil, nil
			sf, err := parseSpecFunc(it.rest, it.kw)
			if err != nil {
				return fmt.Errorf("%s:%d: %v", file, it.ln, err)
			}
			sf.Pkg = pkgPath
			if _, dup := ss.SFuncs[sf.Name]; dup {
				return fmt.Errorf("%s:%d: duplicate spec function %s", file, it.ln, sf.Name)
			}
			ss.SFuncs[sf.Name] = sf
		case "vars":
			if curLemma == nil {
				return fmt.Errorf("%s:%d: vars outside lemma", file, it.ln)
			}
			for _, part := range strings.Split(it.rest, ",") {
				n, t := firstWord(part)
				curLemma.Vars = append(curLemma.Vars, SVar{n, t})
			}
		case "assume":
			c, err := mkClause(it.rest, it.ln)
			if err != nil {
				return err
			}
			if curLemma != nil {
				curLemma.Assume = append(curLemma.Assume, c)
			} else {
				return fmt.Errorf("%s:%d: assume outside lemma", file, it.ln)
			}
		case "prove":
			c, err := mkClause(it.rest, it.ln)
			if err != nil {
				return err
			}
			if curLemma == nil {
				return fmt.Errorf("%s:%d: prove outside lemma", file, it.ln)
			}
			curLemma.Prove = append(curLemma.Prove, c)
		default:
			if cur == nil && curLemma == nil {
				return fmt.Errorf("%s:%d: clause %q outside func block", file, it.ln, it.kw)
			}
			if curLemma != nil {
				switch it.kw {
				case "arith":
					curLemma.Arith = it.rest
				case "float":
					curLemma.Float = it.rest
				default:
					return fmt.Errorf("%s:%d: clause %q not allowed in lemma", file, it.ln, it.kw)
				}
				continue
			}
			switch it.kw {
			case "arith":
				cur.Arith = strings.TrimSpace(it.rest)
			case "float":
				cur.Float = strings.TrimSpace(it.rest)
			case "pure":
				cur.Pure = true
			case "trusted":
				cur.Trusted = true
			case "opt":
				k, v := firstWord(it.rest)
				cur.Opts[k] = v
			case "inline":
				for _, f := range strings.Fields(it.rest) {
					cur.Inline = append(cur.Inline, f)
				}
			case "usespec":
				for _, f := range strings.Fields(it.rest) {
					cur.UseSpec = append(cur.UseSpec, f)
				}
			case "modifies":
				for _, f := range strings.Split(it.rest, ",") {
					f = strings.TrimSpace(f)
					if f != "" {
						// a frame clause always belongs to the function, wherever it is written
						cur.Modifies = append(cur.Modifies, f)
					}
				}
			case "let":
				i := strings.Index(it.rest, "=")
				if i < 0 {
					return fmt.Errorf("%s:%d: let needs '='", file, it.ln)
				}
				e, err := ParseSpecExpr(it.rest[i+1:])
				if err != nil {
					return fmt.Errorf("%s:%d: %v", file, it.ln, err)
				}
				cur.Lets = append(cur.Lets, LetDef{strings.TrimSpace(it.rest[:i]), e})
			case "requires":
				c, err := mkClause(it.rest, it.ln)
				if err != nil {
					return err
				}
				cur.Requires = append(cur.Requires, c)
				curLoop = nil
			case "ensures":
				c, err := mkClause(it.rest, it.ln)
				if err != nil {
					return err
				}
				cur.Ensures = append(cur.Ensures, c)
				curLoop = nil
			case "assumes":
				c, err := mkClause(it.rest, it.ln)
				if err != nil {
					return err
				}
				cur.Assumes = append(cur.Assumes, c)
				curLoop = nil
			case "calls":
				c, err := mkClause(it.rest, it.ln)
				if err != nil {
					return err
				}
				cur.Calls = append(cur.Calls, c)
			case "loop":
				id := strings.TrimSuffix(strings.TrimSpace(it.rest), ":")
				rest := ""
				if j := strings.Index(it.rest, ":"); j >= 0 {
					id = strings.TrimSpace(it.rest[:j])
					rest = strings.TrimSpace(it.rest[j+1:])
				}
				curLoop = &LoopSpec{ID: id}
				cur.Loops[id] = curLoop
				if rest != "" {
					w, r := firstWord(rest)
					if err := loopClause(curLoop, w, r, mkClause, it.ln); err != nil {
						return fmt.Errorf("%s:%d: %v", file, it.ln, err)
					}
				}
			case "invariant", "decreases":
				if curLoop == nil {
					return fmt.Errorf("%s:%d: %s outside loop", file, it.ln, it.kw)
				}
				if err := loopClause(curLoop, it.kw, it.rest, mkClause, it.ln); err != nil {
					return fmt.Errorf("%s:%d: %v", file, it.ln, err)
				}
			case "ghost":
				// ghost exit: name = expr
				at, r := firstWord(it.rest)
				at = strings.TrimSuffix(at, ":")
				i := strings.Index(r, "=")
				if i < 0 {
					return fmt.Errorf("%s:%d: ghost needs '='", file, it.ln)
				}
				e, err := ParseSpecExpr(r[i+1:])
				if err != nil {
					return fmt.Errorf("%s:%d: %v", file, it.ln, err)
				}
				cur.Ghost = append(cur.Ghost, GhostStmt{At: at, Name: strings.TrimSpace(r[:i]), Expr: e})
			}
		}
	}
	return nil
}

func loopClause(l *LoopSpec, kw, rest string, mk func(string, int) (Clause, error), ln int) error {
	switch kw {
	case "invariant":
		c, err := mk(rest, ln)
		if err != nil {
			return err
		}
		l.Invariants = append(l.Invariants, c)
	case "decreases":
		e, err := ParseSpecExpr(rest)
		if err != nil {
			return err
		}
		l.Decreases = e
	default:
		return fmt.Errorf("unknown loop clause %q", kw)
	}
	return nil
}

// spec name(a T, b U) R = body      |   uninterp name(a T) R
func parseSpecFunc(s string, kw string) (*SpecFunc, error) {
	i := strings.Index(s, "(")
	if i < 0 {
		return nil, fmt.Errorf("spec function needs parameter list: %q", s)
	}
	name := strings.TrimSpace(s[:i])
	rec := false
	if strings.HasPrefix(name, "rec ") {
		rec = true
		name = strings.TrimSpace(name[4:])
	}
	depth := 0
	j := i
	for ; j < len(s); j++ {
		if s[j] == '(' {
			depth++
		} else if s[j] == ')' {
			depth--
			if depth == 0 {
				break
			}
		}
	}
	if j >= len(s) {
		return nil, fmt.Errorf("unbalanced parens in %q", s)
	}
	sf := &SpecFunc{Name: name, Rec: rec}
	ps := strings.TrimSpace(s[i+1 : j])
	if ps != "" {
		for _, part := range strings.Split(ps, ",") {
			n, t := firstWord(part)
			if t == "" {
				return nil, fmt.Errorf("parameter %q needs a type", part)
			}
			sf.Params = append(sf.Params, SVar{n, t})
		}
	}
	rest := strings.TrimSpace(s[j+1:])
	if kw == "uninterp" {
		sf.Uninterp = true
		sf.Res = rest
		return sf, nil
	}
	k := strings.Index(rest, "=")
	if k < 0 {
		return nil, fmt.Errorf("spec function %s needs '= body'", name)
	}
	sf.Res = strings.TrimSpace(rest[:k])
	if kw == "pred" && sf.Res == "" {
		sf.Res = "bool"
	}
	body, err := ParseSpecExpr(rest[k+1:])
	if err != nil {
		return nil, err
	}
	sf.Body = body
	return sf, nil
}

// LoadRepoSpecs loads every *_verif.go under the given package directories and the trusted specs.
func LoadRepoSpecs(pkgDirs map[string]string, trustedDir string) (*SpecSet, error) {
	ss := NewSpecSet()
	var paths []string
	for p := range pkgDirs {
		paths = append(paths, p)
	}
	sort.Strings(paths)
	for _, p := range paths {
		files, _ := filepath.Glob(filepath.Join(pkgDirs[p], "*_verif.go"))
		sort.Strings(files)
		for _, f := range files {
			if err := ss.LoadSpecFile(f, p); err != nil {
				return nil, err
			}
		}
	}
	tfiles, _ := filepath.Glob(filepath.Join(trustedDir, "*.spec"))
	sort.Strings(tfiles)
	for _, f := range tfiles {
		if err := ss.LoadSpecFile(f, ""); err != nil {
			return nil, err
		}
	}
	return ss, nil
}
