package main

// Evaluation of contract expressions over the symbolic state.

import (
	"os"
	"fmt"
	"go/constant"
	"go/token"
	"go/types"
	"math/big"
	"strconv"
	"strings"

	"golang.org/x/tools/go/ssa"
)

type SpecEnv struct {
	c         *Ctx
	st        *State
	vars      map[string]Value
	vtypes    map[string]types.Type
	old       *Snapshot
	result    Value
	hasResult bool
	frame     *Frame
	atLoop    *Loop
	pkg       string
	sig       *types.Signature
	inOld     bool
	depth     int
	unfolding []string
	allocMark *Term // callee contract applied at a call site: the allocation mark at the call (what fresh() is relative to)
}

// untyped integer constant in spec expressions (adapts to the other operand)
type UntypedInt struct {
	V    *big.Int
	C    *Term // conditional untyped constant: C ? A : B
	A, B *UntypedInt
}

func (c *Ctx) specEnvFor(st *State, fr *Frame) *SpecEnv {
	env := &SpecEnv{c: c, st: st, vars: map[string]Value{}, frame: fr, old: fr.Old, sig: fr.Fn.Signature}
	if fr.Fn.Pkg != nil {
		env.pkg = fr.Fn.Pkg.Pkg.Path()
	}
	for n, v := range fr.Params {
		env.vars[n] = v
	}
	sp := fr.Spec
	if sp != nil && len(sp.Lets) > 0 {
		// `let` names are bound once, in the function's entry state
		if fr.Lets == nil {
			fr.Lets = map[string]Value{}
			for _, l := range sp.Lets {
				v := c.evalSpec(env, l.Expr)
				fr.Lets[l.Name] = v
				env.vars[l.Name] = v
			}
		}
		for k, v := range fr.Lets {
			env.vars[k] = v
		}
	}
	return env
}

func (e *SpecEnv) child() *SpecEnv {
	n := *e
	n.vars = map[string]Value{}
	for k, v := range e.vars {
		n.vars[k] = v
	}
	return &n
}

func (c *Ctx) evalBool(env *SpecEnv, e *SExpr) *Term {
	v := c.evalSpec(env, e)
	t, ok := v.(*Term)
	if !ok || t.Sort.Kind != SBool {
		specError("expression %s is not boolean (got %s)", e, showValue(v))
	}
	return t
}

func (c *Ctx) evalTerm(env *SpecEnv, e *SExpr) *Term {
	v := c.evalSpec(env, e)
	switch x := v.(type) {
	case *Term:
		return x
	case UntypedInt:
		return NumC(x.V, c.IntSort())
	}
	specError("expression %s is not scalar (got %s)", e, showValue(v))
	return nil
}

// coerce untyped constants against the other operand
func (c *Ctx) coercePair(a, b Value) (Value, Value) {
	ua, oka := a.(UntypedInt)
	ub, okb := b.(UntypedInt)
	if oka && okb {
		return a, b
	}
	if oka {
		if t, ok := b.(*Term); ok {
			return c.untypedTo(ua, t.Sort), b
		}
	}
	if okb {
		if t, ok := a.(*Term); ok {
			return a, c.untypedTo(ub, t.Sort)
		}
	}
	// Int vs BV mismatch (e.g. len() in bv mode is BV64 already) - nothing to do
	return a, b
}

func (c *Ctx) untypedTo(u UntypedInt, s *Sort) *Term {
	if u.C != nil {
		return Ite(u.C, c.untypedTo(*u.A, s), c.untypedTo(*u.B, s))
	}
	switch s.Kind {
	case SInt, SBV:
		return NumC(u.V, s)
	case SReal:
		return RealC(new(big.Rat).SetInt(u.V))
	case SFP:
		return TS.intern(&Term{Op: "fplit", Sort: FPSort, Name: u.V.String() + ".0"})
	}
	specError("cannot use integer constant as %s", s)
	return nil
}

func (c *Ctx) evalSpec(env *SpecEnv, e *SExpr) Value {
	env.depth++
	defer func() { env.depth-- }()
	if env.depth > 200 {
		specError("spec expression recursion too deep (recursive spec function needs `spec rec`)")
	}
	switch e.Kind {
	case "int":
		v, ok := new(big.Int).SetString(e.Name, 0)
		if !ok {
			specError("bad integer literal %s", e.Name)
		}
		return UntypedInt{V: v}
	case "float":
		r, ok := new(big.Rat).SetString(e.Name)
		if !ok {
			specError("bad float literal %s", e.Name)
		}
		if c.FP {
			return TS.intern(&Term{Op: "fplit", Sort: FPSort, Name: ratSMT(r)})
		}
		return RealC(r)
	case "char":
		r := []rune(e.Name)
		return UntypedInt{V: big.NewInt(int64(r[0]))}
	case "bool":
		return BoolT(e.Name == "true")
	case "str":
		return conc(e.Name)
	case "ident":
		return c.specIdent(env, e.Name)
	case "old":
		if env.old == nil {
			specError("old() used where no pre-state is available")
		}
		n := *env
		// evaluate in the old memory: swap state's mem/heap temporarily
		st := env.st
		sm, sh, sg := st.Mem, st.Heap, st.Ghost
		st.Mem, st.Heap, st.Ghost = env.old.Mem, cloneHeap(env.old.Heap), env.old.Ghost
		n.inOld = true
		defer func() { st.Mem, st.Heap, st.Ghost = sm, sh, sg }()
		return c.evalSpec(&n, e.Args[0])
	case "unary":
		if e.Op == "&" {
			// &p.f: address of a field of the object p points to
			a := e.Args[0]
			if a.Kind != "sel" {
				specError("& needs a field selection: %s", e)
			}
			base, ok := c.evalSpec(env, a.Args[0]).(PtrV)
			if !ok || base.Nil {
				specError("& needs a field of a pointed-to struct: %s", e)
			}
			if base.Sym != nil {
				base = PtrV{Obj: c.materialise(env.st, base)}
			}
			var pt types.Type
			switch {
			case base.Heap:
				pt = base.Elem
			case base.Obj != nil:
				pt = base.Obj.Typ
			}
			for _, pe := range base.Path {
				switch u := under(pt).(type) {
				case *types.Struct:
					pt = u.Field(pe.Field).Type()
				case *types.Array:
					pt = u.Elem()
				}
			}
			stt, ok := under(pt).(*types.Struct)
			if !ok {
				specError("& on a field of non-struct %s", pt)
			}
			for i := 0; i < stt.NumFields(); i++ {
				if stt.Field(i).Name() == a.Name {
					np := base
					np.Path = append(append([]PathElem(nil), base.Path...), PathElem{Field: i})
					return np
				}
			}
			specError("no field %s in %s", a.Name, pt)
		}
		v := c.evalSpec(env, e.Args[0])
		switch e.Op {
		case "!":
			return Not(v.(*Term))
		case "*":
			pv, ok := v.(PtrV)
			if !ok {
				specError("dereference of non-pointer in %s", e)
			}
			return c.selectDeref(env, pv)
		case "-":
			if u, ok := v.(UntypedInt); ok {
				return UntypedInt{V: new(big.Int).Neg(u.V)}
			}
			return Neg(v.(*Term))
		case "^":
			if u, ok := v.(UntypedInt); ok {
				return UntypedInt{V: new(big.Int).Not(u.V)}
			}
			t := v.(*Term)
			if t.Sort.Kind == SBV {
				return mk("bvnot", t.Sort, t)
			}
		}
		specError("unary %s not supported on %s", e.Op, showValue(v))
	case "cond":
		cnd := c.evalBool(env, e.Args[0])
		a := c.evalSpec(env, e.Args[1])
		b := c.evalSpec(env, e.Args[2])
		a, b = c.coercePair(a, b)
		if ua, ok := a.(UntypedInt); ok {
			ub := b.(UntypedInt)
			if cnd.IsTrue() {
				return ua
			}
			if cnd.IsFalse() {
				return ub
			}
			return UntypedInt{C: cnd, A: &ua, B: &ub}
		}
		return c.valueIte(cnd, a, b)
	case "binary":
		return c.specBinary(env, e)
	case "quant":
		return c.specQuant(env, e)
	case "sel":
		return c.specSel(env, e)
	case "tupsel":
		v := c.evalSpec(env, e.Args[0])
		tv, ok := v.(*TupleV)
		i, _ := strconv.Atoi(e.Name)
		if !ok || i >= len(tv.V) {
			specError("tuple selection %s on %s", e, showValue(v))
		}
		return tv.V[i]
	case "index":
		base := c.evalSpec(env, e.Args[0])
		if m, ok := base.(MapV); ok {
			k := c.evalSpec(env, e.Args[1])
			if u, ok := k.(UntypedInt); ok {
				k = c.untypedTo(u, c.sortOfBasic(m.Typ.Key()))
			}
			v, _ := c.mapGet(env.st, m, k, m.Typ)
			return v
		}
		idx := c.evalTerm(env, e.Args[1])
		return c.specIndex(env, base, idx)
	case "slice":
		base := c.evalSpec(env, e.Args[0])
		return c.specSlice(env, base, e.Args[1], e.Args[2])
	case "call":
		return c.specCall(env, e)
	}
	specError("cannot evaluate %s", e)
	return nil
}

func cloneHeap(h map[string]*Term) map[string]*Term {
	n := make(map[string]*Term, len(h))
	for k, v := range h {
		n[k] = v
	}
	return n
}

func (c *Ctx) specIdent(env *SpecEnv, name string) Value {
	// inside a loop clause a name that the loop re-assigns (header phi), parameters included, means its current value
	if env.frame != nil && env.atLoop != nil && !env.inOld {
		for l := env.atLoop; l != nil; l = l.Parent {
			for _, in := range l.Header.Instrs {
				ph, ok := in.(*ssa.Phi)
				if !ok {
					break
				}
				if ph.Comment == name {
					if v, ok := env.frame.Env[ph]; ok {
						return v
					}
				}
			}
		}
	}
	if v, ok := env.vars[name]; ok {
		return v
	}
	if name == "result" {
		if !env.hasResult {
			specError("result used outside postcondition")
		}
		return env.result
	}
	if strings.HasPrefix(name, "result") && env.hasResult {
		if i, err := strconv.Atoi(name[6:]); err == nil {
			if tv, ok := env.result.(*TupleV); ok && i < len(tv.V) {
				return tv.V[i]
			}
		}
	}
	if name == "nil" {
		return NilV{}
	}
	// ghost variable
	if v, ok := env.st.Ghost[name]; ok {
		return v
	}
	// local variable (loop invariants / assertions)
	if env.frame != nil {
		if v, ok := c.localVar(env, name); ok {
			return v
		}
	}
	// package-level constant or variable
	if env.pkg != "" {
		if p := c.Eng.PkgBy[env.pkg]; p != nil && p.Types != nil {
			if obj := p.Types.Scope().Lookup(name); obj != nil {
				return c.pkgObject(env, obj)
			}
		}
	}
	// zero-arg spec function
	if sf, ok := c.Eng.Specs.SFuncs[name]; ok && len(sf.Params) == 0 {
		return c.applySpecFunc(env, sf, nil)
	}
	specError("unknown identifier %q in contract (function %s) [atLoop=%v frame=%v old=%v]", name, fnDisplay(c.Fn), env.atLoop != nil, env.frame != nil, env.inOld)
	return nil
}

type NilV struct{}

func (c *Ctx) pkgObject(env *SpecEnv, obj types.Object) Value {
	switch o := obj.(type) {
	case *types.Const:
		return c.constToValue(o.Val(), o.Type())
	case *types.Var:
		// global variable: read current memory
		sp := c.Eng.SPkgs[o.Pkg().Path()]
		if sp != nil {
			if g, ok := sp.Members[o.Name()].(*ssa.Global); ok {
				gobj := c.globalObj(env.st, g)
				return c.mem(env.st, gobj)
			}
		}
	}
	specError("cannot use package object %s in contract", obj)
	return nil
}

func (c *Ctx) constToValue(v constant.Value, t types.Type) Value {
	switch v.Kind() {
	case constant.Bool:
		return BoolT(constant.BoolVal(v))
	case constant.String:
		return conc(constant.StringVal(v))
	case constant.Int:
		bi, _ := constToBig(v)
		if b, ok := under(t).(*types.Basic); ok && b.Info()&types.IsUntyped == 0 && b.Info()&types.IsInteger != 0 {
			return NumC(bi, c.sortOfBasic(t))
		}
		return UntypedInt{V: bi}
	case constant.Float:
		return c.floatConst(v)
	}
	specError("constant of kind %v", v.Kind())
	return nil
}

// localVar resolves a source-level local variable name to its current SSA value.
func (c *Ctx) localVar(env *SpecEnv, name string) (Value, bool) {
	fr := env.frame
	fn := fr.Fn
	// named results / params that were re-assigned are phis or allocs; plain params are in fr.Params (handled earlier)
	// 1. phi of the loop header chain
	if env.atLoop != nil {
		for l := env.atLoop; l != nil; l = l.Parent {
			for _, in := range l.Header.Instrs {
				ph, ok := in.(*ssa.Phi)
				if !ok {
					break
				}
				if ph.Comment == name {
					if v, ok := fr.Env[ph]; ok {
						return v, true
					}
				}
			}
		}
	}
	// 2. allocs named so (address-taken locals)
	var cand []ssa.Value
	for _, b := range fn.Blocks {
		for _, in := range b.Instrs {
			switch x := in.(type) {
			case *ssa.Alloc:
				if x.Comment == name {
					if pv, ok := fr.Env[x]; ok {
						p := pv.(PtrV)
						return c.readPath(env.st, c.mem(env.st, p.Obj), p.Path), true
					}
				}
			case *ssa.DebugRef:
				if id := x.Object(); id != nil && id.Name() == name && !x.IsAddr {
					if _, ok := fr.Env[x.X]; ok {
						cand = append(cand, x.X)
					} else if _, isConst := x.X.(*ssa.Const); isConst {
						cand = append(cand, x.X)
					}
				}
			}
		}
	}
	if len(cand) == 0 {
		return nil, false
	}
	// choose the candidate whose defining block dominates the current block and is deepest
	cur := fr.Block
	var best ssa.Value
	bestDepth := -1
	distinct := map[ssa.Value]bool{}
	for _, v := range cand {
		distinct[v] = true
	}
	if len(distinct) == 1 {
		return c.val(env.st, cand[0]), true
	}
	for v := range distinct {
		in, ok := v.(ssa.Instruction)
		if !ok {
			if _, isParam := v.(*ssa.Parameter); isParam && bestDepth < 0 {
				best, bestDepth = v, 0
			}
			continue
		}
		b := in.Block()
		if b == nil || !(b == cur || b.Dominates(cur)) {
			continue
		}
		d := domDepth(b)*1000 + 1
		if _, isPhi := v.(*ssa.Phi); !isPhi {
			d += instrIndex(in)
		}
		if d > bestDepth {
			best, bestDepth = v, d
		}
	}
	if best == nil {
		return nil, false
	}
	return c.val(env.st, best), true
}

func domDepth(b *ssa.BasicBlock) int {
	d := 0
	for x := b.Idom(); x != nil; x = x.Idom() {
		d++
	}
	return d
}

func instrIndex(in ssa.Instruction) int {
	for i, x := range in.Block().Instrs {
		if x == in {
			return i
		}
	}
	return 0
}

func (c *Ctx) specSel(env *SpecEnv, e *SExpr) Value {
	// package-qualified constant?  pkg.Name
	if e.Args[0].Kind == "ident" {
		if _, isVar := env.vars[e.Args[0].Name]; !isVar {
			if p := c.Eng.PkgBy[env.pkg]; p != nil {
				for _, imp := range p.Imports {
					if imp.Name == e.Args[0].Name && imp.Types != nil {
						if obj := imp.Types.Scope().Lookup(e.Name); obj != nil {
							return c.pkgObject(env, obj)
						}
					}
				}
			}
		}
	}
	base := c.evalSpec(env, e.Args[0])
	return c.selectField(env, base, e.Name, e)
}

func (c *Ctx) selectField(env *SpecEnv, base Value, name string, e *SExpr) Value {
	st := env.st
	switch b := base.(type) {
	case PtrV:
		// auto-deref
		if b.Nil {
			specError("nil dereference in contract: %s", e)
		}
		if b.Heap {
			v := c.heapRead(st, b.Elem, b.Ref, b.Idx, pathInts(b.Path))
			return c.selectField(env, v, name, e)
		}
		if b.Sym != nil {
			o := c.materialise(st, b)
			// in old-mode the object may not exist in the old memory (materialised later): its entry value is the same symbolic value
			v, ok := st.Mem[o]
			if !ok {
				v = env.c.curMemFallback(o)
			}
			return c.selectField(env, v, name, e)
		}
		v, ok := st.Mem[b.Obj]
		if !ok {
			v = env.c.curMemFallback(b.Obj)
		}
		return c.selectField(env, c.readPath(st, v, b.Path), name, e)
	case *StructV:
		stt := under(b.Typ).(*types.Struct)
		for i := 0; i < stt.NumFields(); i++ {
			if stt.Field(i).Name() == name {
				return b.F[i]
			}
		}
		// promoted field through embedded struct
		for i := 0; i < stt.NumFields(); i++ {
			if stt.Field(i).Embedded() {
				if _, ok := under(stt.Field(i).Type()).(*types.Struct); ok {
					if hasFieldDeep(stt.Field(i).Type(), name) {
						return c.selectField(env, b.F[i], name, e)
					}
				}
				if pt, ok := under(stt.Field(i).Type()).(*types.Pointer); ok {
					if hasFieldDeep(pt.Elem(), name) {
						return c.selectField(env, b.F[i], name, e)
					}
				}
			}
		}
		specError("no field %s in %s (%s)", name, b.Typ, e)
	case SliceV:
		switch name {
		case "ref":
			if b.Heap {
				return b.Ref
			}
		case "off":
			if b.Heap {
				return b.Off
			}
			return c.idx(int64(b.COff))
		}
	}
	specError("cannot select .%s from %s in %s", name, showValue(base), e)
	return nil
}

// curMemFallback: objects materialised after the snapshot was taken still have their initial value in the current memory.
func (c *Ctx) curMemFallback(o *Object) Value {
	if v, ok := c.initVals[o]; ok {
		return v
	}
	specError("object %s not present in the requested state", o.Name)
	return nil
}

func hasFieldDeep(t types.Type, name string) bool {
	st, ok := under(t).(*types.Struct)
	if !ok {
		return false
	}
	for i := 0; i < st.NumFields(); i++ {
		if st.Field(i).Name() == name {
			return true
		}
		if st.Field(i).Embedded() && hasFieldDeep(st.Field(i).Type(), name) {
			return true
		}
	}
	return false
}

func (c *Ctx) specIndex(env *SpecEnv, base Value, idx *Term) Value {
	st := env.st
	switch b := base.(type) {
	case SliceV:
		if b.Heap {
			return c.heapRead(st, b.Elem, b.Ref, Arith("+", b.Off, idx), nil)
		}
		if b.Obj == nil {
			specError("index into nil slice in contract")
		}
		av := c.mem(st, b.Obj).(*ArrayV)
		if isNum(idx) {
			// logic semantics: an out-of-range element is an unspecified value (never a failure of the contract)
			if k := c.constIdx(idx); k < 0 || k >= b.CLen {
				return c.symbolic(st, b.Elem, "oob")
			}
		}
		return c.readPath(st, av, []PathElem{{Idx: Arith("+", c.idx(int64(b.COff)), idx)}})
	case StrV:
		return c.strAt(st, b, idx)
	case *ArrayV:
		return c.readPath(st, b, []PathElem{{Idx: idx}})
	case PtrV:
		v := c.selectDeref(env, b)
		return c.specIndex(env, v, idx)
	}
	specError("cannot index %s", showValue(base))
	return nil
}

func (c *Ctx) selectDeref(env *SpecEnv, b PtrV) Value {
	st := env.st
	if b.Heap {
		return c.heapRead(st, b.Elem, b.Ref, b.Idx, pathInts(b.Path))
	}
	if b.Sym != nil {
		o := c.materialise(st, b)
		v, ok := st.Mem[o]
		if !ok {
			v = c.curMemFallback(o)
		}
		return v
	}
	v, ok := st.Mem[b.Obj]
	if !ok {
		v = c.curMemFallback(b.Obj)
	}
	return c.readPath(st, v, b.Path)
}

func (c *Ctx) specSlice(env *SpecEnv, base Value, lo, hi *SExpr) Value {
	var l, h *Term
	if lo != nil {
		l = c.evalTerm(env, lo)
	} else {
		l = c.idx(0)
	}
	switch b := base.(type) {
	case StrV:
		if hi != nil {
			h = c.evalTerm(env, hi)
		} else {
			h = c.strLen(env.st, b)
		}
		if b.Conc != nil && isNum(l) && isNum(h) {
			return conc((*b.Conc)[c.constIdx(l):c.constIdx(h)])
		}
		s := c.strSym(env.st, b)
		return StrV{Arr: s.Arr, Off: Arith("+", s.Off, l), Len: Arith("-", h, l)}
	case SliceV:
		if b.Heap {
			if hi != nil {
				h = c.evalTerm(env, hi)
			} else {
				h = b.Len
			}
			return SliceV{Elem: b.Elem, Heap: true, Ref: b.Ref, Off: Arith("+", b.Off, l), Len: Arith("-", h, l), Cap: Arith("-", b.Cap, l)}
		}
		if hi != nil {
			h = c.evalTerm(env, hi)
		} else {
			h = c.idx(int64(b.CLen))
		}
		if b.Obj != nil && isNum(l) && isNum(h) {
			lo, hh := c.constIdx(l), c.constIdx(h)
			if lo >= 0 && lo <= hh && hh <= b.CCap {
				return SliceV{Elem: b.Elem, Obj: b.Obj, COff: b.COff + lo, CLen: hh - lo, CCap: b.CCap - lo}
			}
		}
	}
	specError("cannot slice %s in contract", showValue(base))
	return nil
}

func (c *Ctx) specBinary(env *SpecEnv, e *SExpr) Value {
	switch e.Op {
	case "&&":
		a := c.evalBool(env, e.Args[0])
		if a.IsFalse() {
			return a
		}
		return And(a, c.evalBool(env, e.Args[1]))
	case "||":
		a := c.evalBool(env, e.Args[0])
		if a.IsTrue() {
			return a
		}
		return Or(a, c.evalBool(env, e.Args[1]))
	case "==>":
		a := c.evalBool(env, e.Args[0])
		if a.IsFalse() {
			return True()
		}
		return Implies(a, c.evalBool(env, e.Args[1]))
	case "<==>":
		return Eq(c.evalBool(env, e.Args[0]), c.evalBool(env, e.Args[1]))
	}
	a := c.evalSpec(env, e.Args[0])
	b := c.evalSpec(env, e.Args[1])
	a, b = c.coercePair(a, b)
	if ua, ok := a.(UntypedInt); ok {
		ub := b.(UntypedInt)
		if ua.C != nil || ub.C != nil {
			x, y := c.untypedTo(ua, c.IntSort()), c.untypedTo(ub, c.IntSort())
			a, b = x, y
			goto typed
		}
		r := new(big.Int)
		switch e.Op {
		case "+":
			return UntypedInt{V: r.Add(ua.V, ub.V)}
		case "-":
			return UntypedInt{V: r.Sub(ua.V, ub.V)}
		case "*":
			return UntypedInt{V: r.Mul(ua.V, ub.V)}
		case "/":
			return UntypedInt{V: r.Quo(ua.V, ub.V)}
		case "%":
			return UntypedInt{V: r.Rem(ua.V, ub.V)}
		case "<<":
			return UntypedInt{V: r.Lsh(ua.V, uint(ub.V.Int64()))}
		case ">>":
			return UntypedInt{V: r.Rsh(ua.V, uint(ub.V.Int64()))}
		case "&":
			return UntypedInt{V: r.And(ua.V, ub.V)}
		case "|":
			return UntypedInt{V: r.Or(ua.V, ub.V)}
		case "^":
			return UntypedInt{V: r.Xor(ua.V, ub.V)}
		case "==":
			return BoolT(ua.V.Cmp(ub.V) == 0)
		case "!=":
			return BoolT(ua.V.Cmp(ub.V) != 0)
		case "<":
			return BoolT(ua.V.Cmp(ub.V) < 0)
		case "<=":
			return BoolT(ua.V.Cmp(ub.V) <= 0)
		case ">":
			return BoolT(ua.V.Cmp(ub.V) > 0)
		case ">=":
			return BoolT(ua.V.Cmp(ub.V) >= 0)
		}
	}
typed:
	switch e.Op {
	case "==", "!=":
		var eq *Term
		_, an := a.(NilV)
		_, bn := b.(NilV)
		switch {
		case an && bn:
			eq = True()
		case an:
			eq = c.isNil(env, b)
		case bn:
			eq = c.isNil(env, a)
		default:
			at, ok1 := a.(*Term)
			bt, ok2 := b.(*Term)
			if ok1 && ok2 && at.Sort != bt.Sort {
				at, bt = c.unifySorts(at, bt)
				eq = Eq(at, bt)
			} else {
				eq = c.valueEq(env.st, a, b)
			}
		}
		if e.Op == "!=" {
			return Not(eq)
		}
		return eq
	case "++":
		return c.strConcat(a.(StrV), b.(StrV))
	}
	if as, ok := a.(StrV); ok && e.Op == "+" {
		return c.strConcat(as, b.(StrV))
	}
	x, ok1 := a.(*Term)
	y, ok2 := b.(*Term)
	if !ok1 || !ok2 {
		specError("operator %s on non-scalars in %s", e.Op, e)
	}
	if x.Sort != y.Sort {
		x, y = c.unifySorts(x, y)
	}
	signed := true
	if x.Sort.Kind == SBV {
		signed = c.specSigned(env, e.Args[0]) && c.specSigned(env, e.Args[1])
	}
	switch e.Op {
	case "<", "<=", ">", ">=":
		return Cmp(e.Op, x, y, signed)
	case "+", "-", "*":
		return Arith(e.Op, x, y)
	case "/":
		switch x.Sort.Kind {
		case SInt:
			return IntQuo(x, y)
		case SBV:
			return BVOp("quo", x, y, signed)
		default:
			return Arith("/", x, y)
		}
	case "%":
		switch x.Sort.Kind {
		case SInt:
			return IntRem(x, y)
		case SBV:
			return BVOp("rem", x, y, signed)
		}
	case "&", "|", "^", "<<", ">>", "&^":
		if x.Sort.Kind == SBV {
			op := map[string]string{"&": "and", "|": "or", "^": "xor", "<<": "shl", ">>": "shr", "&^": "andnot"}[e.Op]
			return BVOp(op, x, y, signed)
		}
		if x.Sort.Kind == SInt {
			tk := map[string]token.Token{"&": token.AND, "|": token.OR, "<<": token.SHL, ">>": token.SHR, "&^": token.AND_NOT}[e.Op]
			if tk != 0 {
				return c.binop(env.st, nil, tk, x, y, types.Typ[types.Int], types.Typ[types.Int], types.Typ[types.Int])
			}
		}
	}
	specError("operator %s not supported on sort %s in %s", e.Op, x.Sort, e)
	return nil
}

// specSigned guesses signedness of a spec sub-expression in bv mode: unsigned only when it mentions
// a value of an unsigned Go type at the top (Color, uint8, ...); we track by sort width heuristics
// through explicit casts: u8(x), u16, u32, u64 produce "unsigned" markers.
func (c *Ctx) specSigned(env *SpecEnv, e *SExpr) bool {
	switch e.Kind {
	case "call":
		if e.Args[0].Kind == "ident" {
			switch e.Args[0].Name {
			case "u8", "u16", "u32", "u64", "uint8", "uint16", "uint32", "uint64", "byte", "Color", "uint":
				return false
			}
		}
	case "ident":
		if t := c.specTypeOf(env, e.Name); t != nil {
			return !isUnsigned(t)
		}
	case "binary":
		return c.specSigned(env, e.Args[0]) && c.specSigned(env, e.Args[1])
	case "int", "char":
		return true
	case "index":
		if e.Args[0].Kind == "ident" {
			// a let-bound (or ghost) slice: the element type decides
			var v Value
			if x, ok := env.vars[e.Args[0].Name]; ok {
				v = x
			} else if x, ok := env.st.Ghost[e.Args[0].Name]; ok {
				v = x
			}
			switch x := v.(type) {
			case SliceV:
				if x.Elem != nil {
					return !isUnsigned(x.Elem)
				}
			case StrV:
				return false
			}
		}
		return c.specSigned(env, e.Args[0])
	}
	return true
}

func (c *Ctx) specTypeOf(env *SpecEnv, name string) types.Type {
	if env.vtypes != nil {
		if t, ok := env.vtypes[name]; ok {
			return t
		}
	}
	if env.frame != nil {
		for _, p := range env.frame.Fn.Params {
			if p.Name() == name {
				t := p.Type()
				if s, ok := under(t).(*types.Slice); ok {
					return s.Elem()
				}
				return t
			}
		}
	}
	if env.sig != nil && strings.HasPrefix(name, "result") {
		rs := env.sig.Results()
		if name == "result" && rs.Len() == 1 {
			return rs.At(0).Type()
		}
		if i, err := strconv.Atoi(name[6:]); err == nil && i < rs.Len() {
			return rs.At(i).Type()
		}
	}
	if env.sig != nil {
		ps := env.sig.Params()
		for i := 0; i < ps.Len(); i++ {
			if ps.At(i).Name() == name {
				return ps.At(i).Type()
			}
		}
		if r := env.sig.Recv(); r != nil && r.Name() == name {
			return r.Type()
		}
	}
	if p := c.Eng.PkgBy[env.pkg]; p != nil && p.Types != nil {
		if obj := p.Types.Scope().Lookup(name); obj != nil {
			if _, ok := obj.(*types.TypeName); !ok {
				return obj.Type()
			}
		}
	}
	return nil
}

func (c *Ctx) unifySorts(x, y *Term) (*Term, *Term) {
	// allow Int constants against BV and width differences by extending the narrower (zero-extend: callers cast explicitly when sign matters)
	if x.Sort.Kind == SBV && y.Sort.Kind == SBV {
		if x.Sort.Bits < y.Sort.Bits {
			return BVResize(x, y.Sort.Bits, true), y
		}
		return x, BVResize(y, x.Sort.Bits, true)
	}
	if x.Sort.Kind == SInt && y.Sort.Kind == SReal {
		if isNum(x) {
			return RealC(new(big.Rat).SetInt(x.Val)), y
		}
		return mk("to_real", RealSort, x), y
	}
	if x.Sort.Kind == SReal && y.Sort.Kind == SInt {
		if isNum(y) {
			return x, RealC(new(big.Rat).SetInt(y.Val))
		}
		return x, mk("to_real", RealSort, y)
	}
	if x.Sort.Kind == SInt && y.Sort.Kind == SBV && isNum(x) {
		return NumC(x.Val, y.Sort), y
	}
	if y.Sort.Kind == SInt && x.Sort.Kind == SBV && isNum(y) {
		return x, NumC(y.Val, x.Sort)
	}
	specError("sort mismatch %s vs %s (%s / %s)", x.Sort, y.Sort, x, y)
	return nil, nil
}

func (c *Ctx) isNil(env *SpecEnv, v Value) *Term {
	switch x := v.(type) {
	case PtrV:
		return c.ptrEq(env.st, x, PtrV{Nil: true})
	case IfaceV:
		if x.Nil {
			return True()
		}
		if x.Sym != nil {
			return Eq(x.Sym, IntC(0))
		}
		return False()
	case SliceV:
		if x.Heap {
			return Eq(x.Ref, IntC(0))
		}
		return BoolT(x.Obj == nil)
	case MapV:
		return BoolT(x.Nil)
	case FuncV:
		if x.Sym != nil {
			return Eq(x.Sym, IntC(0))
		}
		return BoolT(x.Nil)
	case ChanV:
		if x.Sym != nil {
			return Eq(x.Sym, IntC(0))
		}
		return BoolT(x.Nil)
	}
	specError("nil comparison of %s", showValue(v))
	return nil
}

func (c *Ctx) specSort(env *SpecEnv, tname string) *Sort {
	switch tname {
	case "int", "int64", "uint64", "uint", "Color", "Key", "time.Duration":
		if c.BV {
			return BVSort(64)
		}
		return IntSort
	case "int32", "rune", "uint32":
		if c.BV {
			return BVSort(32)
		}
		return IntSort
	case "int16", "uint16", "ModMask", "ButtonMask":
		if c.BV {
			return BVSort(16)
		}
		return IntSort
	case "byte", "uint8", "int8":
		if c.BV {
			return BVSort(8)
		}
		return IntSort
	case "bool":
		return BoolSort
	case "float64":
		if c.FP {
			return FPSort
		}
		return RealSort
	case "real":
		return RealSort
	case "mathint", "ref":
		return IntSort
	}
	// named type from the package
	if p := c.Eng.PkgBy[env.pkg]; p != nil && p.Types != nil {
		if obj := p.Types.Scope().Lookup(tname); obj != nil {
			if _, ok := under(obj.Type()).(*types.Basic); ok {
				return c.sortOfBasic(obj.Type())
			}
		}
	}
	specError("unknown type %q for bound variable / spec parameter", tname)
	return nil
}

func (c *Ctx) specQuant(env *SpecEnv, e *SExpr) Value {
	n := env.child()
	var bound []*Term
	for _, v := range e.Vars {
		b := BoundVar(v.Name, c.specSort(env, v.Type))
		bound = append(bound, b)
		n.vars[v.Name] = b
	}
	// collect assumptions generated while evaluating the body (range facts of reads): they must not leak bound variables into pc
	st := env.st
	savePC, saveSeen := st.PC, st.pcSeen
	st.PC = append([]*Term(nil), savePC...)
	st.pcSeen = map[int]bool{}
	for k := range saveSeen {
		st.pcSeen[k] = true
	}
	body := c.evalBool(n, e.Args[0])
	var facts []*Term
	for _, t := range st.PC[len(savePC):] {
		if t.open {
			// type-range facts about reads at bound indices: dropped (not needed inside quantified bodies,
			// and they must not become proof obligations of an existential claim)
			continue
		}
		defer st.assume(t)
	}
	st.PC, st.pcSeen = savePC, saveSeen
	if e.Op == "forall" {
		// facts about reads are invariants of the state: usable as hypotheses
		return Forall(bound, Implies(And(facts...), body))
	}
	return Exists(bound, And(append(facts, body)...))
}

func (c *Ctx) specCall(env *SpecEnv, e *SExpr) Value {
	fn := e.Args[0]
	var args []Value
	evalArgs := func() {
		for _, a := range e.Args[1:] {
			args = append(args, c.evalSpec(env, a))
		}
	}
	if fn.Kind == "ident" {
		switch fn.Name {
		case "len":
			evalArgs()
			switch x := args[0].(type) {
			case StrV:
				return c.strLen(env.st, x)
			case SliceV:
				return c.sliceLen(x)
			case *ArrayV:
				return c.idx(int64(len(x.Elems)))
			case MapV:
				return c.mapLen(env.st, x)
			case PtrV:
				return c.specCallLenPtr(env, x)
			}
			specError("len of %s", showValue(args[0]))
		case "cap":
			evalArgs()
			if s, ok := args[0].(SliceV); ok {
				return c.sliceCap(s)
			}
		case "ite":
			evalArgs()
			a, b := c.coercePair(args[1], args[2])
			return c.valueIte(args[0].(*Term), a, b)
		case "int", "int64", "int32", "rune", "int16", "int8", "uint", "uint64", "uint32", "uint16", "uint8", "byte", "u8", "u16", "u32", "u64", "i8", "i16", "i32", "i64":
			evalArgs()
			return c.specCast(env, fn.Name, args[0], e.Args[1])
		case "float64", "real":
			evalArgs()
			switch x := args[0].(type) {
			case UntypedInt:
				return c.untypedTo(x, c.specSort(env, "float64"))
			case *Term:
				if x.Sort.Kind == SInt {
					if c.FP {
						return I2FP(x)
					}
					return mk("to_real", RealSort, x)
				}
				if x.Sort.Kind == SBV && c.FP {
					return I2FP(BVResize(x, 64, c.specSigned(env, e.Args[1])))
				}
				return x
			}
		case "fresh":
			// fresh(s): slice s was allocated during this call (its ref is >= the allocation mark at entry)
			evalArgs()
			s, ok := args[0].(SliceV)
			if !ok || !s.Heap {
				if ok && !s.Heap {
					if c.replayFresh != nil && s.Obj != nil {
						return BoolT(c.replayFresh[s.Obj])
					}
					return True()
				}
				specError("fresh() needs a slice")
			}
			if c.alloc0 == nil {
				specError("fresh() outside a function contract")
			}
			mark := c.alloc0
			if env.allocMark != nil {
				mark = env.allocMark
			}
			return Or(Eq(s.Ref, IntC(0)), Cmp(">=", s.Ref, mark, true))
		case "isMethodValue":
			// isMethodValue(f, "name"): the function value f is the method value x.name (a bound-method closure)
			if len(e.Args) != 3 || e.Args[2].Kind != "str" {
				specError("isMethodValue(f, \"method\")")
			}
			fv, ok := c.evalSpec(env, e.Args[1]).(FuncV)
			if !ok {
				specError("isMethodValue needs a function value")
			}
			if fv.Fn == nil {
				if fv.Sym != nil {
					specError("isMethodValue on a symbolic function value")
				}
				return False()
			}
			return BoolT(fv.Fn.Synthetic != "" && fv.Fn.Name() == e.Args[2].Name+"$bound")
		case "seqeq":
			evalArgs()
			return c.seqEq(env, args[0], args[1])
		case "isNil":
			evalArgs()
			return c.isNil(env, args[0])
		case "sameslice":
			evalArgs()
			a, ok1 := args[0].(SliceV)
			b, ok2 := args[1].(SliceV)
			if !ok1 || !ok2 {
				specError("sameslice needs slices")
			}
			if a.Heap && b.Heap {
				return And(Eq(a.Ref, b.Ref), Eq(a.Off, b.Off), Eq(a.Len, b.Len))
			}
			if !a.Heap && !b.Heap {
				return BoolT(a.Obj == b.Obj && a.COff == b.COff && a.CLen == b.CLen)
			}
			ha, hb := a, b
			if !a.Heap && a.Obj == nil {
				return Eq(hb.Ref, IntC(0))
			}
			if !b.Heap && b.Obj == nil {
				return Eq(ha.Ref, IntC(0))
			}
			return False()
		case "asptr":
			// asptr(e, "T"): the pointer payload of interface value e, viewed as *T
			if len(e.Args) != 3 || e.Args[2].Kind != "str" {
				specError("asptr(e, \"TypeName\")")
			}
			v := c.evalSpec(env, e.Args[1])
			iv, ok := v.(IfaceV)
			if !ok {
				specError("asptr needs an interface value")
			}
			var tt types.Type
			if p := c.Eng.PkgBy[env.pkg]; p != nil && p.Types != nil {
				if obj := p.Types.Scope().Lookup(e.Args[2].Name); obj != nil {
					tt = obj.Type()
				}
			}
			if tt == nil {
				specError("asptr: unknown type %s", e.Args[2].Name)
			}
			if iv.Nil {
				return PtrV{Nil: true}
			}
			if iv.Dyn != nil {
				return iv.Val
			}
			return PtrV{Sym: iv.Sym, Typ: tt}
		case "strOfRunes":
			// strOfRunes(s, main, comb): s == string(append([]rune{main}, comb...)), decided on the structure of s
			// (exact: UTF-8 rendering is injective on sequences once invalid runes are normalised to U+FFFD)
			evalArgs()
			sv, ok := args[0].(StrV)
			if !ok {
				specError("strOfRunes needs a string")
			}
			mt, ok1 := args[1].(*Term)
			cv, ok2 := args[2].(SliceV)
			if !ok1 || !ok2 {
				specError("strOfRunes(s, main rune, comb []rune)")
			}
			return c.strOfRunes(env, sv, mt, cv)
		case "keysNonEmpty", "valsNonNil":
			// map-level facts usable by loops that range over a symbolic map
			evalArgs()
			m, ok := args[0].(MapV)
			if !ok {
				specError("%s needs a map", e.Args[0].Name)
			}
			mo := c.mapObj(env.st, m)
			if mo.Abstract && len(mo.Entries) == 0 {
				if e.Args[0].Name == "keysNonEmpty" {
					return App("mapKeysNonEmpty."+mo.Tag, BoolSort)
				}
				return App("mapValsNonNil."+mo.Tag, BoolSort)
			}
			if mo.Abstract {
				specError("%s on a partially concrete map", e.Args[0].Name)
			}
			var cs []*Term
			for _, en := range mo.Entries {
				if en.V == nil {
					continue
				}
				if e.Args[0].Name == "keysNonEmpty" {
					ks, isStr := en.K.(StrV)
					if !isStr {
						specError("keysNonEmpty needs string keys")
					}
					cs = append(cs, Cmp(">", c.strLen(env.st, ks), c.idx(0), true))
				} else {
					cs = append(cs, Not(c.isNil(env, en.V)))
				}
			}
			return And(cs...)
		case "freshInIteration":
			// freshInIteration(x): the storage behind slice / pointer x was allocated during the current iteration of the
			// innermost cut loop (or, outside loops, during this call)
			evalArgs()
			var am *Term = c.alloc0
			om := c.entryObjs
			for i := len(env.st.Loops) - 1; i >= 0; i-- {
				if al := env.st.Loops[i]; al.Frame == len(env.st.Frames) && al.AllocMark != nil {
					am, om = al.AllocMark, al.ObjMark
					break
				}
			}
			switch x := args[0].(type) {
			case SliceV:
				if x.Heap && x.Origin != nil {
					// a copy of an engine object made for the symbolic heap: the object's own allocation time counts
					_, isInput := c.initVals[x.Origin]
					return BoolT(x.Origin.ID > om && !isInput)
				}
				if x.Heap {
					return Cmp(">=", x.Ref, am, true)
				}
				if x.Obj == nil {
					return False()
				}
				_, isInput := c.initVals[x.Obj]
				return BoolT(x.Obj.ID > om && !isInput)
			case PtrV:
				if x.Obj != nil {
					_, isInput := c.initVals[x.Obj]
					return BoolT(x.Obj.ID > om && !isInput)
				}
				if x.Heap {
					return Cmp(">=", x.Ref, am, true)
				}
			}
			specError("freshInIteration needs a slice or pointer with known storage")
		case "allocmark":
			// the allocation mark: every reference allocated from now on is >= this value
			return env.st.Alloc
		case "dyn":
			// dyn(e): the dynamic value boxed in interface value e (its dynamic type must be statically known)
			evalArgs()
			iv, ok := args[0].(IfaceV)
			if !ok || iv.Dyn == nil {
				specError("dyn: the dynamic type of the interface value is not known on this path")
			}
			return iv.Val
		case "purecall":
			// purecall("Color.RGB", i, args...): the i-th result of a function whose contract is marked `pure`
			if len(e.Args) < 3 || e.Args[1].Kind != "str" || e.Args[2].Kind != "int" {
				specError("purecall(\"Key\", index, args...)")
			}
			key := env.pkg + "." + e.Args[1].Name
			if strings.Contains(e.Args[1].Name, "/") {
				key = e.Args[1].Name
			}
			sp := c.Eng.Specs.Funcs[key]
			if sp == nil || !sp.Pure {
				specError("purecall: %s has no contract marked pure", key)
			}
			fn := c.Eng.FindFunc(key)
			if fn == nil {
				specError("purecall: function %s not found", key)
			}
			idx, _ := strconv.Atoi(e.Args[2].Name)
			var ts []*Term
			for i, a := range e.Args[3:] {
				v := c.evalSpec(env, a)
				if u, ok := v.(UntypedInt); ok {
					v = c.untypedTo(u, c.sortOfBasic(fn.Params[i].Type()))
				}
				at, ok := pureArgTerms(v)
				if !ok {
					specError("purecall arguments must be scalars or structs of scalars")
				}
				ts = append(ts, at...)
			}
			return c.pureApp(key, fn.Signature, idx, ts)
		case "has":
			evalArgs()
			m, ok := args[0].(MapV)
			if !ok {
				specError("has() needs a map")
			}
			k := args[1]
			if u, ok := k.(UntypedInt); ok {
				k = c.untypedTo(u, c.sortOfBasic(m.Typ.Key()))
			}
			_, present := c.mapGet(env.st, m, k, m.Typ)
			return present
		case "calls":
			// calls(Name): number of logged calls whose callee matches
			// after a cut loop the count is still exact: checkCountedCalls obliges every iteration of every cut
			// loop to make no call that some calls(Name) of this contract counts
			n := 0
			name := e.Args[1].Name
			if e.Args[1].Kind == "str" {
				name = e.Args[1].Name
			}
			var sym *Term
			for _, r := range env.st.CallLog {
				if callMatches(r.Callee, name) {
					if r.Cond != nil {
						one := Ite(r.Cond, c.idx(1), c.idx(0))
						if sym == nil {
							sym = one
						} else {
							sym = Arith("+", sym, one)
						}
						continue
					}
					n++
				}
			}
			if sym != nil {
				return Arith("+", sym, c.idx(int64(n)))
			}
			return UntypedInt{V: big.NewInt(int64(n))}
		case "stepcalls":
			// stepcalls(Name): number of matching calls made in the current step - inside a cut loop, the iteration being
			// judged (records after the loop head); elsewhere the whole log.  Meant for `calls` clauses, which are judged
			// per iteration; not subject to the counted-calls rule.
			name := e.Args[1].Name
			from := 0
			for i := len(env.st.Loops) - 1; i >= 0; i-- {
				if al := env.st.Loops[i]; al.L != nil && al.Frame == len(env.st.Frames) {
					from = al.LogLen
					break
				}
			}
			n := 0
			var sym *Term
			for i := from; i < len(env.st.CallLog); i++ {
				r := env.st.CallLog[i]
				if callMatches(r.Callee, name) {
					if r.Cond != nil {
						one := Ite(r.Cond, c.idx(1), c.idx(0))
						if sym == nil {
							sym = one
						} else {
							sym = Arith("+", sym, one)
						}
						continue
					}
					n++
				}
			}
			if sym != nil {
				return Arith("+", sym, c.idx(int64(n)))
			}
			return UntypedInt{V: big.NewInt(int64(n))}
		case "isNaN":
			evalArgs()
			t := args[0].(*Term)
			if t.Sort.Kind == SFP {
				return mk("fp.isNaN", BoolSort, t)
			}
			return False()
		case "inf":
			if c.FP {
				return mk("fpinf", FPSort)
			}
			specError("inf() needs float fp mode")
		}
		// Go type conversion to a named type of the package (e.g. Color(x), Key(x))
		if p := c.Eng.PkgBy[env.pkg]; p != nil && p.Types != nil {
			if obj := p.Types.Scope().Lookup(fn.Name); obj != nil {
				if tn, ok := obj.(*types.TypeName); ok {
					evalArgs()
					return c.specCastTo(env, tn.Type(), args[0], e.Args[1])
				}
			}
		}
		if sf, ok := c.Eng.Specs.SFuncs[fn.Name]; ok {
			evalArgs()
			return c.applySpecFunc(env, sf, args)
		}
		specError("unknown function %q in contract", fn.Name)
	}
	// method-style predicate: x.pred(args)  ==> pred(x, args)
	if fn.Kind == "sel" {
		if sf, ok := c.Eng.Specs.SFuncs[fn.Name]; ok {
			args = append(args, c.evalSpec(env, fn.Args[0]))
			evalArgs()
			return c.applySpecFunc(env, sf, args)
		}
		// real pure method with a contract marked pure? inline-evaluate tiny repo methods
		recv := c.evalSpec(env, fn.Args[0])
		evalArgs()
		if v, ok := c.pureMethod(env, recv, fn.Name, args); ok {
			return v
		}
		specError("unknown method/predicate %q in contract", fn.Name)
	}
	specError("cannot call %s", fn)
	return nil
}

func (c *Ctx) specCallLenPtr(env *SpecEnv, p PtrV) Value {
	v := c.selectDeref(env, p)
	switch x := v.(type) {
	case *ArrayV:
		return c.idx(int64(len(x.Elems)))
	case SliceV:
		return c.sliceLen(x)
	}
	specError("len of pointer to %s", showValue(v))
	return nil
}

func callMatches(callee, pat string) bool {
	if callee == pat {
		return true
	}
	// the summary record of a select statement lists its cases: only patterns about select statements match it
	if strings.HasPrefix(callee, "select:") && !strings.Contains(pat, "select:") {
		return false
	}
	if strings.HasSuffix(callee, "."+pat) || strings.HasSuffix(callee, ")."+pat) {
		return true
	}
	if strings.HasPrefix(pat, "*") && !strings.Contains(pat[1:], "*") && strings.Contains(callee, pat[1:]) {
		return true
	}
	if strings.Contains(pat, "*") && strings.Contains(strings.TrimPrefix(pat, "*"), "*") {
		// general glob: the pieces between the stars occur in this order (anchored at an end without a star)
		parts := strings.Split(pat, "*")
		rest := callee
		for i, p := range parts {
			if p == "" {
				continue
			}
			k := strings.Index(rest, p)
			if k < 0 || (i == 0 && k != 0) {
				return false
			}
			rest = rest[k+len(p):]
		}
		if last := parts[len(parts)-1]; last != "" && rest != "" {
			return strings.HasSuffix(callee, last)
		}
		return true
	}
	return false
}

func (c *Ctx) specCast(env *SpecEnv, tname string, v Value, src *SExpr) Value {
	alias := map[string]string{"u8": "uint8", "u16": "uint16", "u32": "uint32", "u64": "uint64", "i8": "int8", "i16": "int16", "i32": "int32", "i64": "int64", "byte": "uint8", "rune": "int32"}
	if a, ok := alias[tname]; ok {
		tname = a
	}
	var to types.Type
	for _, b := range types.Typ {
		if b.Name() == tname {
			to = b
		}
	}
	if to == nil {
		specError("unknown cast %s", tname)
	}
	return c.specCastTo(env, to, v, src)
}

func (c *Ctx) specCastTo(env *SpecEnv, to types.Type, v Value, src *SExpr) Value {
	if u, ok := v.(UntypedInt); ok {
		if isFloat(to) {
			return c.untypedTo(u, c.sortOfBasic(to))
		}
		return NumC(u.V, c.sortOfBasic(to))
	}
	t, ok := v.(*Term)
	if !ok {
		specError("cast of non-scalar %s", showValue(v))
	}
	if !isInteger(to) {
		return t
	}
	if c.BV && t.Sort.Kind == SBV {
		signed := c.specSigned(env, src)
		if t.Sort.Bits == 8 {
			signed = false // 8-bit values are bytes
		}
		return BVResize(t, intBits(to), signed)
	}
	if !c.BV && t.Sort.Kind == SInt {
		// mathematical cast: identity (contracts state ranges explicitly)
		return t
	}
	return t
}

func (c *Ctx) seqEq(env *SpecEnv, a, b Value) *Term {
	sa, ok1 := a.(SliceV)
	sb, ok2 := b.(SliceV)
	if !ok1 || !ok2 {
		specError("seqeq needs slices")
	}
	st := env.st
	la, lb := c.sliceLen(sa), c.sliceLen(sb)
	if !sa.Heap && !sb.Heap {
		if sa.CLen != sb.CLen {
			return False()
		}
		var cs []*Term
		for i := 0; i < sa.CLen; i++ {
			cs = append(cs, c.valueEq(st, c.specIndex(env, sa, c.idx(int64(i))), c.specIndex(env, sb, c.idx(int64(i)))))
		}
		return And(cs...)
	}
	k := CanonBound("kq", c.IntSort())
	expanded := And(Eq(la, lb), Forall([]*Term{k}, Implies(And(Cmp("<=", c.idx(0), k, true), Cmp("<", k, la, true)),
		c.valueEq(st, c.specIndex(env, sa, k), c.specIndex(env, sb, k)))))
	// Opaque form: an uninterpreted predicate of (contents, offset, length) of both sides, so that equal
	// arguments give equal truth values by congruence (solvers do not do congruence on quantified formulas).
	// For ground arguments the definition is assumed alongside (a definitional extension: always sound).
	if os.Getenv("GOVC_NO_OPAQUE_SEQEQ") == "" && sa.Heap && sb.Heap {
		lvs := c.leavesOf(sa.Elem)
		if len(lvs) == 1 && lvs[0].Kind == "scalar" {
			h := c.heapArr(st, lvs[0])
			app := App("seqeq."+c.modeTag()+"."+sanitize(lvs[0].Key), BoolSort, Select(h, sa.Ref), sa.Off, la, Select(h, sb.Ref), sb.Off, lb)
			if !app.open {
				st.assume(Eq(app, expanded))
			}
			return app
		}
	}
	return expanded
}

// applySpecFunc: non-recursive spec functions are macro-expanded; `rec` ones become UFs with
// their defining equation assumed for the actual arguments (one unfolding).
func (c *Ctx) applySpecFunc(env *SpecEnv, sf *SpecFunc, args []Value) Value {
	if len(args) != len(sf.Params) {
		specError("spec function %s expects %d arguments, got %d", sf.Name, len(sf.Params), len(args))
	}
	if sf.Uninterp || sf.Rec {
		var ts []*Term
		for i, a := range args {
			switch x := a.(type) {
			case *Term:
				ts = append(ts, x)
			case UntypedInt:
				ts = append(ts, c.untypedTo(x, c.specSort(env, sf.Params[i].Type)))
			case StrV:
				s := c.strSym(env.st, x)
				ts = append(ts, s.Arr, s.Off, s.Len)
				_ = s.ID
			case SliceV:
				hs := c.toHeapSlice(env.st, x, x.Elem)
				lvs := c.leavesOf(x.Elem)
				if len(lvs) != 1 {
					specError("slice of structs as argument of uninterpreted %s", sf.Name)
				}
				ts = append(ts, Select(c.heapArr(env.st, lvs[0]), hs.Ref), hs.Off, hs.Len)
			default:
				specError("argument %d of %s must be scalar/string/slice", i, sf.Name)
			}
		}
		res := c.specSort(env, sf.Res)
		app := App("spec."+sf.Name, res, ts...)
		if sf.Rec && !env.inUnfold(sf.Name) {
			// one-step unfolding: app == body[args]
			n := env.child()
			n.unfolding = append(append([]string(nil), env.unfolding...), sf.Name)
			for i, p := range sf.Params {
				n.vars[p.Name] = args[i]
			}
			body := c.evalSpec(n, sf.Body)
			if u, ok := body.(UntypedInt); ok {
				body = c.untypedTo(u, res)
			}
			env.st.assume(Eq(app, body.(*Term)))
		}
		return app
	}
	n := env.child()
	n.pkg = sf.Pkg
	if n.pkg == "" {
		n.pkg = env.pkg
	}
	n.frame = nil
	n.atLoop = nil
	for i, p := range sf.Params {
		a := args[i]
		if u, ok := a.(UntypedInt); ok && p.Type != "" && !strings.HasPrefix(p.Type, "[]") && !strings.HasPrefix(p.Type, "*") {
			if s := c.trySpecSort(env, p.Type); s != nil {
				a = c.untypedTo(u, s)
			}
		}
		n.vars[p.Name] = a
	}
	// keep bound variables etc. out: only parameters visible (plus globals)
	for k := range n.vars {
		found := false
		for _, p := range sf.Params {
			if p.Name == k {
				found = true
			}
		}
		if !found {
			delete(n.vars, k)
		}
	}
	r := c.evalSpec(n, sf.Body)
	if u, ok := r.(UntypedInt); ok && sf.Res != "" {
		if s := c.trySpecSort(env, sf.Res); s != nil {
			return c.untypedTo(u, s)
		}
	}
	return r
}

func (c *Ctx) trySpecSort(env *SpecEnv, t string) (s *Sort) {
	defer func() {
		if r := recover(); r != nil {
			s = nil
		}
	}()
	return c.specSort(env, t)
}

// pureMethod evaluates tiny repo methods inside contracts by running their SSA on the current state (no obligations).
func (c *Ctx) pureMethod(env *SpecEnv, recv Value, name string, args []Value) (Value, bool) {
	return nil, false
}

// ---- locations (modifies / havoc) ----

// havocLocation havocs the location denoted by path expression m, e.g. "v.viewx", "cb.cells[*]", "cb.cells[*].lastMain", "ghost g".
func (c *Ctx) havocLocation(env *SpecEnv, m string) {
	st := env.st
	m = strings.TrimSpace(m)
	if m == "nothing" || m == "" {
		return
	}
	if strings.HasPrefix(m, "ghost ") {
		g := strings.TrimSpace(m[6:])
		if v, ok := st.Ghost[g]; ok {
			st.Ghost[g] = c.havocGhost(st, g, v)
		}
		return
	}
	loc := c.resolveLocation(env, m)
	if os.Getenv("GOVC_DEBUG_HAVOC") != "" {
		fmt.Printf("havoc %q -> kind=%s obj=%v path=%v\n", m, loc.kind, loc.obj, loc.path)
	}
	switch loc.kind {
	case "obj":
		cur := c.mem(st, loc.obj)
		t := loc.obj.Typ
		for _, p := range loc.path {
			switch u := under(t).(type) {
			case *types.Struct:
				t = u.Field(p.Field).Type()
			case *types.Array:
				t = u.Elem()
			}
		}
		c.noteObjWrite(st, loc.obj, loc.path)
		st.Mem[loc.obj] = c.writePath(st, cur, loc.path, c.symbolic(st, t, "havoc."+sanitize(m)))
	case "heap":
		for _, lf := range c.leavesOf(loc.elem) {
			if !hasPrefix(lf.Path, loc.sub) {
				continue
			}
			c.noteHeapWrite(st, lf, loc.ref)
			h := c.heapArr(st, lf)
			st.Heap[lf.Key] = Store(h, loc.ref, Fresh("havoc."+lf.Key, ArraySort(c.IntSort(), lf.Sort)))
		}
	case "map":
		c.noteObjWrite(st, loc.obj, nil)
		st.Mem[loc.obj] = &MapObj{Abstract: true, Tag: c.freshName("havoc.map")}
	}
}

type location struct {
	kind string
	obj  *Object
	path []PathElem
	ref  *Term
	elem types.Type
	sub  []int
}

func (c *Ctx) resolveLocation(env *SpecEnv, m string) location {
	// syntax: base(.field)*([*](.field)*)?
	star := strings.Index(m, "[*]")
	head := m
	tail := ""
	if star >= 0 {
		head = m[:star]
		tail = strings.TrimPrefix(m[star+3:], ".")
	}
	parts := strings.Split(head, ".")
	base, ok := env.vars[parts[0]]
	if !ok {
		base = c.specIdent(env, parts[0])
	}
	var obj *Object
	var path []PathElem
	var cur Value = base
	st := env.st
	for i := 0; i <= len(parts)-1; i++ {
		if i > 0 {
			// select field parts[i] in cur (struct)
			sv, ok := cur.(*StructV)
			if !ok {
				specError("modifies path %s: %s is not a struct", m, strings.Join(parts[:i], "."))
			}
			stt := under(sv.Typ).(*types.Struct)
			found := false
			for f := 0; f < stt.NumFields(); f++ {
				if stt.Field(f).Name() == parts[i] {
					path = append(path, PathElem{Field: f})
					cur = sv.F[f]
					found = true
					break
				}
			}
			if !found {
				specError("modifies path %s: no field %s", m, parts[i])
			}
		}
		// auto-deref pointers
		if p, ok := cur.(PtrV); ok {
			if p.Sym != nil {
				obj = c.materialise(st, p)
				path = nil
			} else if p.Obj != nil {
				obj = p.Obj
				path = append([]PathElem(nil), p.Path...)
			} else {
				specError("modifies path %s: unsupported pointer", m)
			}
			cur = c.readPath(st, c.mem(st, obj), path)
		}
	}
	if star < 0 {
		if mv, ok := cur.(MapV); ok {
			return location{kind: "map", obj: mv.Obj}
		}
		if obj == nil {
			specError("modifies path %s does not denote memory", m)
		}
		return location{kind: "obj", obj: obj, path: path}
	}
	sl, ok := cur.(SliceV)
	if !ok || !sl.Heap {
		if ok && !sl.Heap && sl.Obj != nil {
			return location{kind: "obj", obj: sl.Obj}
		}
		specError("modifies path %s: [*] needs a symbolic slice", m)
	}
	var sub []int
	if tail != "" {
		t := sl.Elem
		for _, fn := range strings.Split(tail, ".") {
			stt, ok := under(t).(*types.Struct)
			if !ok {
				specError("modifies path %s: %s not a struct", m, t)
			}
			found := false
			for f := 0; f < stt.NumFields(); f++ {
				if stt.Field(f).Name() == fn {
					sub = append(sub, f)
					t = stt.Field(f).Type()
					found = true
					break
				}
			}
			if !found {
				specError("modifies path %s: no field %s", m, fn)
			}
		}
	}
	return location{kind: "heap", ref: sl.Ref, elem: sl.Elem, sub: sub}
}

// ---- ghost ----

func (c *Ctx) ghostAssign(env *SpecEnv, g GhostStmt) {
	v := c.evalSpec(env, g.Expr)
	if u, ok := v.(UntypedInt); ok {
		v = NumC(u.V, c.IntSort())
	}
	if env.st.Disc != nil {
		env.st.Disc.Ghosts[g.Name] = true
	}
	env.st.Ghost[g.Name] = v
}

func (c *Ctx) ghostAt(st *State, fr *Frame, at string, loop *Loop) {
	sp := fr.Spec
	if sp == nil {
		return
	}
	for _, g := range sp.Ghost {
		if g.At == at {
			env := c.specEnvFor(st, fr)
			env.atLoop = loop
			c.ghostAssign(env, g)
		}
	}
}

// checkCalls evaluates `calls` clauses of the function under verification at a path end.
func (c *Ctx) checkCalls(st *State, fr *Frame, where string) {
	if fr.Fn != c.Fn || c.Spec == nil {
		return
	}
	c.callsAtReturn = where == "return"
	if os.Getenv("GOVC_DEBUG_CALLS") != "" {
		fmt.Printf("checkCalls where=%s loops=%d log=%d disc=%v\n", where, len(st.Loops), len(st.CallLog), st.Disc != nil)
	}
	c.callsAtLoop = nil
	{
		for i := len(st.Loops) - 1; i >= 0; i-- {
			if al := st.Loops[i]; al.L != nil && al.L.Header.Parent() == fr.Fn {
				c.callsAtLoop = al.L // clauses judged inside a cut loop see the loop's variables (rangeindex, ...)
				break
			}
		}
	}
	if c.callsAtLoop == nil && st.LastLoop != nil && st.LastLoop.Header.Parent() == fr.Fn {
		c.callsAtLoop = st.LastLoop
	}
	for i, cl := range c.Spec.Calls {
		c.checkCallClause(st, fr, cl, i)
	}
}

// call clause forms:
//   forall call Name(a, b, c) :: cond         -- encoded as: call(Name, a, b, c) ==> cond
//   count(Name) <= 1                           -- via calls(Name)
func (c *Ctx) checkCallClause(st *State, fr *Frame, cl Clause, i int) {
	e := cl.Expr
	lbl := cl.Label
	if lbl == "" {
		lbl = fmt.Sprint(i + 1)
	}
	name := fmt.Sprintf("%s/calls#%s", fnDisplay(c.Fn), lbl)
	if e.Kind == "binary" && e.Op == "==>" && e.Args[0].Kind == "call" && e.Args[0].Args[0].Kind == "ident" && e.Args[0].Args[0].Name == "pair" {
		// pair(NameA, a, NameB, b) ==> cond: every logged B is preceded by an A (the most recent one is bound to a)
		pa := e.Args[0].Args
		if len(pa) < 5 {
			specError("pair(NameA, a, NameB, b [, b2 ...])")
		}
		nameA, nameB := pa[1].Name, pa[3].Name
		first := func(r CallRec) Value {
			if len(r.Args) > 0 {
				return r.Args[0]
			}
			return r.Ret
		}
		n := 0
		for bi, rb := range st.CallLog {
			if !callMatches(rb.Callee, nameB) {
				continue
			}
			n++
			ai := -1
			for k := bi - 1; k >= 0; k-- {
				if callMatches(st.CallLog[k].Callee, nameA) {
					ai = k
					break
				}
			}
			var t *Term
			if ai < 0 {
				t = False()
			} else {
				env := c.specEnvFor(st, fr)
				env.atLoop = c.callsAtLoop
				if c.callsAtReturn {
					env.result, env.hasResult = c.curRet, true
				}
				env.vars[pa[2].Name] = first(st.CallLog[ai])
				if len(pa) == 5 {
					env.vars[pa[4].Name] = first(rb)
				} else {
					// several binders for B: its arguments in order (receiver first for methods)
					for k := 4; k < len(pa); k++ {
						if k-4 < len(rb.Args) {
							env.vars[pa[k].Name] = rb.Args[k-4]
						} else {
							specError("pair: " + nameB + " has fewer arguments than binders")
						}
					}
				}
				t = c.evalBool(env, e.Args[1])
				if st.CallLog[ai].Cond != nil {
					t = Implies(st.CallLog[ai].Cond, t)
				}
			}
			if rb.Cond != nil {
				t = Implies(rb.Cond, t)
			}
			c.oblige(st, name, "calls", t, cl.Src, token.NoPos)
		}
		if n == 0 {
			c.oblige(st, name, "calls", True(), cl.Src, token.NoPos)
		}
		return
	}
	if e.Kind == "binary" && e.Op == "==>" && e.Args[0].Kind == "call" && e.Args[0].Args[0].Kind == "ident" && e.Args[0].Args[0].Name == "call" {
		pat := e.Args[0].Args[1]
		pname := pat.Name
		binders := e.Args[0].Args[2:]
		n := 0
		for _, r := range st.CallLog {
			if !callMatches(r.Callee, pname) {
				continue
			}
			n++
			env := c.specEnvFor(st, fr)
			env.atLoop = c.callsAtLoop
			if c.callsAtReturn {
				env.result, env.hasResult = c.curRet, true
			}
			for k, b := range binders {
				if b.Kind != "ident" {
					specError("call pattern binders must be identifiers")
				}
				if b.Name == "_" {
					continue
				}
				if k < len(r.Args) {
					env.vars[b.Name] = r.Args[k]
				} else if k == len(r.Args) && r.Ret != nil {
					env.vars[b.Name] = r.Ret // one binder more than arguments: the result
				}
			}
			t := c.evalBool(env, e.Args[1])
			if r.Cond != nil {
				t = Implies(r.Cond, t)
			}
			c.oblige(st, name, "calls", t, cl.Src, token.NoPos)
		}
		if n == 0 {
			c.oblige(st, name, "calls", True(), cl.Src, token.NoPos)
		}
		return
	}
	env := c.specEnvFor(st, fr)
	if c.callsAtReturn {
		env.result, env.hasResult = c.curRet, true
	}
	c.oblige(st, name, "calls", c.evalBool(env, e), cl.Src, token.NoPos)
}

func (e *SpecEnv) inUnfold(name string) bool {
	for _, n := range e.unfolding {
		if n == name {
			return true
		}
	}
	return false
}

// normRune: string conversion maps surrogates and out-of-range values to U+FFFD.
func (c *Ctx) normRune(r *Term) *Term {
	k := func(v int64) *Term { return NumC(big.NewInt(v), r.Sort) }
	valid := Or(And(Cmp(">=", r, k(0), true), Cmp("<", r, k(0xD800), true)), And(Cmp(">=", r, k(0xE000), true), Cmp("<=", r, k(0x10FFFF), true)))
	return Ite(valid, r, k(0xFFFD))
}

func (c *Ctx) strOfRunes(env *SpecEnv, s StrV, main *Term, comb SliceV) *Term {
	_ = env.st
	if s.Rope != nil {
		ps := flattenRope(s)
		if len(ps) == 1 {
			s = ps[0]
		}
	}
	clen := c.sliceLen(comb)
	zero := c.idx(0)
	switch {
	case s.Spec == "ite":
		cond := s.SArgs[0].(*Term)
		return Ite(cond, c.strOfRunes(env, s.SArgs[1].(StrV), main, comb), c.strOfRunes(env, s.SArgs[2].(StrV), main, comb))
	case s.Spec == "runestr":
		r := s.SArgs[0].(*Term)
		return And(Eq(clen, zero), Eq(c.normRune(r), c.normRune(main)))
	case s.Spec == "runesstr":
		arr, off, ln := s.SArgs[0].(*Term), s.SArgs[1].(*Term), s.SArgs[2].(*Term)
		k := BoundVar("k", c.IntSort())
		ce, ok := c.specIndex(env, comb, k).(*Term)
		if !ok {
			specError("strOfRunes: comb element is not a scalar")
		}
		return And(Eq(ln, Arith("+", clen, c.idx(1))),
			Eq(c.normRune(Select(arr, off)), c.normRune(main)),
			Forall([]*Term{k}, Implies(And(Cmp("<=", zero, k, true), Cmp("<", k, clen, true)),
				Eq(c.normRune(Select(arr, Arith("+", off, Arith("+", k, c.idx(1))))), c.normRune(ce)))))
	case s.Conc != nil:
		rs := []rune(*s.Conc)
		if len(rs) == 0 {
			return False()
		}
		if !comb.Heap {
			// concrete comb: compare rune by rune
			if comb.Obj == nil && len(rs) == 1 || comb.Obj != nil && comb.CLen == len(rs)-1 {
				cs := []*Term{Eq(c.normRune(main), NumC(big.NewInt(int64(rs[0])), main.Sort))}
				for i := 1; i < len(rs); i++ {
					ce := c.specIndex(env, comb, c.idx(int64(i-1))).(*Term)
					cs = append(cs, Eq(c.normRune(ce), NumC(big.NewInt(int64(rs[i])), ce.Sort)))
				}
				return And(cs...)
			}
			return False()
		}
		cs := []*Term{Eq(clen, c.idx(int64(len(rs)-1))), Eq(c.normRune(main), NumC(big.NewInt(int64(rs[0])), main.Sort))}
		for i := 1; i < len(rs); i++ {
			ce := c.specIndex(env, comb, c.idx(int64(i-1))).(*Term)
			cs = append(cs, Eq(c.normRune(ce), NumC(big.NewInt(int64(rs[i])), ce.Sort)))
		}
		return And(cs...)
	}
	specError("strOfRunes: unsupported string form %s", showValue(s))
	return nil
}

// countedNames: the names N of all calls(N) expressions in the contract of the function under verification.
func (c *Ctx) countedNames() []string {
	if c.Spec == nil {
		return nil
	}
	seen := map[string]bool{}
	var out []string
	var walk func(e *SExpr)
	walk = func(e *SExpr) {
		if e == nil {
			return
		}
		if e.Kind == "call" && len(e.Args) == 2 && e.Args[0].Kind == "ident" && e.Args[0].Name == "calls" {
			if n := e.Args[1].Name; !seen[n] {
				seen[n] = true
				out = append(out, n)
			}
		}
		for _, a := range e.Args {
			walk(a)
		}
	}
	for _, en := range c.Spec.Ensures {
		walk(en.Expr)
	}
	for _, cl := range c.Spec.Calls {
		walk(cl.Expr)
	}
	return out
}

// checkCountedCalls: at the back edge of a cut loop, the iteration made no call that a calls(Name) count of the
// contract refers to (otherwise the count at exit, which cannot see the iterations, would be wrong).
func (c *Ctx) checkCountedCalls(st *State, fr *Frame, loop *Loop, al *ActiveLoop) {
	if fr.Fn != c.Fn || al == nil {
		return
	}
	for _, n := range c.countedNames() {
		var cs []*Term
		for i := al.LogLen; i < len(st.CallLog); i++ {
			r := st.CallLog[i]
			if callMatches(r.Callee, n) {
				if r.Cond != nil {
					cs = append(cs, Not(r.Cond))
				} else {
					cs = append(cs, False())
				}
			}
		}
		c.oblige(st, fmt.Sprintf("%s/loop%s/no-counted-call#%s", fnDisplay(c.Fn), loop.ID, sanitize(n)), "calls", And(cs...),
			"calls("+n+") is counted by the contract: no iteration of the cut loop may make such a call", loop.Pos)
	}
}
