package main

// Symbolic state: engine-side store + SMT heap for symbolic-length slices.

import (
	"fmt"
	"go/types"
	"math/big"
	"strconv"
	"strings"

	"golang.org/x/tools/go/ssa"
)

type Obligation struct {
	Name   string
	Kind   string // ensures invariant-entry invariant-preserved decreases requires bounds nil div assert frame ...
	Fn     string
	PC     []*Term
	Claim  *Term
	Src    string // source text of the clause, if any
	Pos    string
	Canary bool // must FAIL (vacuity guard)
	Path   int
	Ctx    *Ctx
	ReplayGo string // custom replay: Go test body run against the real code
	ReplayDir string
}

type CallRec struct {
	Callee string
	Args   []Value
	Names  []string
	Cond   *Term
	Ret    Value
}

type Frame struct {
	Fn       *ssa.Function
	Env      map[ssa.Value]Value
	Block    *ssa.BasicBlock
	Prev     *ssa.BasicBlock
	PC       int // instruction index in block
	Defers   []deferred
	CallInst ssa.CallInstruction // in caller
	Results  Value
	Locals   map[string]*Object // named allocs
	Old      *Snapshot          // state at entry (for contracts when verified top-level)
	Spec     *FuncSpec
	Params   map[string]Value
	Lets     map[string]Value
	RetVal   Value
	Depth    int
}

type deferred struct {
	Fn   Value
	Args []Value
	Call *ssa.Defer
}

type Snapshot struct {
	Mem   map[*Object]Value
	Heap  map[string]*Term
	Ghost map[string]Value
}

type ActiveLoop struct {
	L       *Loop
	Header  *ssa.BasicBlock
	Frame   int // frame depth
	Variant *Term
	Entry   *Snapshot
	Spec    *LoopSpec
	ID      string
	Written *WriteSet
	LogLen  int // length of the ghost call log when the loop was cut
	AllocMark *Term // heap allocation mark at the head of the iteration
	ObjMark   int   // engine object counter at the head of the iteration
}

type WriteSet struct {
	ObjPaths map[string]objPath // key: objID + path
	HeapRefs map[string]heapRef // key: leaf + ref id
	WholeHeap map[string]bool   // leaf keys havoced entirely
	FreshStart int             // discovery: value of the fresh-symbol counter when the loop was entered
	NameStart  int             // same for the counter behind freshName
	Ghosts   map[string]bool
	MaxID    int
}

type objPath struct {
	Obj  *Object
	Path []int
}
type heapRef struct {
	Leaf string
	Ref  *Term
	Sort *Sort
}

func newWriteSet() *WriteSet {
	return &WriteSet{ObjPaths: map[string]objPath{}, HeapRefs: map[string]heapRef{}, WholeHeap: map[string]bool{}, Ghosts: map[string]bool{}}
}

type State struct {
	Frames  []*Frame
	Mem     map[*Object]Value
	Heap    map[string]*Term
	PC      []*Term
	pcSeen  map[int]bool
	Alloc   *Term // next fresh heap ref (Int)
	CallLog []CallRec
	Ghost   map[string]Value
	Loops   []*ActiveLoop
	SymObjs map[int]*Object // sym pointer term id -> materialised object
	Disc    *WriteSet       // non-nil: discovery mode (obligations suppressed, writes recorded)
	Record  []*WriteSet     // active loop write-sets to validate against
	PathID  int
	Steps   int
	Clock   *Term
	CutLoops int
	LastLoop *Loop // the cut loop left most recently (its variables are still meaningful to clauses judged at a return)
}

func (st *State) clone() *State {
	n := &State{Alloc: st.Alloc, Disc: st.Disc, PathID: st.PathID, Steps: st.Steps, Clock: st.Clock, CutLoops: st.CutLoops, LastLoop: st.LastLoop}
	n.Frames = make([]*Frame, len(st.Frames))
	for i, f := range st.Frames {
		nf := *f
		nf.Env = make(map[ssa.Value]Value, len(f.Env))
		for k, v := range f.Env {
			nf.Env[k] = v
		}
		nf.Defers = append([]deferred(nil), f.Defers...)
		n.Frames[i] = &nf
	}
	n.Mem = make(map[*Object]Value, len(st.Mem))
	for k, v := range st.Mem {
		n.Mem[k] = v
	}
	n.Heap = make(map[string]*Term, len(st.Heap))
	for k, v := range st.Heap {
		n.Heap[k] = v
	}
	n.PC = append([]*Term(nil), st.PC...)
	n.pcSeen = make(map[int]bool, len(st.pcSeen))
	for k := range st.pcSeen {
		n.pcSeen[k] = true
	}
	n.CallLog = append([]CallRec(nil), st.CallLog...)
	n.Ghost = make(map[string]Value, len(st.Ghost))
	for k, v := range st.Ghost {
		n.Ghost[k] = v
	}
	n.Loops = append([]*ActiveLoop(nil), st.Loops...)
	n.SymObjs = make(map[int]*Object, len(st.SymObjs))
	for k, v := range st.SymObjs {
		n.SymObjs[k] = v
	}
	n.Record = append([]*WriteSet(nil), st.Record...)
	return n
}

func (st *State) snapshot() *Snapshot {
	s := &Snapshot{Mem: make(map[*Object]Value, len(st.Mem)), Heap: make(map[string]*Term, len(st.Heap)), Ghost: map[string]Value{}}
	for k, v := range st.Mem {
		s.Mem[k] = v
	}
	for k, v := range st.Heap {
		s.Heap[k] = v
	}
	for k, v := range st.Ghost {
		s.Ghost[k] = v
	}
	return s
}

func (st *State) assume(t *Term) {
	if t.IsTrue() {
		return
	}
	if t.open {
		// facts mentioning a bound variable (type-range facts of reads at bound indices) never enter the path condition
		return
	}
	if st.pcSeen == nil {
		st.pcSeen = map[int]bool{}
	}
	if t.Op == "and" {
		for _, a := range t.Args {
			st.assume(a)
		}
		return
	}
	if st.pcSeen[t.id] {
		return
	}
	st.pcSeen[t.id] = true
	st.PC = append(st.PC, t)
}

func (st *State) top() *Frame { return st.Frames[len(st.Frames)-1] }

// pcKnows: cheap syntactic check whether pc contains the literal.
func (st *State) pcKnows(t *Term) bool {
	if t.IsTrue() {
		return true
	}
	return st.pcSeen[t.id]
}

// ---- verification context ----

type VerErr struct{ Msg string }

func (e VerErr) Error() string { return e.Msg }

func unsupported(f string, a ...interface{}) { panic(VerErr{"UNSUPPORTED: " + fmt.Sprintf(f, a...)}) }
func specError(f string, a ...interface{})   { panic(VerErr{"SPEC-ERROR: " + fmt.Sprintf(f, a...)}) }

type Ctx struct {
	Eng     *Engine
	Fn      *ssa.Function
	Spec    *FuncSpec
	BV      bool
	FP      bool
	Obs     []*Obligation
	Assumed map[string]bool // assumptions used (for evidence)
	Inlined map[string]bool
	UsedSpecs map[string]bool
	instName map[ssa.Instruction]string
	loopInfo map[*ssa.Function]*LoopInfo
	nobj     int
	nfresh   int
	paths    int
	maxPaths int
	maxSteps int
	ExitCanary bool
	Paths    int
	EndedPaths int
	Trace    bool
	Notes    []string
	curState *State
	callsAtReturn bool
	callsAtLoop *Loop
	curRet Value
	InitGlobals bool
	MapReverse bool
	replayPtrs map[uint64]*Object
	replayFresh map[*Object]bool
	replayPost bool
	NoMerge bool
	Merges int
	ParamVals []Value
	InitSym map[int]*Object
	InlineAll bool
	objByID  map[int]*Object
	entryObjs int // engine object counter when the function body starts
	JSVals   map[int64]Value // EV mode: concrete values behind js.Value refs (C19 table evaluation)
	alloc0   *Term
	isolated map[int]string // path-condition facts (by term id) that come from an isolated loop invariant
	initVals map[*Object]Value
	globals  map[*ssa.Global]*Object
}

func (c *Ctx) IntSort() *Sort {
	if c.BV {
		return BVSort(64)
	}
	return IntSort
}

func (c *Ctx) sortOfBasic(t types.Type) *Sort {
	b, ok := under(t).(*types.Basic)
	if !ok {
		unsupported("scalar sort of %s", t)
	}
	switch {
	case b.Info()&types.IsBoolean != 0:
		return BoolSort
	case b.Info()&types.IsInteger != 0:
		if c.BV {
			return BVSort(intBits(t))
		}
		return IntSort
	case b.Info()&types.IsFloat != 0:
		if c.FP {
			return FPSort
		}
		return RealSort
	case b.Kind() == types.UnsafePointer:
		return IntSort
	}
	unsupported("scalar sort of %s", t)
	return nil
}

func (c *Ctx) byteSort() *Sort {
	if c.BV {
		return BVSort(8)
	}
	return IntSort
}

func (c *Ctx) intC(v int64, t types.Type) *Term {
	return NumC(big.NewInt(v), c.sortOfBasic(t))
}

func (c *Ctx) idx(v int64) *Term { return NumC(big.NewInt(v), c.IntSort()) }

// rangeFact returns the type-range constraint for an integer term of Go type t (math mode only).
func (c *Ctx) rangeFact(x *Term, t types.Type) *Term {
	if c.BV || !isInteger(t) {
		return True()
	}
	lo, hi := typeRange(t)
	return And(Cmp("<=", IntBig(lo), x, true), Cmp("<=", x, IntBig(hi), true))
}

func (c *Ctx) newObject(name string, t types.Type) *Object {
	c.nobj++
	o := &Object{ID: c.nobj, Name: name, Typ: t}
	if c.objByID == nil {
		c.objByID = map[int]*Object{}
	}
	c.objByID[o.ID] = o
	return o
}

// fromInitialHeap: t is a read of the entry heap (no store in between); only such reads carry the input type
// invariants (pointer identities >= 0) - stored values may be engine objects, whose identities are negative.
func fromInitialHeap(t *Term) bool {
	return t.Op == "select" && len(t.Args) == 2 && t.Args[0].Op == "select" && t.Args[0].Args[0].Op == "var"
}

var globalFresh int

func (c *Ctx) freshName(p string) string {
	globalFresh++
	return fmt.Sprintf("%s_%d", sanitize(p), globalFresh)
}

// symbolic builds a fresh symbolic value of type t. Constraints go to st.PC.
func (c *Ctx) symbolic(st *State, t types.Type, name string) Value {
	switch u := under(t).(type) {
	case *types.Basic:
		if isString(t) {
			id := Var(c.freshName(name+".str"), IntSort)
			st.assume(Cmp(">=", id, IntC(0), true))
			return c.strOfID(st, id)
		}
		if u.Kind() == types.UntypedNil {
			return nil
		}
		v := Var(c.freshName(name), c.sortOfBasic(t))
		st.assume(c.rangeFact(v, t))
		return v
	case *types.Struct:
		sv := &StructV{Typ: t}
		for i := 0; i < u.NumFields(); i++ {
			sv.F = append(sv.F, c.symbolic(st, u.Field(i).Type(), name+"."+u.Field(i).Name()))
		}
		return sv
	case *types.Array:
		if u.Len() > 512 {
			unsupported("symbolic array of length %d", u.Len())
		}
		av := &ArrayV{Elem: u.Elem()}
		for i := int64(0); i < u.Len(); i++ {
			av.Elems = append(av.Elems, c.symbolic(st, u.Elem(), fmt.Sprintf("%s[%d]", name, i)))
		}
		return av
	case *types.Slice:
		return c.symbolicSlice(st, u.Elem(), name)
	case *types.Pointer:
		s := Var(c.freshName(name+".ptr"), IntSort)
		st.assume(Cmp(">=", s, IntC(0), true))
		return PtrV{Sym: s, Typ: u.Elem()}
	case *types.Interface:
		s := Var(c.freshName(name+".iface"), IntSort)
		st.assume(Cmp(">=", s, IntC(0), true))
		return IfaceV{Sym: s, Iface: t}
	case *types.Map:
		o := c.newObject(name, t)
		st.Mem[o] = &MapObj{Abstract: true, Tag: c.freshName(name)}
		return MapV{Obj: o, Typ: u}
	case *types.Signature:
		s := Var(c.freshName(name+".func"), IntSort)
		return FuncV{Sym: s}
	case *types.Chan:
		s := Var(c.freshName(name+".chan"), IntSort)
		return ChanV{Sym: s}
	}
	unsupported("symbolic value of type %s", t)
	return nil
}

func (c *Ctx) symbolicSlice(st *State, elem types.Type, name string) SliceV {
	ref := Var(c.freshName(name+".ref"), IntSort)
	// input slices are modelled as starting at the beginning of their array: the code never observes the offset,
	// and two distinct input slices are assumed not to overlap partially (recorded assumption)
	off := c.idx(0)
	c.Assumed["input slices start at offset 0 of their backing array; distinct input slices do not partially overlap"] = true
	ln := Var(c.freshName(name+".len"), c.IntSort())
	cp := Var(c.freshName(name+".cap"), c.IntSort())
	sv := SliceV{Elem: elem, Heap: true, Ref: ref, Off: off, Len: ln, Cap: cp}
	st.assume(c.sliceWF(st, sv))
	return sv
}

func (c *Ctx) sliceWF(st *State, s SliceV) *Term {
	z := c.idx(0)
	fs := []*Term{
		Cmp(">=", s.Ref, IntC(0), true),
		Cmp("<", s.Ref, st.Alloc, true),
		Cmp(">=", s.Off, z, true),
		Cmp(">=", s.Len, z, true),
		Cmp("<=", s.Len, s.Cap, true),
		Implies(Eq(s.Ref, IntC(0)), And(Eq(s.Len, z), Eq(s.Cap, z))),
	}
	if !c.BV {
		fs = append(fs, Cmp("<=", s.Cap, IntBig(new(big.Int).Lsh(big.NewInt(1), 40)), true),
			Cmp("<=", s.Off, IntBig(new(big.Int).Lsh(big.NewInt(1), 40)), true))
	} else {
		m := BVC(new(big.Int).Lsh(big.NewInt(1), 40), 64)
		fs = append(fs, Cmp("<=", s.Cap, m, true), Cmp("<=", s.Off, m, true))
	}
	return And(fs...)
}

// ---- heap leaves ----

type leaf struct {
	Path []int
	Kind string // scalar, sref, soff, slen, scap, ptr, iface
	Sort *Sort
	Typ  types.Type
	Key  string
}

func (c *Ctx) leavesOf(elem types.Type) []leaf {
	var out []leaf
	base := typeKey(elem)
	var rec func(t types.Type, path []int)
	rec = func(t types.Type, path []int) {
		ps := ""
		for _, p := range path {
			ps += fmt.Sprintf(".%d", p)
		}
		mk := func(kind string, s *Sort) {
			out = append(out, leaf{Path: append([]int(nil), path...), Kind: kind, Sort: s, Typ: t, Key: base + ps + "#" + kind})
		}
		switch u := under(t).(type) {
		case *types.Basic:
			if isString(t) {
				mk("str", IntSort)
				return
			}
			mk("scalar", c.sortOfBasic(t))
		case *types.Struct:
			for i := 0; i < u.NumFields(); i++ {
				rec(u.Field(i).Type(), append(path, i))
			}
		case *types.Slice:
			mk("sref", IntSort)
			mk("soff", c.IntSort())
			mk("slen", c.IntSort())
			mk("scap", c.IntSort())
		case *types.Pointer:
			mk("ptr", IntSort)
		case *types.Interface:
			mk("iface", IntSort)
		case *types.Signature:
			mk("func", IntSort)
		case *types.Map:
			mk("map", IntSort)
		case *types.Array:
			for i := 0; i < int(u.Len()); i++ {
				rec(u.Elem(), append(path, i))
			}
		default:
			unsupported("heap leaf of type %s", t)
		}
	}
	rec(elem, nil)
	return out
}

func (c *Ctx) heapArr(st *State, lf leaf) *Term {
	if a, ok := st.Heap[lf.Key]; ok {
		return a
	}
	a := Var("heap0."+c.modeTag()+"."+sanitize(lf.Key), ArraySort(IntSort, ArraySort(c.IntSort(), lf.Sort)))
	st.Heap[lf.Key] = a
	return a
}

func hasPrefix(p, pre []int) bool {
	if len(p) < len(pre) {
		return false
	}
	for i := range pre {
		if p[i] != pre[i] {
			return false
		}
	}
	return true
}

// heapRead reads the sub-value at `path` of element idx of array ref (element type elem).
func (c *Ctx) heapRead(st *State, elem types.Type, ref, idx *Term, path []int) Value {
	t := elem
	for _, p := range path {
		switch u := under(t).(type) {
		case *types.Struct:
			t = u.Field(p).Type()
		case *types.Array:
			t = u.Elem()
		}
	}
	lvs := c.leavesOf(elem)
	get := func(p []int, kind string) *Term {
		for _, lf := range lvs {
			if lf.Kind == kind && len(lf.Path) == len(p) && hasPrefix(lf.Path, p) {
				return Select(Select(c.heapArr(st, lf), ref), idx)
			}
		}
		panic("heap leaf not found")
	}
	var build func(t types.Type, p []int) Value
	build = func(t types.Type, p []int) Value {
		switch u := under(t).(type) {
		case *types.Basic:
			if isString(t) {
				return c.strOfID(st, get(p, "str"))
			}
			v := get(p, "scalar")
			st.assume(c.rangeFact(v, t))
			return v
		case *types.Struct:
			sv := &StructV{Typ: t}
			for i := 0; i < u.NumFields(); i++ {
				sv.F = append(sv.F, build(u.Field(i).Type(), append(append([]int(nil), p...), i)))
			}
			return sv
		case *types.Slice:
			s := SliceV{Elem: u.Elem(), Heap: true, Ref: get(p, "sref"), Off: get(p, "soff"), Len: get(p, "slen"), Cap: get(p, "scap")}
			st.assume(c.sliceWF(st, s))
			return s
		case *types.Pointer:
			s := get(p, "ptr")
			if fromInitialHeap(s) {
				st.assume(Cmp(">=", s, IntC(0), true))
			}
			if isNum(s) && s.Val.Sign() < 0 {
				if o := c.objByID[int(-s.Val.Int64())]; o != nil {
					return PtrV{Obj: o}
				}
			}
			return PtrV{Sym: s, Typ: u.Elem()}
		case *types.Interface:
			s := get(p, "iface")
			if fromInitialHeap(s) {
				st.assume(Cmp(">=", s, IntC(0), true))
			}
			if isNum(s) && s.Val.Sign() < 0 {
				// an engine object stored earlier (identity = -object id): the interface holds a pointer to it
				if o := c.objByID[int(-s.Val.Int64())]; o != nil {
					return IfaceV{Dyn: types.NewPointer(o.Typ), Val: PtrV{Obj: o}, Iface: t}
				}
			}
			return IfaceV{Sym: s, Iface: t}
		case *types.Signature:
			return FuncV{Sym: get(p, "func")}
		case *types.Array:
			av := &ArrayV{Elem: u.Elem()}
			for i := 0; i < int(u.Len()); i++ {
				av.Elems = append(av.Elems, build(u.Elem(), append(append([]int(nil), p...), i)))
			}
			return av
		}
		unsupported("heap read of %s", t)
		return nil
	}
	return build(t, path)
}

// heapWrite stores v (of the type at `path` within elem) into element idx of array ref.
func (c *Ctx) heapWrite(st *State, elem types.Type, ref, idx *Term, path []int, v Value) {
	lvs := c.leavesOf(elem)
	set := func(p []int, kind string, val *Term) {
		for _, lf := range lvs {
			if lf.Kind == kind && len(lf.Path) == len(p) && hasPrefix(lf.Path, p) {
				c.noteHeapWrite(st, lf, ref)
				h := c.heapArr(st, lf)
				st.Heap[lf.Key] = Store(h, ref, Store(Select(h, ref), idx, val))
				return
			}
		}
		panic("heap leaf not found for write")
	}
	t := elem
	for _, p := range path {
		switch u := under(t).(type) {
		case *types.Struct:
			t = u.Field(p).Type()
		case *types.Array:
			t = u.Elem()
		}
	}
	var put func(t types.Type, p []int, v Value)
	put = func(t types.Type, p []int, v Value) {
		switch u := under(t).(type) {
		case *types.Basic:
			if isString(t) {
				set(p, "str", c.strID(st, v.(StrV)))
				return
			}
			set(p, "scalar", v.(*Term))
		case *types.Struct:
			sv := v.(*StructV)
			for i := 0; i < u.NumFields(); i++ {
				put(u.Field(i).Type(), append(append([]int(nil), p...), i), sv.F[i])
			}
		case *types.Slice:
			s := c.toHeapSlice(st, v, u.Elem())
			set(p, "sref", s.Ref)
			set(p, "soff", s.Off)
			set(p, "slen", s.Len)
			set(p, "scap", s.Cap)
		case *types.Pointer:
			set(p, "ptr", c.ptrIdent(st, v))
		case *types.Interface:
			set(p, "iface", c.ifaceIdent(st, v))
		case *types.Array:
			av := v.(*ArrayV)
			for i := 0; i < int(u.Len()); i++ {
				put(u.Elem(), append(append([]int(nil), p...), i), av.Elems[i])
			}
		default:
			unsupported("heap write of %s", t)
		}
	}
	put(t, path, v)
}

func (c *Ctx) noteHeapWrite(st *State, lf leaf, ref *Term) {
	k := lf.Key + "@" + fmt.Sprint(ref.id)
	if st.Disc != nil {
		if st.Disc.NameStart > 0 && mentionsFreshAfter(ref, st.Disc.FreshStart, st.Disc.NameStart) {
			if allocatedInside(ref, st.Disc.FreshStart) {
				// a region allocated in this iteration (its reference is an allocation mark taken inside the
				// loop body): it lies above every region that existed at loop entry, nothing to havoc at the cut
			} else {
				// the region written is named by a symbol created inside the loop body (e.g. the slice a callee's
				// contract hands back): it has another name on every pass, and it may be any region - the whole
				// leaf is havoced at the cut
				st.Disc.WholeHeap[lf.Key] = true
			}
		} else {
			st.Disc.HeapRefs[k] = heapRef{Leaf: lf.Key, Ref: ref, Sort: ArraySort(c.IntSort(), lf.Sort)}
		}
	}
	for _, ws := range st.Record {
		if ws.WholeHeap[lf.Key] {
			continue
		}
		if ws.NameStart > 0 && allocatedInside(ref, ws.FreshStart) {
			continue
		}
		if _, ok := ws.HeapRefs[k]; !ok {
			panic(VerErr{fmt.Sprintf("FRAME-DISCOVERY: loop writes heap location %s[%s] not found by discovery", lf.Key, ref)})
		}
	}
}

// ptrIdent gives an Int identity for a pointer value (0 for nil).
func (c *Ctx) ptrIdent(st *State, v Value) *Term {
	p, ok := v.(PtrV)
	if !ok {
		unsupported("pointer identity of %T", v)
	}
	if p.Nil {
		return IntC(0)
	}
	if p.Sym != nil {
		return p.Sym
	}
	if p.Obj != nil && len(p.Path) == 0 {
		// engine object: identity = negative id space (distinct from symbolic ones which are >= 0)
		return IntC(int64(-p.Obj.ID))
	}
	unsupported("identity of interior pointer %s", showValue(v))
	return nil
}

func (c *Ctx) ifaceIdent(st *State, v Value) *Term {
	i, ok := v.(IfaceV)
	if !ok {
		unsupported("interface identity of %T", v)
	}
	if i.Nil {
		return IntC(0)
	}
	if i.Sym != nil {
		return i.Sym
	}
	if pv, ok := i.Val.(PtrV); ok {
		// an interface holding a pointer is identified by the pointer (the dynamic type is not stored)
		c.Assumed["interface values stored in symbolic slices are identified by their pointer payload (dynamic type not tracked)"] = true
		return c.ptrIdent(st, pv)
	}
	unsupported("storing concrete interface value into symbolic heap")
	return nil
}

// ---- engine object store: path read/write ----

func (c *Ctx) zeroValue(st *State, t types.Type) Value {
	switch u := under(t).(type) {
	case *types.Basic:
		if isString(t) {
			return conc("")
		}
		if isBool(t) {
			return False()
		}
		if isFloat(t) {
			if c.FP {
				return TS.intern(&Term{Op: "fplit", Sort: FPSort, Name: "0.0"})
			}
			return RealC(new(big.Rat))
		}
		if u.Kind() == types.UnsafePointer {
			return IntC(0)
		}
		return c.intC(0, t)
	case *types.Struct:
		sv := &StructV{Typ: t}
		for i := 0; i < u.NumFields(); i++ {
			sv.F = append(sv.F, c.zeroValue(st, u.Field(i).Type()))
		}
		return sv
	case *types.Array:
		av := &ArrayV{Elem: u.Elem()}
		if u.Len() > 4096 {
			unsupported("zero array of length %d", u.Len())
		}
		z := c.zeroValue(st, u.Elem())
		for i := int64(0); i < u.Len(); i++ {
			av.Elems = append(av.Elems, z)
		}
		return av
	case *types.Slice:
		return SliceV{Elem: u.Elem()}
	case *types.Pointer:
		return PtrV{Nil: true}
	case *types.Interface:
		return IfaceV{Nil: true, Iface: t}
	case *types.Map:
		return MapV{Nil: true, Typ: u}
	case *types.Signature:
		return FuncV{Nil: true}
	case *types.Chan:
		return ChanV{Nil: true}
	case *types.Tuple:
		tv := &TupleV{}
		for i := 0; i < u.Len(); i++ {
			tv.V = append(tv.V, c.zeroValue(st, u.At(i).Type()))
		}
		return tv
	}
	unsupported("zero value of %s", t)
	return nil
}

func pathKey(o *Object, path []int) string {
	var sb strings.Builder
	fmt.Fprintf(&sb, "#%d", o.ID)
	for _, p := range path {
		fmt.Fprintf(&sb, ".%d", p)
	}
	return sb.String()
}

// readPath reads inside value v following path.
func (c *Ctx) readPath(st *State, v Value, path []PathElem) Value {
	for _, pe := range path {
		switch x := v.(type) {
		case *StructV:
			v = x.F[pe.Field]
		case *ArrayV:
			if pe.Idx == nil {
				v = x.Elems[pe.Field]
				continue
			}
			if isNum(pe.Idx) {
				v = x.Elems[c.constIdx(pe.Idx)]
				continue
			}
			// symbolic index into a concrete-shape array: ite chain
			var r Value
			for i := len(x.Elems) - 1; i >= 0; i-- {
				if r == nil {
					r = x.Elems[i]
				} else {
					r = c.valueIte(Eq(pe.Idx, c.idx(int64(i))), x.Elems[i], r)
				}
			}
			v = r
		default:
			unsupported("readPath through %T", v)
		}
	}
	return v
}

func (c *Ctx) constIdx(t *Term) int {
	if t.Sort.Kind == SBV {
		return int(bvSigned(t.Val, t.Sort.Bits).Int64())
	}
	return int(t.Val.Int64())
}

func (c *Ctx) writePath(st *State, v Value, path []PathElem, nv Value) Value {
	if len(path) == 0 {
		return nv
	}
	pe := path[0]
	switch x := v.(type) {
	case *StructV:
		n := &StructV{Typ: x.Typ, F: append([]Value(nil), x.F...)}
		n.F[pe.Field] = c.writePath(st, x.F[pe.Field], path[1:], nv)
		return n
	case *ArrayV:
		n := &ArrayV{Elem: x.Elem, Elems: append([]Value(nil), x.Elems...)}
		if pe.Idx == nil || isNum(pe.Idx) {
			i := pe.Field
			if pe.Idx != nil {
				i = c.constIdx(pe.Idx)
			}
			n.Elems[i] = c.writePath(st, x.Elems[i], path[1:], nv)
			return n
		}
		for i := range n.Elems {
			upd := c.writePath(st, x.Elems[i], path[1:], nv)
			n.Elems[i] = c.valueIte(Eq(pe.Idx, c.idx(int64(i))), upd, x.Elems[i])
		}
		return n
	}
	unsupported("writePath through %T", v)
	return nil
}

func (c *Ctx) noteObjWrite(st *State, o *Object, path []PathElem) {
	var ip []int
	for _, pe := range path {
		if pe.Idx != nil {
			break
		}
		ip = append(ip, pe.Field)
	}
	if st.Disc != nil {
		st.Disc.ObjPaths[pathKey(o, ip)] = objPath{o, ip}
	}
	for _, ws := range st.Record {
		if o.ID > ws.MaxID {
			continue // allocated inside the loop
		}
		ok := false
		for _, op := range ws.ObjPaths {
			if op.Obj == o && hasPrefix(ip, op.Path) {
				ok = true
				break
			}
		}
		if !ok {
			panic(VerErr{fmt.Sprintf("FRAME-DISCOVERY: loop writes %s%v not found by discovery", o.Name, ip)})
		}
	}
}

// valueIte merges two values of the same shape.
func (c *Ctx) valueIte(cond *Term, a, b Value) Value {
	if cond.IsTrue() {
		return a
	}
	if cond.IsFalse() {
		return b
	}
	switch x := a.(type) {
	case *Term:
		y, ok := b.(*Term)
		if !ok {
			unsupported("ite of %T and %T", a, b)
		}
		return Ite(cond, x, y)
	case *StructV:
		y := b.(*StructV)
		n := &StructV{Typ: x.Typ}
		for i := range x.F {
			n.F = append(n.F, c.valueIte(cond, x.F[i], y.F[i]))
		}
		return n
	case *ArrayV:
		y := b.(*ArrayV)
		n := &ArrayV{Elem: x.Elem}
		for i := range x.Elems {
			n.Elems = append(n.Elems, c.valueIte(cond, x.Elems[i], y.Elems[i]))
		}
		return n
	case *TupleV:
		y := b.(*TupleV)
		n := &TupleV{}
		for i := range x.V {
			n.V = append(n.V, c.valueIte(cond, x.V[i], y.V[i]))
		}
		return n
	case SliceV:
		y := b.(SliceV)
		if x.Heap || y.Heap || (x.Obj == nil) != (y.Obj == nil) {
			if !x.Heap && x.Obj == nil {
				x = SliceV{Elem: y.Elem, Heap: true, Ref: IntC(0), Off: c.idx(0), Len: c.idx(0), Cap: c.idx(0)}
			}
			if !y.Heap && y.Obj == nil {
				y = SliceV{Elem: x.Elem, Heap: true, Ref: IntC(0), Off: c.idx(0), Len: c.idx(0), Cap: c.idx(0)}
			}
			if x.Heap && y.Heap {
				return SliceV{Elem: x.Elem, Heap: true, Ref: Ite(cond, x.Ref, y.Ref), Off: Ite(cond, x.Off, y.Off), Len: Ite(cond, x.Len, y.Len), Cap: Ite(cond, x.Cap, y.Cap)}
			}
		}
		if x.Obj == y.Obj && x.COff == y.COff && x.CLen == y.CLen && x.CCap == y.CCap {
			return x
		}
	case StrV:
		y := b.(StrV)
		if x.Conc != nil && y.Conc != nil && *x.Conc == *y.Conc {
			return x
		}
		return StrV{Spec: "ite", SArgs: []Value{cond, x, y}}
	case PtrV:
		y := b.(PtrV)
		if x.Nil && y.Nil {
			return x
		}
		if x.Sym != nil || y.Sym != nil || x.Nil || y.Nil {
			if (x.Sym != nil || x.Nil) && (y.Sym != nil || y.Nil) {
				xs, ys := x.Sym, y.Sym
				if x.Nil {
					xs = IntC(0)
				}
				if y.Nil {
					ys = IntC(0)
				}
				t := x.Typ
				if t == nil {
					t = y.Typ
				}
				return PtrV{Sym: Ite(cond, xs, ys), Typ: t}
			}
		}
		if x.Obj == y.Obj && fmt.Sprint(x.Path) == fmt.Sprint(y.Path) && !x.Heap && !y.Heap {
			return x
		}
	case IfaceV:
		y := b.(IfaceV)
		if x.Nil && y.Nil {
			return x
		}
		if (x.Sym != nil || x.Nil) && (y.Sym != nil || y.Nil) {
			xs, ys := x.Sym, y.Sym
			if x.Nil {
				xs = IntC(0)
			}
			if y.Nil {
				ys = IntC(0)
			}
			return IfaceV{Sym: Ite(cond, xs, ys), Iface: x.Iface}
		}
		if x.Dyn != nil && y.Dyn != nil && types.Identical(x.Dyn, y.Dyn) {
			return IfaceV{Dyn: x.Dyn, Val: c.valueIte(cond, x.Val, y.Val), Iface: x.Iface}
		}
	case *MapObj:
		if y, ok := b.(*MapObj); ok {
			if x == y {
				return x
			}
			// two different contents of the same map object on the two branches: the merged content is unknown
			// (an over-approximation: reads from it are arbitrary)
			c.Assumed["maps whose content differs at a control-flow join are merged into an unknown map (over-approximation)"] = true
			return &MapObj{Abstract: true, Tag: c.freshName("merged.map")}
		}
	case MapV:
		if y, ok := b.(MapV); ok {
			if x.Nil == y.Nil && x.Obj == y.Obj {
				return x
			}
			if !x.Nil && !y.Nil && x.Typ != nil {
				c.Assumed["maps whose content differs at a control-flow join are merged into an unknown map (over-approximation)"] = true
				o := c.newObject("merged.map", x.Typ)
				c.initVals[o] = &MapObj{Abstract: true, Tag: c.freshName("merged.map")}
				return MapV{Obj: o, Typ: x.Typ}
			}
		}
	case ChanV:
		if y, ok := b.(ChanV); ok {
			if x.Nil && y.Nil || (x.Obj != nil && x.Obj == y.Obj) || (x.Sym != nil && x.Sym == y.Sym) {
				return x
			}
			if (x.Sym != nil || x.Nil) && (y.Sym != nil || y.Nil) {
				xs, ys := x.Sym, y.Sym
				if x.Nil {
					xs = IntC(0)
				}
				if y.Nil {
					ys = IntC(0)
				}
				return ChanV{Sym: Ite(cond, xs, ys)}
			}
		}
	case FuncV:
		if y, ok := b.(FuncV); ok && x.Fn == y.Fn && x.Builtin == y.Builtin && x.Nil == y.Nil && x.Sym == y.Sym && len(x.Bindings) == 0 && len(y.Bindings) == 0 {
			return x
		}
	case nil:
		if b == nil {
			return nil
		}
	}
	unsupported("ite of values %s / %s", showValue(a), showValue(b))
	return nil
}

// valueEq: structural equality term.
func (c *Ctx) valueEq(st *State, a, b Value) *Term {
	switch x := a.(type) {
	case *Term:
		return Eq(x, b.(*Term))
	case *StructV:
		y := b.(*StructV)
		var cs []*Term
		for i := range x.F {
			cs = append(cs, c.valueEq(st, x.F[i], y.F[i]))
		}
		return And(cs...)
	case *ArrayV:
		y := b.(*ArrayV)
		var cs []*Term
		for i := range x.Elems {
			cs = append(cs, c.valueEq(st, x.Elems[i], y.Elems[i]))
		}
		return And(cs...)
	case StrV:
		return c.strEq(st, x, b.(StrV))
	case PtrV:
		y, ok := b.(PtrV)
		if !ok {
			if b == nil {
				y = PtrV{Nil: true}
			} else {
				unsupported("compare pointer with %T", b)
			}
		}
		return c.ptrEq(st, x, y)
	case IfaceV:
		y, ok := b.(IfaceV)
		if !ok {
			unsupported("compare interface with %T", b)
		}
		if x.Nil && y.Nil {
			return True()
		}
		if x.Nil || y.Nil {
			o := x
			if x.Nil {
				o = y
			}
			if o.Sym != nil {
				return Eq(o.Sym, IntC(0))
			}
			return False()
		}
		if x.Sym != nil && y.Sym != nil {
			return Eq(x.Sym, y.Sym)
		}
		if x.Dyn != nil && y.Dyn != nil {
			if !types.Identical(x.Dyn, y.Dyn) {
				return False()
			}
			return c.valueEq(st, x.Val, y.Val)
		}
		unsupported("compare interfaces %s / %s", showValue(a), showValue(b))
	case SliceV:
		// Go only allows comparison with nil; contracts use == on slices for header identity
		y := b.(SliceV)
		if x.Heap && y.Heap {
			return And(Eq(x.Ref, y.Ref), Eq(x.Off, y.Off), Eq(x.Len, y.Len), Eq(x.Cap, y.Cap))
		}
		if !x.Heap && !y.Heap && x.Obj != nil && y.Obj != nil {
			return BoolT(x.Obj == y.Obj && x.COff == y.COff && x.CLen == y.CLen)
		}
		if !y.Heap && y.Obj == nil {
			if x.Heap {
				return Eq(x.Ref, IntC(0))
			}
			return BoolT(x.Obj == nil)
		}
		if !x.Heap && x.Obj == nil {
			if y.Heap {
				return Eq(y.Ref, IntC(0))
			}
			return BoolT(y.Obj == nil)
		}
	case MapV:
		y := b.(MapV)
		if y.Nil {
			return BoolT(x.Nil)
		}
		if x.Nil {
			return BoolT(y.Nil)
		}
	case FuncV:
		y := b.(FuncV)
		if y.Nil {
			if x.Sym != nil {
				return Eq(x.Sym, IntC(0))
			}
			return BoolT(x.Nil)
		}
		if x.Nil {
			if y.Sym != nil {
				return Eq(y.Sym, IntC(0))
			}
			return BoolT(y.Nil)
		}
	case ChanV:
		y := b.(ChanV)
		if y.Nil {
			if x.Sym != nil {
				return Eq(x.Sym, IntC(0))
			}
			return BoolT(x.Nil)
		}
	case nil:
		switch y := b.(type) {
		case nil:
			return True()
		case PtrV:
			return c.ptrEq(st, PtrV{Nil: true}, y)
		}
	}
	unsupported("equality of %s and %s", showValue(a), showValue(b))
	return nil
}

func (c *Ctx) ptrEq(st *State, x, y PtrV) *Term {
	if x.Nil && y.Nil {
		return True()
	}
	if x.Nil || y.Nil {
		o := x
		if x.Nil {
			o = y
		}
		if o.Sym != nil {
			return Eq(o.Sym, IntC(0))
		}
		return False()
	}
	if x.Sym != nil && y.Sym != nil {
		return Eq(x.Sym, y.Sym)
	}
	if x.Obj != nil && y.Obj != nil {
		if x.Obj != y.Obj || len(x.Path) != len(y.Path) {
			return False()
		}
		cs := []*Term{}
		for i := range x.Path {
			if (x.Path[i].Idx == nil) != (y.Path[i].Idx == nil) {
				return False()
			}
			if x.Path[i].Idx == nil {
				if x.Path[i].Field != y.Path[i].Field {
					return False()
				}
			} else {
				cs = append(cs, Eq(x.Path[i].Idx, y.Path[i].Idx))
			}
		}
		return And(cs...)
	}
	if x.Heap && y.Heap {
		if fmt.Sprint(pathInts(x.Path)) != fmt.Sprint(pathInts(y.Path)) {
			return False()
		}
		return And(Eq(x.Ref, y.Ref), Eq(x.Idx, y.Idx))
	}
	if (x.Obj != nil && y.Sym != nil) || (x.Sym != nil && y.Obj != nil) {
		// an engine-allocated object is distinct from every pre-existing symbolic pointer,
		// unless the object is the materialisation of that symbolic pointer
		s, o := x, y
		if x.Obj != nil {
			s, o = y, x
		}
		if mo, ok := st.SymObjs[s.Sym.id]; ok && mo == o.Obj && len(o.Path) == 0 {
			return True()
		}
		return False()
	}
	unsupported("pointer equality %s / %s", showValue(x), showValue(y))
	return nil
}

func pathInts(p []PathElem) []int {
	var r []int
	for _, e := range p {
		r = append(r, e.Field)
	}
	return r
}

// mentionsFreshAfter: t contains a fresh symbol (name!N) created after the counter stood at n
func mentionsFreshAfter(t *Term, n, m int) bool {
	seen := map[*Term]bool{}
	var walk func(*Term) bool
	walk = func(x *Term) bool {
		if x == nil || seen[x] {
			return false
		}
		seen[x] = true
		if x.Op == "var" {
			if i := strings.LastIndex(x.Name, "!"); i >= 0 {
				if k, err := strconv.Atoi(x.Name[i+1:]); err == nil && k > n {
					return true
				}
			} else if i := strings.LastIndex(x.Name, "_"); i >= 0 {
				if k, err := strconv.Atoi(x.Name[i+1:]); err == nil && k > m {
					return true
				}
			}
		}
		for _, a := range x.Args {
			if walk(a) {
				return true
			}
		}
		return false
	}
	return walk(t)
}

// allocatedInside: the reference is an allocation mark (alloc.call!N / alloc.loop..!N, possibly plus a constant)
// taken after the fresh-symbol counter stood at n
func allocatedInside(t *Term, n int) bool {
	if t == nil {
		return false
	}
	if t.Op == "+" {
		hit := false
		for _, a := range t.Args {
			if a.Op == "const" {
				continue
			}
			if !allocatedInside(a, n) {
				return false
			}
			hit = true
		}
		return hit
	}
	if t.Op == "var" && strings.HasPrefix(t.Name, "alloc.") {
		if i := strings.LastIndex(t.Name, "!"); i >= 0 {
			if k, err := strconv.Atoi(t.Name[i+1:]); err == nil && k > n {
				return true
			}
		}
	}
	return false
}
