package main

// String and slice helper semantics.

import (
	"fmt"
	"go/types"
	"math/big"
)

func (c *Ctx) byteC(b byte) *Term { return NumC(big.NewInt(int64(b)), c.byteSort()) }

// String literals are interned: literal number n has identity -(n+1) and content value n.
var strLits = map[string]int{}
var strLitList []string

func litCode(s string) int {
	if n, ok := strLits[s]; ok {
		return n
	}
	n := len(strLitList)
	strLits[s] = n
	strLitList = append(strLitList, s)
	return n
}

func (c *Ctx) modeTag() string {
	if c.BV {
		return "bv"
	}
	return "int"
}

// strOfID builds the string value with identity id (a literal when id is a negative constant).
func (c *Ctx) strOfID(st *State, id *Term) StrV {
	if isNum(id) && id.Val.Sign() < 0 {
		n := int(-id.Val.Int64() - 1)
		if n < len(strLitList) {
			return conc(strLitList[n])
		}
	}
	ln := App("str.len."+c.modeTag(), c.IntSort(), id)
	st.assume(Cmp(">=", ln, c.idx(0), true))
	st.assume(Cmp("<=", ln, NumC(new(big.Int).Lsh(big.NewInt(1), 40), c.IntSort()), true))
	arr := App("str.arr."+c.modeTag(), ArraySort(c.IntSort(), c.byteSort()), id)
	return StrV{ID: id, Arr: arr, Off: c.idx(0), Len: ln}
}

// strID gives an Int identity to any string value (fresh identity with defining facts for derived strings).
func (c *Ctx) strID(st *State, s StrV) *Term {
	if s.ID != nil {
		return s.ID
	}
	if s.Conc != nil {
		return IntC(int64(-(litCode(*s.Conc) + 1)))
	}
	if s.Spec == "ite" {
		return Ite(s.SArgs[0].(*Term), c.strID(st, s.SArgs[1].(StrV)), c.strID(st, s.SArgs[2].(StrV)))
	}
	if s.Arr != nil {
		id := Fresh("strid", IntSort)
		st.assume(Cmp(">=", id, IntC(0), true))
		n := c.strOfID(st, id)
		st.assume(Eq(n.Len, s.Len))
		k := BoundVar("k", c.IntSort())
		st.assume(Forall([]*Term{k}, Implies(And(Cmp("<=", c.idx(0), k, true), Cmp("<", k, s.Len, true)),
			Eq(Select(n.Arr, k), Select(s.Arr, Arith("+", s.Off, k))))))
		return id
	}
	unsupported("identity of string %s", showValue(s))
	return nil
}

// strVal is the content value of a string identity: equal strings have equal content values.
func (c *Ctx) strVal(id *Term) *Term {
	if isNum(id) && id.Val.Sign() < 0 {
		return IntC(-id.Val.Int64() - 1)
	}
	if id.Op == "ite" {
		return Ite(id.Args[0], c.strVal(id.Args[1]), c.strVal(id.Args[2]))
	}
	return App("str.val", IntSort, id)
}

// flattenRope returns the pieces of a string value (concrete pieces merged).
func flattenRope(s StrV) []StrV {
	var out []StrV
	var rec func(s StrV)
	rec = func(s StrV) {
		if s.Rope == nil && s.Conc == nil && s.Arr == nil && s.Spec == "" && s.ID == nil {
			return // the empty string
		}
		if s.Rope != nil {
			for _, p := range s.Rope {
				rec(p)
			}
			return
		}
		if s.Conc != nil {
			if *s.Conc == "" {
				return
			}
			if n := len(out); n > 0 && out[n-1].Conc != nil {
				m := *out[n-1].Conc + *s.Conc
				out[n-1] = StrV{Conc: &m}
				return
			}
		}
		out = append(out, s)
	}
	rec(s)
	return out
}

func (c *Ctx) strConcat(a, b StrV) StrV {
	ps := flattenRope(StrV{Rope: []StrV{a, b}})
	if len(ps) == 0 {
		return conc("")
	}
	if len(ps) == 1 {
		return ps[0]
	}
	return StrV{Rope: ps}
}

// strLen gives the length term of a string.
func (c *Ctx) strLen(st *State, s StrV) *Term {
	if s.Conc != nil {
		return c.idx(int64(len(*s.Conc)))
	}
	if s.Rope != nil {
		t := c.idx(0)
		for _, p := range flattenRope(s) {
			t = Arith("+", t, c.strLen(st, p))
		}
		return t
	}
	if s.Spec != "" {
		switch s.Spec {
		case "chr":
			return c.idx(1)
		case "ite":
			return Ite(s.SArgs[0].(*Term), c.strLen(st, s.SArgs[1].(StrV)), c.strLen(st, s.SArgs[2].(StrV)))
		case "runesstr":
			l := App("strlen.runesstr."+c.modeTag(), c.IntSort(), s.SArgs[0].(*Term), s.SArgs[1].(*Term), s.SArgs[2].(*Term))
			st.assume(Cmp(">=", l, s.SArgs[2].(*Term), true))
			return l
		case "itoa", "fmt", "runestr":
			// the length of a rendered number / formatted piece is an uninterpreted function of its arguments
			var ts []*Term
			for _, a := range s.SArgs {
				switch x := a.(type) {
				case *Term:
					ts = append(ts, x)
				case StrV:
					ts = append(ts, c.strID(st, x))
				}
			}
			l := App("strlen."+s.Spec+"."+c.modeTag()+fmt.Sprint(len(ts)), c.IntSort(), ts...)
			st.assume(Cmp(">=", l, c.idx(0), true))
			return l
		}
		unsupported("length of special string %s", showValue(s))
	}
	return s.Len
}

// strSym converts any string to symbolic (Arr,Off,Len) form.
func (c *Ctx) strSym(st *State, s StrV) StrV {
	if s.Arr != nil {
		return s
	}
	if s.Conc != nil {
		str := *s.Conc
		arr := ConstArr(ArraySort(c.IntSort(), c.byteSort()), c.byteC(0))
		if len(str) > 4096 {
			unsupported("symbolising a long concrete string")
		}
		for i := 0; i < len(str); i++ {
			arr = Store(arr, c.idx(int64(i)), c.byteC(str[i]))
		}
		return StrV{Arr: arr, Off: c.idx(0), Len: c.idx(int64(len(str)))}
	}
	unsupported("symbolising string %s", showValue(s))
	return s
}

// strAt returns byte i of s (no bounds obligation here).
func (c *Ctx) strAt(st *State, s StrV, i *Term) *Term {
	if s.Spec == "ite" {
		return Ite(s.SArgs[0].(*Term), c.strAt(st, s.SArgs[1].(StrV), i), c.strAt(st, s.SArgs[2].(StrV), i))
	}
	if s.Conc != nil {
		str := *s.Conc
		if isNum(i) {
			k := c.constIdx(i)
			if k >= 0 && k < len(str) {
				return c.byteC(str[k])
			}
			return c.byteC(0)
		}
		if len(str) <= 64 {
			r := c.byteC(0)
			for k := len(str) - 1; k >= 0; k-- {
				r = Ite(Eq(i, c.idx(int64(k))), c.byteC(str[k]), r)
			}
			return r
		}
		s = c.strSym(st, s)
	}
	if s.Arr != nil {
		return Select(s.Arr, Arith("+", s.Off, i))
	}
	unsupported("indexing string %s", showValue(s))
	return nil
}

func (c *Ctx) strEq(st *State, a, b StrV) *Term {
	if a.Conc != nil && b.Conc != nil {
		return BoolT(*a.Conc == *b.Conc)
	}
	if a.Spec == "ite" {
		return Ite(a.SArgs[0].(*Term), c.strEq(st, a.SArgs[1].(StrV), b), c.strEq(st, a.SArgs[2].(StrV), b))
	}
	if b.Spec == "ite" {
		return Ite(b.SArgs[0].(*Term), c.strEq(st, a, b.SArgs[1].(StrV)), c.strEq(st, a, b.SArgs[2].(StrV)))
	}
	// rope equality: piecewise when structures align
	if a.Rope != nil || b.Rope != nil || a.Spec != "" || b.Spec != "" {
		if t, ok := c.ropeEq(st, a, b); ok {
			return t
		}
		unsupported("string equality of %s and %s", showValue(a), showValue(b))
	}
	// symbolic vs concrete / symbolic
	if b.Conc != nil {
		a, b = b, a
	}
	if a.Conc != nil {
		str := *a.Conc
		if len(str) > 256 {
			unsupported("comparing with long concrete string")
		}
		if b.ID != nil && !b.ID.open && len(str) <= 64 {
			// content value equals the literal's code exactly when length and bytes agree (defining fact)
			bs := []*Term{Eq(b.Len, c.idx(int64(len(str))))}
			for i := 0; i < len(str); i++ {
				bs = append(bs, Eq(c.strAt(st, b, c.idx(int64(i))), c.byteC(str[i])))
			}
			eq := Eq(c.strVal(b.ID), IntC(int64(litCode(str))))
			st.assume(Eq(eq, And(bs...)))
			return eq
		}
		cs := []*Term{Eq(b.Len, c.idx(int64(len(str))))}
		for i := 0; i < len(str); i++ {
			cs = append(cs, Eq(c.strAt(st, b, c.idx(int64(i))), c.byteC(str[i])))
		}
		return And(cs...)
	}
	if a.Arr == b.Arr && a.Off == b.Off && a.Len == b.Len {
		return True()
	}
	// two symbolic strings: equality of content values (an equivalence relation by construction); equal
	// content implies equal length.  Derived strings get a fresh identity with defining facts.
	ia, ib := c.strID(st, a), c.strID(st, b)
	eq := Eq(c.strVal(ia), c.strVal(ib))
	if !eq.IsTrue() && !eq.IsFalse() && !eq.open {
		st.assume(Implies(eq, Eq(a.Len, b.Len)))
	}
	return eq
}

// ropeEq: piecewise equality of two ropes; sound (equal pieces => equal strings), and complete
// only for the shapes used by the emission code (literal / itoa / chr pieces).
func (c *Ctx) ropeEq(st *State, a, b StrV) (*Term, bool) {
	pa, pb := flattenRope(a), flattenRope(b)
	var cs []*Term
	i, j := 0, 0
	var ra, rb string // remaining literal parts
	for {
		// refill
		if ra == "" && i < len(pa) && pa[i].Conc != nil {
			ra = *pa[i].Conc
			i++
		}
		if rb == "" && j < len(pb) && pb[j].Conc != nil {
			rb = *pb[j].Conc
			j++
		}
		if ra != "" && rb != "" {
			n := len(ra)
			if len(rb) < n {
				n = len(rb)
			}
			if ra[:n] != rb[:n] {
				return False(), true
			}
			ra, rb = ra[n:], rb[n:]
			continue
		}
		if ra == "" && rb == "" {
			if i >= len(pa) && j >= len(pb) {
				return And(cs...), true
			}
			if i >= len(pa) || j >= len(pb) {
				// one side has a non-literal piece left, other side is done: could still be equal only if piece empty
				return nil, false
			}
			x, y := pa[i], pb[j]
			// string(rune(x)) against the single byte chr(y): equal exactly when x is ASCII and is that byte
			if (x.Spec == "runestr" && y.Spec == "chr") || (x.Spec == "chr" && y.Spec == "runestr") {
				rs, ch := x, y
				if x.Spec == "chr" {
					rs, ch = y, x
				}
				rt := rs.SArgs[0].(*Term)
				bt := ch.SArgs[0].(*Term)
				lo := NumC(big.NewInt(0), rt.Sort)
				hi := NumC(big.NewInt(128), rt.Sort)
				var low8 *Term
				if rt.Sort.Kind == SBV {
					low8 = BVResize(rt, 8, false)
				} else {
					low8 = rt
				}
				if bt.Sort != low8.Sort {
					return nil, false
				}
				cs = append(cs, Cmp(">=", rt, lo, true), Cmp("<", rt, hi, true), Eq(low8, bt))
				i++
				j++
				continue
			}
			if x.Spec != "" && x.Spec == y.Spec && len(x.SArgs) == len(y.SArgs) {
				ok := true
				var ps []*Term
				for k := range x.SArgs {
					xt, ok1 := x.SArgs[k].(*Term)
					yt, ok2 := y.SArgs[k].(*Term)
					if ok1 && ok2 && xt.Sort == yt.Sort {
						ps = append(ps, Eq(xt, yt))
						continue
					}
					xs, ok1 := x.SArgs[k].(StrV)
					ys, ok2 := y.SArgs[k].(StrV)
					if ok1 && ok2 && xs.Conc != nil && ys.Conc != nil && *xs.Conc == *ys.Conc {
						continue
					}
					ok = false
				}
				if !ok {
					return nil, false
				}
				cs = append(cs, ps...)
				i++
				j++
				continue
			}
			if x.Arr != nil && y.Arr != nil && x.Arr == y.Arr && x.Off == y.Off && x.Len == y.Len {
				i++
				j++
				continue
			}
			return nil, false
		}
		// one side literal remaining vs other non-literal piece
		// itoa(n) vs literal digits: n == value when the literal up to the next non-digit... not attempted
		// chr(x) vs 1 literal byte
		var lit *string
		var other StrV
		var litIsA bool
		if ra != "" {
			if j >= len(pb) {
				return False(), true
			}
			lit, other, litIsA = &ra, pb[j], true
		} else {
			if i >= len(pa) {
				return False(), true
			}
			lit, other, litIsA = &rb, pa[i], false
		}
		if other.Spec == "chr" {
			cs = append(cs, Eq(other.SArgs[0].(*Term), c.byteC((*lit)[0])))
			*lit = (*lit)[1:]
			if litIsA {
				j++
			} else {
				i++
			}
			continue
		}
		return nil, false
	}
}

// toHeapSlice converts a slice value to heap form (concrete slices are copied into a fresh heap array).
func (c *Ctx) toHeapSlice(st *State, v Value, elem types.Type) SliceV {
	s, ok := v.(SliceV)
	if !ok {
		unsupported("toHeapSlice of %T", v)
	}
	if s.Heap {
		return s
	}
	if s.Obj == nil {
		return SliceV{Elem: elem, Heap: true, Ref: IntC(0), Off: c.idx(0), Len: c.idx(0), Cap: c.idx(0)}
	}
	// copy concrete to fresh heap array
	ref := c.allocRef(st)
	av := c.mem(st, s.Obj).(*ArrayV)
	for i := 0; i < s.CLen; i++ {
		c.heapWrite(st, elem, ref, c.idx(int64(i)), nil, av.Elems[s.COff+i])
	}
	c.Assumed["concrete slice copied into symbolic heap (aliasing with its concrete origin lost)"] = true
	return SliceV{Elem: elem, Heap: true, Ref: ref, Off: c.idx(0), Len: c.idx(int64(s.CLen)), Cap: c.idx(int64(s.CCap - s.COff)), Origin: s.Obj}
}

func (c *Ctx) allocRef(st *State) *Term {
	r := st.Alloc
	st.Alloc = Arith("+", st.Alloc, IntC(1))
	return r
}

func (c *Ctx) sliceLen(s SliceV) *Term {
	if s.Heap {
		return s.Len
	}
	return c.idx(int64(s.CLen))
}

func (c *Ctx) sliceCap(s SliceV) *Term {
	if s.Heap {
		return s.Cap
	}
	return c.idx(int64(s.CCap))
}
