package main

// The built-in terminal database, obtained by EVALUATING the real init functions of the
// terminfo/*/* packages (which call the real terminfo.AddTerminfo) in EV mode.

import (
	"fmt"
	"go/types"
	"sort"
	"strings"
)

type TermEntry struct {
	Name    string
	Aliases []string
	Val     *StructV // the Terminfo struct value
	Ptr     PtrV
	Pkg     string
}

type TermDB struct {
	Ev      *Evaluator
	St      *State
	Entries []*TermEntry
	ByName  map[string]*TermEntry
	TI      *types.Struct
}

func (db *TermDB) field(e *TermEntry, name string) Value {
	for i := 0; i < db.TI.NumFields(); i++ {
		if db.TI.Field(i).Name() == name {
			return e.Val.F[i]
		}
	}
	panic(VerErr{"Terminfo has no field " + name})
}

func (db *TermDB) str(e *TermEntry, name string) string {
	s, ok := db.field(e, name).(StrV)
	if !ok || s.Conc == nil {
		panic(VerErr{fmt.Sprintf("Terminfo field %s of %s is not a concrete string", name, e.Name)})
	}
	return *s.Conc
}

func (db *TermDB) num(e *TermEntry, name string) int64 {
	t, ok := db.field(e, name).(*Term)
	if !ok || !t.IsConst() {
		panic(VerErr{fmt.Sprintf("Terminfo field %s of %s is not a constant", name, e.Name)})
	}
	if t.Sort.Kind == SBool {
		if t.BVal {
			return 1
		}
		return 0
	}
	if t.Sort.Kind == SBV {
		return bvSigned(t.Val, t.Sort.Bits).Int64()
	}
	return t.Val.Int64()
}

// LoadTermDB runs the init function of every terminal package imported by terminfo/base and terminfo/extended.
func LoadTermDB(e *Engine, bv bool) *TermDB {
	ev := e.NewEvaluator(bv, "termdb")
	ev.C.InitGlobals = true // this evaluation models program start: package variables hold their initial values
	st := ev.NewState()
	db := &TermDB{Ev: ev, ByName: map[string]*TermEntry{}}
	tiPkg := e.SPkgs[modPath+"/terminfo"]
	if tiPkg == nil {
		panic(VerErr{"UNDECIDED: package terminfo not loaded"})
	}
	db.TI = tiPkg.Type("Terminfo").Type().Underlying().(*types.Struct)
	var pkgs []string
	seen := map[string]bool{}
	for _, agg := range []string{modPath + "/terminfo/base", modPath + "/terminfo/extended"} {
		p := e.PkgBy[agg]
		if p == nil {
			panic(VerErr{"UNDECIDED: package " + agg + " not loaded"})
		}
		for ip := range p.Imports {
			if strings.HasPrefix(ip, modPath+"/terminfo/") && !seen[ip] && ip != modPath+"/terminfo/base" {
				seen[ip] = true
				pkgs = append(pkgs, ip)
			}
		}
	}
	sort.Strings(pkgs)
	for _, ip := range pkgs {
		sp := e.SPkgs[ip]
		if sp == nil {
			panic(VerErr{"UNDECIDED: no SSA for " + ip})
		}
		for name, m := range sp.Members {
			_ = m
			if strings.HasPrefix(name, "init#") {
				fn := sp.Func(name)
				paths, err := ev.Call(st, fn, nil)
				if err != nil || len(paths) != 1 {
					panic(VerErr{fmt.Sprintf("evaluating %s.%s: %v (%d paths)", ip, name, err, len(paths))})
				}
				st = paths[0].St
				st.Frames = nil
			}
		}
	}
	db.St = st
	// read the registry
	g := tiPkg.Var("terminfos")
	o := ev.C.globalObj(st, g)
	mv, ok := ev.C.mem(st, o).(MapV)
	if !ok {
		panic(VerErr{"terminfos is not a map"})
	}
	mo := ev.C.mapObj(st, mv)
	byObj := map[*Object]*TermEntry{}
	for _, en := range mo.Entries {
		k := en.K.(StrV)
		p := en.V.(PtrV)
		te := byObj[p.Obj]
		if te == nil {
			te = &TermEntry{Ptr: p, Val: ev.C.mem(st, p.Obj).(*StructV)}
			byObj[p.Obj] = te
			db.Entries = append(db.Entries, te)
			te.Name = *te.Val.F[0].(StrV).Conc
		}
		if *k.Conc != te.Name {
			te.Aliases = append(te.Aliases, *k.Conc)
		}
		db.ByName[*k.Conc] = te
	}
	sort.Slice(db.Entries, func(i, j int) bool { return db.Entries[i].Name < db.Entries[j].Name })
	ev.C.InitGlobals = false
	return db
}
