package main

// Engine-side values.  Scalars are *Term; aggregates are trees with *Term leaves.

import (
	"fmt"
	"go/types"
	"math/big"
	"strings"

	"golang.org/x/tools/go/ssa"
)

type Value interface{}

// StructV is an immutable struct value.
type StructV struct {
	Typ types.Type
	F   []Value
}

// ArrayV is a Go fixed-size array with concrete length.
type ArrayV struct {
	Elem  types.Type
	Elems []Value
}

// TupleV for multi-value results.
type TupleV struct{ V []Value }

// Object is a memory object (allocation) in the engine-side store.
type Object struct {
	ID   int
	Name string
	Typ  types.Type // type of the stored value
}

// PathElem: field index (Field>=0) or array index (Idx != nil).
type PathElem struct {
	Field int
	Idx   *Term
}

// PtrV is a pointer.  Either into an engine object (Obj,Path), into the symbolic heap
// (HeapElem: element Idx of array Ref, then Path inside the element), nil (all zero, Nil=true),
// or an opaque symbolic pointer (Sym != nil: identity term, 0 = nil) that is materialised lazily.
type PtrV struct {
	Nil  bool
	Obj  *Object
	Path []PathElem
	// heap element pointer
	Heap bool
	Ref  *Term
	Idx  *Term
	Elem types.Type // element type of the heap array
	// symbolic pointer identity (Int term); 0 is nil
	Sym *Term
	Typ types.Type // pointee type for Sym pointers
}

// SliceV: either engine-side (Obj holds an ArrayV; concrete Off/Len/Cap) or heap (Ref term, symbolic Off/Len/Cap).
type SliceV struct {
	Elem types.Type
	// concrete
	Obj           *Object
	COff, CLen, CCap int
	// heap
	Heap          bool
	Ref           *Term // Int; 0 == nil slice
	Off, Len, Cap *Term
	// provenance: the engine object this heap slice was copied from (freshness questions only)
	Origin *Object
}

// StrV: concrete string, symbolic byte array (Arr[Off..Off+Len)), or rope of pieces.
type StrV struct {
	ID    *Term // Int identity of a symbolic string (Arr/Off/Len are then str.arr(ID), 0, str.len(ID))
	Conc  *string
	Arr   *Term // Array Int Byte
	Off   *Term
	Len   *Term
	Rope  []StrV // concatenation (each piece Conc or symbolic or Special)
	Spec  string // special piece kind: "itoa", "chr", "fmt"
	SArgs []Value
}

// IfaceV: interface value.
type IfaceV struct {
	Nil   bool
	Dyn   types.Type // concrete dynamic type when known
	Val   Value
	Sym   *Term  // opaque identity for unknown dynamic values (Int; 0 == nil)
	Iface types.Type
}

// MapV: reference to a map object.
type MapV struct {
	Nil bool
	Obj *Object // holds *MapObj
	Typ *types.Map
}

type MapEntry struct{ K, V Value }

// MapObj: concrete entries (keys may be symbolic terms; lookups build ite chains), plus
// optionally an abstract base (unknown prior content) for symbolic maps.
type MapObj struct {
	Entries []MapEntry
	// abstract base: presence/value arrays over scalar keys
	AbsPresent *Term
	AbsVal     map[string]*Term // leaf -> array
	Abstract   bool
	Tag        string
}

// FuncV: function value / closure.
type FuncV struct {
	Fn       *ssa.Function
	Bindings []Value
	Builtin  string
	Nil      bool
	Sym      *Term
}

// ChanV: channel reference.
type ChanV struct {
	Nil bool
	Obj *Object
	Sym *Term
}

// UnknownV: an opaque value of a type the engine does not model further.
type UnknownV struct {
	Typ types.Type
	Tag string
}

func conc(s string) StrV { return StrV{Conc: &s} }

func (s StrV) IsConc() bool { return s.Conc != nil }

func showValue(v Value) string {
	switch x := v.(type) {
	case nil:
		return "<nil>"
	case *Term:
		s := x.String()
		if len(s) > 200 {
			s = s[:200] + "..."
		}
		return s
	case *StructV:
		var ss []string
		for _, f := range x.F {
			ss = append(ss, showValue(f))
		}
		return "{" + strings.Join(ss, ", ") + "}"
	case *ArrayV:
		var ss []string
		for i, f := range x.Elems {
			if i > 8 {
				ss = append(ss, "...")
				break
			}
			ss = append(ss, showValue(f))
		}
		return "[" + strings.Join(ss, ", ") + "]"
	case *TupleV:
		var ss []string
		for _, f := range x.V {
			ss = append(ss, showValue(f))
		}
		return "(" + strings.Join(ss, ", ") + ")"
	case StrV:
		if x.Conc != nil {
			return fmt.Sprintf("%q", *x.Conc)
		}
		if x.Rope != nil {
			var ss []string
			for _, p := range x.Rope {
				ss = append(ss, showValue(p))
			}
			return "rope(" + strings.Join(ss, " ++ ") + ")"
		}
		if x.Spec != "" {
			var ss []string
			for _, a := range x.SArgs {
				ss = append(ss, showValue(a))
			}
			return x.Spec + "(" + strings.Join(ss, ",") + ")"
		}
		return fmt.Sprintf("str(len=%s)", x.Len)
	case PtrV:
		if x.Nil {
			return "nilptr"
		}
		if x.Heap {
			return fmt.Sprintf("&heap[%s][%s]%v", x.Ref, x.Idx, x.Path)
		}
		if x.Sym != nil {
			return fmt.Sprintf("symptr(%s)", x.Sym)
		}
		return fmt.Sprintf("&%s#%d%v", x.Obj.Name, x.Obj.ID, x.Path)
	case SliceV:
		if x.Heap {
			return fmt.Sprintf("hslice(ref=%s off=%s len=%s)", x.Ref, x.Off, x.Len)
		}
		if x.Obj == nil {
			return "nilslice"
		}
		return fmt.Sprintf("cslice(#%d off=%d len=%d cap=%d)", x.Obj.ID, x.COff, x.CLen, x.CCap)
	case IfaceV:
		if x.Nil {
			return "niliface"
		}
		if x.Dyn != nil {
			return fmt.Sprintf("iface(%s: %s)", x.Dyn, showValue(x.Val))
		}
		return fmt.Sprintf("iface(sym %s)", x.Sym)
	case MapV:
		return "map"
	case FuncV:
		if x.Fn != nil {
			return "func " + x.Fn.String()
		}
		return "func " + x.Builtin
	case UnknownV:
		return "unknown(" + x.Tag + ")"
	}
	return fmt.Sprintf("%T", v)
}

// ---- type helpers ----

func under(t types.Type) types.Type { return t.Underlying() }

func isInteger(t types.Type) bool {
	b, ok := under(t).(*types.Basic)
	return ok && b.Info()&types.IsInteger != 0
}
func isUnsigned(t types.Type) bool {
	b, ok := under(t).(*types.Basic)
	return ok && b.Info()&types.IsUnsigned != 0
}
func isFloat(t types.Type) bool {
	b, ok := under(t).(*types.Basic)
	return ok && b.Info()&types.IsFloat != 0
}
func isBool(t types.Type) bool {
	b, ok := under(t).(*types.Basic)
	return ok && b.Info()&types.IsBoolean != 0
}
func isString(t types.Type) bool {
	b, ok := under(t).(*types.Basic)
	return ok && b.Info()&types.IsString != 0
}

func intBits(t types.Type) int {
	b := under(t).(*types.Basic)
	switch b.Kind() {
	case types.Int8, types.Uint8:
		return 8
	case types.Int16, types.Uint16:
		return 16
	case types.Int32, types.Uint32:
		return 32
	case types.UntypedRune:
		return 32
	}
	return 64
}

func typeRange(t types.Type) (lo, hi *big.Int) {
	bits := intBits(t)
	if isUnsigned(t) {
		return big.NewInt(0), new(big.Int).Sub(new(big.Int).Lsh(big.NewInt(1), uint(bits)), big.NewInt(1))
	}
	h := new(big.Int).Lsh(big.NewInt(1), uint(bits-1))
	return new(big.Int).Neg(h), new(big.Int).Sub(h, big.NewInt(1))
}

// typeKey gives a stable short string for a type (used in heap leaf keys).
func typeKey(t types.Type) string {
	return types.TypeString(t, func(p *types.Package) string { return p.Name() })
}
