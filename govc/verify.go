package main

// Top-level verification of one function against its contract; lemmas; result collection.

import (
	"os"
	"fmt"
	"go/ast"
	"go/token"
	"go/types"
	"sort"
	"strings"

	"golang.org/x/tools/go/ssa"
)

type FuncResult struct {
	Key      string
	Obs      []*Obligation
	Err      string
	Paths    int
	Assumed  []string
	Inlined  []string
	Used     []string
	Loops    []string
	LoopsCut int
}

func (c *Ctx) curMem(o *Object) (Value, bool) {
	v, ok := c.initVals[o]
	return v, ok
}

// VerifyFunc verifies fn against sp. Panics of kind VerErr are converted into Err.
func (e *Engine) VerifyFunc(key string) (res *FuncResult) {
	res = &FuncResult{Key: key}
	fn := e.FindFunc(key)
	if fn == nil {
		res.Err = "UNDECIDED: function " + key + " not found in the working tree"
		return
	}
	sp := e.Specs.Funcs[key]
	if sp == nil {
		res.Err = "UNDECIDED: no contract for " + key
		return
	}
	c := NewCtx(e, fn, sp)
	c.initVals = map[*Object]Value{}
	c.globals = map[*ssa.Global]*Object{}
	defer func() {
		if r := recover(); r != nil {
			if ve, ok := r.(VerErr); ok {
				res.Err = ve.Msg
				res.Obs = c.Obs
				return
			}
			if _, ok := r.(pathDead); ok {
				res.Err = "internal: stray pathDead"
				return
			}
			if traceFlag {
				panic(r)
			}
			res.Err = fmt.Sprintf("INTERNAL: %v", r)
			res.Obs = c.Obs
		}
	}()
	c.verifyBody()
	res.Obs = c.Obs
	res.Paths = c.Paths
	for k := range c.Assumed {
		res.Assumed = append(res.Assumed, k)
	}
	for k := range c.Inlined {
		res.Inlined = append(res.Inlined, k)
	}
	for k := range c.UsedSpecs {
		res.Used = append(res.Used, k)
	}
	sort.Strings(res.Assumed)
	sort.Strings(res.Inlined)
	sort.Strings(res.Used)
	li := e.LoopsOf(fn)
	for _, l := range li.Loops {
		if sp.Loops[l.ID] != nil {
			res.LoopsCut++
			res.Loops = append(res.Loops, l.ID+":invariant")
		} else {
			res.Loops = append(res.Loops, l.ID+":evaluated")
		}
	}
	for id := range sp.Loops {
		found := false
		for _, l := range li.Loops {
			if l.ID == id {
				found = true
			}
		}
		if !found {
			// the loop structure changed: the invariants of the vanished loop are simply not used; whatever they
			// were needed for shows up as failing obligations elsewhere
			res.Assumed = append(res.Assumed, fmt.Sprintf("contract of %s names loop %s which does not exist in the code any more (ignored)", key, id))
		}
	}
	return
}

func (c *Ctx) verifyBody() {
	fn, sp := c.Fn, c.Spec
	if len(fn.Blocks) == 0 {
		panic(VerErr{"UNDECIDED: function has no body: " + fn.String()})
	}
	st := &State{Mem: map[*Object]Value{}, Heap: map[string]*Term{}, Ghost: map[string]Value{}, SymObjs: map[int]*Object{}, pcSeen: map[int]bool{}}
	st.PathID = c.newPathID()
	c.alloc0 = Var("alloc0", IntSort)
	st.Alloc = c.alloc0
	st.assume(Cmp(">=", c.alloc0, IntC(1), true))
	c.curState = st
	fr := &Frame{Fn: fn, Env: map[ssa.Value]Value{}, Block: fn.Blocks[0], Params: map[string]Value{}, Spec: sp}
	st.Frames = []*Frame{fr}
	for i, p := range fn.Params {
		v := c.symbolic(st, p.Type(), p.Name())
		if i == 0 && fn.Signature.Recv() != nil {
			if pv, ok := v.(PtrV); ok && pv.Sym != nil {
				st.assume(Not(Eq(pv.Sym, IntC(0))))
				c.Assumed["receiver is non-nil"] = true
			}
		}
		fr.Env[p] = v
		fr.Params[p.Name()] = v
		c.ParamVals = append(c.ParamVals, v)
	}
	for _, fv := range fn.FreeVars {
		fr.Env[fv] = c.symbolic(st, fv.Type(), fv.Name())
	}
	c.entryObjs = c.nobj
	// eager materialisation of pointer params so that old() sees them
	for _, p := range fn.Params {
		if pv, ok := fr.Env[p].(PtrV); ok && pv.Sym != nil {
			if _, isStruct := under(pv.Typ).(*types.Struct); isStruct {
				c.materialise(st, pv)
			}
		}
	}
	c.ghostAt(st, fr, "entry", nil)
	env := c.specEnvFor(st, fr) // binds the contract's `let` names in the entry state
	for _, rq := range sp.Requires {
		st.assume(c.evalBool(env, rq.Expr))
	}
	for _, a := range sp.Assumes {
		c.Assumed["contract clause of "+fnDisplay(fn)+" NOT verified on its body (callers assume it): "+a.Src] = true
	}
	if u := sp.Opts["under"]; u != "" {
		// `opt under <cond>`: the body is verified only for calls that satisfy cond (every ensures clause is expected to
		// carry cond as its antecedent); paths of other calls - their safety and their frame - are NOT checked
		ue, err := ParseSpecExpr(u)
		if err != nil {
			panic(VerErr{"SPEC-ERROR: opt under: " + err.Error()})
		}
		st.assume(c.evalBool(env, ue))
		c.Assumed["verified only for calls satisfying `"+u+"` (opt under): the other calls' paths, safety and frame are not checked"] = true
	}
	// vacuity guard: the precondition must be satisfiable
	c.Obs = append(c.Obs, &Obligation{Name: fnDisplay(fn) + "/vacuity:requires-satisfiable", Kind: "canary", Fn: fnDisplay(fn),
		PC: append([]*Term(nil), st.PC...), Claim: False(), Canary: true})
	fr.Old = st.snapshot()
	if sp.Pure {
		why := c.Eng.purityViolation(fn, map[*ssa.Function]bool{})
		c.Obs = append(c.Obs, &Obligation{Name: fnDisplay(fn) + "/pure", Kind: "pure", Fn: fnDisplay(fn), Claim: BoolT(why == ""), Src: "pure " + why})
	}
	nret := 0
	c.run(st, func(s *State, ret Value) {
		nret++
		c.atReturn(s, ret, nret)
	})
	if nret == 0 {
		c.Notes = append(c.Notes, "no path returns normally")
	}
}

func (c *Ctx) atReturn(st *State, ret Value, n int) {
	fr := st.Frames[0]
	sp := c.Spec
	c.curState = st
	if os.Getenv("GOVC_DEBUG_RET") != "" {
		nf := 0
		for _, t := range st.PC {
			if t.IsFalse() {
				nf++
			}
		}
		fmt.Printf("atReturn path=%d ret=%s pc=%d false-conjuncts=%d and-folds-false=%v\n", st.PathID, showValue(ret), len(st.PC), nf, And(st.PC...).IsFalse())
		os.WriteFile(fmt.Sprintf("/tmp/pc-path%d.smt2", st.PathID), []byte(Script(st.PC, nil, "", TS.Defs)), 0o644)
	}
	env := c.specEnvFor(st, fr)
	env.result = ret
	env.hasResult = true
	// named results
	rs := c.Fn.Signature.Results()
	for i := 0; i < rs.Len(); i++ {
		if nme := rs.At(i).Name(); nme != "" && nme != "_" {
			if rs.Len() == 1 {
				env.vars[nme] = ret
			} else {
				env.vars[nme] = ret.(*TupleV).V[i]
			}
		}
	}
	for _, g := range sp.Ghost {
		if g.At == "exit" {
			c.ghostAssign(env, g)
		}
	}
	base := fnDisplay(c.Fn)
	for i, en := range sp.Ensures {
		t := c.evalBool(env, en.Expr)
		lbl := en.Label
		if lbl == "" {
			lbl = fmt.Sprint(i + 1)
		}
		if os.Getenv("GOVC_DEBUG_RET") != "" {
			ts := t.String()
			if len(ts) > 80 {
				ts = ts[:80]
			}
			last := ""
			if n := len(st.PC); n > 0 {
				last = st.PC[n-1].String()
				if len(last) > 120 {
					last = last[:120]
				}
			}
			fmt.Printf("   ensures#%s = %s   [pc=%d last=%s]\n", lbl, ts, len(st.PC), last)
		}
		c.oblige(st, fmt.Sprintf("%s/ensures#%s", base, lbl), "ensures", t, en.Src, c.Fn.Pos())
		// vacuity guard: the antecedent of a conditional postcondition must be satisfiable on some returning path
		if en.Expr.Kind == "binary" && en.Expr.Op == "==>" && st.Disc == nil {
			func() {
				defer func() {
					if r := recover(); r != nil {
						if _, ok := r.(VerErr); !ok {
							panic(r)
						}
					}
				}()
				a := c.evalBool(env, en.Expr.Args[0])
				c.Obs = append(c.Obs, &Obligation{Name: fmt.Sprintf("%s/vacuity:antecedent#%s", base, lbl), Kind: "canary", Fn: base,
					PC: append(append([]*Term(nil), st.PC...), a), Claim: False(), Canary: true, Path: st.PathID, Src: en.Expr.Args[0].String()})
			}()
		}
	}
	c.curRet = ret
	c.checkCalls(st, fr, "return")
	c.checkFrame(st, fr)
	// exit canary: `false` at a normal exit must NOT be provable (some return path is feasible)
	c.Obs = append(c.Obs, &Obligation{Name: base + "/vacuity:exit-reachable", Kind: "canary", Fn: base,
		PC: append([]*Term(nil), st.PC...), Claim: False(), Canary: true, Path: st.PathID})
}

// checkFrame: every pre-existing location not named in `modifies` is unchanged.
func (c *Ctx) checkFrame(st *State, fr *Frame) {
	sp := c.Spec
	if len(sp.Modifies) == 0 {
		// no frame clause: callers havoc nothing, so the function is checked against `modifies nothing`
		sp.Modifies = []string{"nothing"}
	}
	base := fnDisplay(c.Fn)
	env := c.specEnvFor(st, fr)
	// evaluate modifies in the pre-state: locations
	var locs []location
	ghostOK := map[string]bool{}
	{
		sm, sh := st.Mem, st.Heap
		st.Mem, st.Heap = mergedOld(c, fr.Old), cloneHeap(fr.Old.Heap)
		for _, m := range sp.Modifies {
			m = strings.TrimSpace(m)
			if m == "nothing" {
				continue
			}
			if strings.HasPrefix(m, "ghost ") {
				ghostOK[strings.TrimSpace(m[6:])] = true
				continue
			}
			locs = append(locs, c.resolveLocation(env, m))
		}
		st.Mem, st.Heap = sm, sh
	}
	// engine objects that existed at entry
	type ov struct {
		o *Object
		v Value
	}
	var olds []ov
	for o, v := range fr.Old.Mem {
		olds = append(olds, ov{o, v})
	}
	for o, v := range c.initVals {
		if _, ok := fr.Old.Mem[o]; !ok {
			olds = append(olds, ov{o, v})
		}
	}
	sort.Slice(olds, func(i, j int) bool { return olds[i].o.ID < olds[j].o.ID })
	var claims []*Term
	for _, x := range olds {
		cur, ok := st.Mem[x.o]
		if !ok {
			continue
		}
		if identicalValue(cur, x.v) {
			continue
		}
		if _, isMap := cur.(*MapObj); isMap {
			covered := false
			for _, l := range locs {
				if l.kind == "map" && l.obj == x.o {
					covered = true
				}
			}
			if !covered && !identicalValue(cur, x.v) {
				claims = append(claims, False())
			}
			continue
		}
		c.frameDiff(st, x.o, nil, x.v, cur, locs, &claims)
	}
	if len(claims) > 0 {
		c.oblige(st, base+"/frame:objects", "frame", And(claims...), "modifies "+strings.Join(sp.Modifies, ", "), c.Fn.Pos())
	} else {
		c.oblige(st, base+"/frame:objects", "frame", True(), "modifies "+strings.Join(sp.Modifies, ", "), c.Fn.Pos())
	}
	// heap leaves
	var keys []string
	for k := range st.Heap {
		keys = append(keys, k)
	}
	sort.Strings(keys)
	var hclaims []*Term
	for _, k := range keys {
		h := st.Heap[k]
		h0, ok := fr.Old.Heap[k]
		if !ok {
			h0 = Var("heap0."+c.modeTag()+"."+sanitize(k), h.Sort)
		}
		if h == h0 {
			continue
		}
		r := BoundVar("r", IntSort)
		conds := []*Term{Cmp("<=", IntC(1), r, true), Cmp("<", r, c.alloc0, true)}
		for _, l := range locs {
			if l.kind != "heap" {
				continue
			}
			for _, lf := range c.leavesOf(l.elem) {
				if lf.Key == k && hasPrefix(lf.Path, l.sub) {
					conds = append(conds, Not(Eq(r, l.ref)))
				}
			}
		}
		hclaims = append(hclaims, Forall([]*Term{r}, Implies(And(conds...), Eq(Select(h, r), Select(h0, r)))))
	}
	c.oblige(st, base+"/frame:heap", "frame", And(hclaims...), "modifies "+strings.Join(sp.Modifies, ", "), c.Fn.Pos())
}

func mergedOld(c *Ctx, s *Snapshot) map[*Object]Value {
	m := make(map[*Object]Value, len(s.Mem)+len(c.initVals))
	for o, v := range c.initVals {
		m[o] = v
	}
	for o, v := range s.Mem {
		m[o] = v
	}
	return m
}

func (c *Ctx) frameDiff(st *State, o *Object, path []int, old, cur Value, locs []location, claims *[]*Term) {
	for _, l := range locs {
		if l.kind == "obj" && l.obj == o && hasPrefix(path, pathInts(l.path)) {
			return // covered
		}
	}
	if identicalValue(old, cur) {
		return
	}
	switch x := cur.(type) {
	case *StructV:
		y, ok := old.(*StructV)
		if ok && len(x.F) == len(y.F) {
			for i := range x.F {
				c.frameDiff(st, o, append(append([]int(nil), path...), i), y.F[i], x.F[i], locs, claims)
			}
			return
		}
	case *ArrayV:
		y, ok := old.(*ArrayV)
		if ok && len(x.Elems) == len(y.Elems) {
			for i := range x.Elems {
				c.frameDiff(st, o, append(append([]int(nil), path...), i), y.Elems[i], x.Elems[i], locs, claims)
			}
			return
		}
	}
	func() {
		defer func() {
			if r := recover(); r != nil {
				*claims = append(*claims, False())
			}
		}()
		if sl, ok := cur.(SliceV); ok {
			// slice headers: compare all four components
			osl := old.(SliceV)
			if sl.Heap && osl.Heap {
				*claims = append(*claims, And(Eq(sl.Ref, osl.Ref), Eq(sl.Off, osl.Off), Eq(sl.Len, osl.Len), Eq(sl.Cap, osl.Cap)))
				return
			}
			if !sl.Heap && !osl.Heap && sl.Obj == osl.Obj && sl.COff == osl.COff && sl.CLen == osl.CLen {
				return
			}
			*claims = append(*claims, False())
			return
		}
		*claims = append(*claims, c.valueEq(st, old, cur))
	}()
}

// ---- globals & literals ----

func (c *Ctx) globalObj(st *State, g *ssa.Global) *Object {
	if o, ok := c.globals[g]; ok {
		if _, present := st.Mem[o]; !present {
			st.Mem[o] = c.initVals[o]
		}
		return o
	}
	et := g.Type().(*types.Pointer).Elem()
	o := c.newObject("global."+g.Name(), et)
	var v Value
	if c.Eng.globalWritten(g) && !c.InitGlobals {
		v = c.symbolic(st, et, "global."+g.Name())
	} else if init := c.Eng.globalInit(g); init != nil && init.expr == nil {
		v = c.zeroValue(st, et)
		c.Assumed["package variable "+g.Pkg.Pkg.Name()+"."+g.Name()+" holds its initial (zero) value"] = true
	} else if init != nil {
		v = c.evalLit(st, init.expr, init.info, et)
		c.Assumed["package variable "+g.Pkg.Pkg.Name()+"."+g.Name()+" holds its initial (literal) value"] = true
	} else {
		v = c.symbolic(st, et, "global."+g.Name())
	}
	c.globals[g] = o
	c.initVals[o] = v
	st.Mem[o] = v
	return o
}

type globalInitInfo struct {
	expr ast.Expr
	info *types.Info
}

func (e *Engine) globalInit(g *ssa.Global) *globalInitInfo {
	p := e.PkgBy[g.Pkg.Pkg.Path()]
	if p == nil || p.TypesInfo == nil {
		return nil
	}
	obj := g.Object()
	if obj == nil {
		return nil
	}
	for _, f := range p.Syntax {
		for _, d := range f.Decls {
			gd, ok := d.(*ast.GenDecl)
			if !ok || gd.Tok != token.VAR {
				continue
			}
			for _, s := range gd.Specs {
				vs := s.(*ast.ValueSpec)
				for i, n := range vs.Names {
					if p.TypesInfo.Defs[n] == obj && len(vs.Values) == 0 {
						return &globalInitInfo{nil, p.TypesInfo}
					}
					if p.TypesInfo.Defs[n] == obj && i < len(vs.Values) && len(vs.Values) == len(vs.Names) {
						switch vs.Values[i].(type) {
						case *ast.CompositeLit, *ast.BasicLit:
							return &globalInitInfo{vs.Values[i], p.TypesInfo}
						case *ast.UnaryExpr:
							return &globalInitInfo{vs.Values[i], p.TypesInfo}
						case *ast.CallExpr:
							if id, ok := vs.Values[i].(*ast.CallExpr).Fun.(*ast.Ident); ok && id.Name == "make" {
								return &globalInitInfo{vs.Values[i], p.TypesInfo}
							}
						}
						if tv, ok := p.TypesInfo.Types[vs.Values[i]]; ok && tv.Value != nil {
							return &globalInitInfo{vs.Values[i], p.TypesInfo}
						}
					}
				}
			}
		}
	}
	return nil
}

// evalLit evaluates a literal expression (composite literals with constant leaves) into an engine value.
func (c *Ctx) evalLit(st *State, e ast.Expr, info *types.Info, want types.Type) Value {
	if tv, ok := info.Types[e]; ok && tv.Value != nil {
		t := tv.Type
		if want != nil {
			if b, ok := under(t).(*types.Basic); ok && b.Info()&types.IsUntyped != 0 {
				t = want
			}
		}
		v := c.constToValue(tv.Value, t)
		if u, ok := v.(UntypedInt); ok {
			return NumC(u.V, c.sortOfBasic(t))
		}
		if _, isIface := under(want).(*types.Interface); isIface && want != nil {
			return IfaceV{Dyn: tv.Type, Val: v, Iface: want}
		}
		return v
	}
	switch x := e.(type) {
	case *ast.ParenExpr:
		return c.evalLit(st, x.X, info, want)
	case *ast.UnaryExpr:
		if x.Op == token.AND {
			inner := c.evalLit(st, x.X, info, nil)
			t := info.Types[x.X].Type
			o := c.newObject("lit", t)
			st.Mem[o] = inner
			c.initVals[o] = inner
			return PtrV{Obj: o}
		}
	case *ast.Ident:
		if x.Name == "nil" {
			return c.zeroValue(st, want)
		}
		if x.Name == "true" || x.Name == "false" {
			return BoolT(x.Name == "true")
		}
	case *ast.CompositeLit:
		t := info.Types[x].Type
		switch u := under(t).(type) {
		case *types.Struct:
			sv := c.zeroValue(st, t).(*StructV)
			nsv := &StructV{Typ: t, F: append([]Value(nil), sv.F...)}
			for i, el := range x.Elts {
				if kv, ok := el.(*ast.KeyValueExpr); ok {
					name := kv.Key.(*ast.Ident).Name
					for f := 0; f < u.NumFields(); f++ {
						if u.Field(f).Name() == name {
							nsv.F[f] = c.evalLit(st, kv.Value, info, u.Field(f).Type())
						}
					}
				} else {
					nsv.F[i] = c.evalLit(st, el, info, u.Field(i).Type())
				}
			}
			return nsv
		case *types.Map:
			mo := &MapObj{}
			for _, el := range x.Elts {
				kv := el.(*ast.KeyValueExpr)
				k := c.evalLit(st, kv.Key, info, u.Key())
				v := c.evalLit(st, kv.Value, info, u.Elem())
				mo.Entries = append(mo.Entries, MapEntry{k, v})
			}
			o := c.newObject("maplit", t)
			st.Mem[o] = mo
			c.initVals[o] = mo
			return MapV{Obj: o, Typ: u}
		case *types.Slice, *types.Array:
			var elem types.Type
			if s, ok := u.(*types.Slice); ok {
				elem = s.Elem()
			} else {
				elem = u.(*types.Array).Elem()
			}
			var elems []Value
			idx := 0
			for _, el := range x.Elts {
				if kv, ok := el.(*ast.KeyValueExpr); ok {
					if tv, ok := info.Types[kv.Key]; ok && tv.Value != nil {
						bi, _ := constToBig(tv.Value)
						idx = int(bi.Int64())
					}
					el = kv.Value
				}
				for len(elems) <= idx {
					elems = append(elems, c.zeroValue(st, elem))
				}
				if cl, ok := el.(*ast.CompositeLit); ok && cl.Type == nil {
					// elided type
					elems[idx] = c.evalLit(st, el, info, elem)
				} else {
					elems[idx] = c.evalLit(st, el, info, elem)
				}
				idx++
			}
			if a, ok := u.(*types.Array); ok {
				for int64(len(elems)) < a.Len() {
					elems = append(elems, c.zeroValue(st, elem))
				}
				return &ArrayV{Elem: elem, Elems: elems}
			}
			o := c.newObject("slicelit", types.NewArray(elem, int64(len(elems))))
			av := &ArrayV{Elem: elem, Elems: elems}
			st.Mem[o] = av
			c.initVals[o] = av
			return SliceV{Elem: elem, Obj: o, CLen: len(elems), CCap: len(elems)}
		}
	case *ast.CallExpr:
		// make(map...) / conversion of constant
		if id, ok := x.Fun.(*ast.Ident); ok && id.Name == "make" {
			t := info.Types[x].Type
			if m, ok := under(t).(*types.Map); ok {
				o := c.newObject("makemap", t)
				mo := &MapObj{}
				st.Mem[o] = mo
				c.initVals[o] = mo
				return MapV{Obj: o, Typ: m}
			}
		}
	}
	unsupported("literal expression %T at %s", e, c.Eng.posStr(e.Pos()))
	return nil
}

// ---- lemmas ----

type LemmaResult struct {
	Name string
	Obs  []*Obligation
	Err  string
}

func (e *Engine) VerifyLemma(l *LemmaSpec) (res *LemmaResult) {
	res = &LemmaResult{Name: l.Name}
	c := NewCtx(e, nil, &FuncSpec{Arith: l.Arith, Float: l.Float})
	c.BV = l.Arith == "bv"
	c.FP = l.Float == "fp" || l.Float == "fpuf"
	c.initVals = map[*Object]Value{}
	c.globals = map[*ssa.Global]*Object{}
	defer func() {
		if r := recover(); r != nil {
			if ve, ok := r.(VerErr); ok {
				res.Err = ve.Msg
				return
			}
			panic(r)
		}
	}()
	st := &State{Mem: map[*Object]Value{}, Heap: map[string]*Term{}, Ghost: map[string]Value{}, SymObjs: map[int]*Object{}, pcSeen: map[int]bool{}}
	c.alloc0 = Var("alloc0", IntSort)
	st.Alloc = c.alloc0
	c.curState = st
	env := &SpecEnv{c: c, st: st, vars: map[string]Value{}, pkg: l.Pkg}
	for _, v := range l.Vars {
		s := c.specSort(env, v.Type)
		t := Var("lemma."+l.Name+"."+v.Name, s)
		env.vars[v.Name] = t
		if !c.BV {
			if bt := basicByName(v.Type); bt != nil {
				st.assume(c.rangeFact(t, bt))
			}
		}
	}
	for _, a := range l.Assume {
		st.assume(c.evalBool(env, a.Expr))
	}
	name := "lemma:" + l.Name
	res.Obs = append(res.Obs, &Obligation{Name: name + "/vacuity:assumptions-satisfiable", Kind: "canary", Fn: name, PC: append([]*Term(nil), st.PC...), Claim: False(), Canary: true})
	for i, p := range l.Prove {
		lbl := p.Label
		if lbl == "" {
			lbl = fmt.Sprint(i + 1)
		}
		t := c.evalBool(env, p.Expr)
		res.Obs = append(res.Obs, &Obligation{Name: name + "/prove#" + lbl, Kind: "lemma", Fn: name, PC: append([]*Term(nil), st.PC...), Claim: t, Src: p.Src})
	}
	return
}

func basicByName(n string) types.Type {
	for _, b := range types.Typ {
		if b.Name() == n {
			return b
		}
	}
	switch n {
	case "rune":
		return types.Typ[types.Int32]
	case "byte":
		return types.Typ[types.Uint8]
	}
	return nil
}

// purityViolation: syntactic purity (no writes to non-local memory, no channel/goroutine/defer effects,
// callees pure, intrinsic or builtin).  Reads of package variables are allowed (they are assumed to hold
// their initial values, which is recorded as an assumption whenever they are read).
func (e *Engine) purityViolation(fn *ssa.Function, seen map[*ssa.Function]bool) string {
	if seen[fn] {
		return ""
	}
	seen[fn] = true
	local := map[ssa.Value]bool{}
	for _, b := range fn.Blocks {
		for _, in := range b.Instrs {
			if a, ok := in.(*ssa.Alloc); ok {
				local[a] = true
			}
		}
	}
	var rootLocal func(v ssa.Value) bool
	rootLocal = func(v ssa.Value) bool {
		switch x := v.(type) {
		case *ssa.Alloc:
			return true
		case *ssa.FieldAddr:
			return rootLocal(x.X)
		case *ssa.IndexAddr:
			return rootLocal(x.X)
		}
		return false
	}
	for _, b := range fn.Blocks {
		for _, in := range b.Instrs {
			switch x := in.(type) {
			case *ssa.Store:
				if !rootLocal(x.Addr) {
					return "store to non-local memory in " + fn.String()
				}
			case *ssa.MapUpdate, *ssa.Send, *ssa.Go, *ssa.Defer, *ssa.Select:
				return fmt.Sprintf("%T in %s", in, fn.String())
			case *ssa.Call:
				cc := x.Common()
				if cc.IsInvoke() {
					return "interface call in " + fn.String()
				}
				if _, ok := cc.Value.(*ssa.Builtin); ok {
					continue
				}
				callee := cc.StaticCallee()
				if callee == nil {
					return "dynamic call in " + fn.String()
				}
				if _, ok := intrinsics[callee.String()]; ok {
					continue
				}
				if sp := e.SpecFor(callee); sp != nil && (sp.Pure || sp.Trusted) {
					continue
				}
				if len(callee.Blocks) == 0 {
					return "external call " + callee.String()
				}
				if w := e.purityViolation(callee, seen); w != "" {
					return w
				}
			}
		}
	}
	return ""
}

// globalWritten: some function of the package (other than init) stores into the package variable or into memory
// reached through it; such variables do not hold their initial value in general.
func (e *Engine) globalWritten(g *ssa.Global) bool {
	if e.gwritten == nil {
		e.gwritten = map[*ssa.Global]bool{}
		var root func(v ssa.Value) *ssa.Global
		root = func(v ssa.Value) *ssa.Global {
			switch x := v.(type) {
			case *ssa.Global:
				return x
			case *ssa.FieldAddr:
				return root(x.X)
			case *ssa.IndexAddr:
				return root(x.X)
			case *ssa.UnOp:
				return root(x.X)
			}
			return nil
		}
		for _, sp := range e.Prog.AllPackages() {
			if !strings.HasPrefix(sp.Pkg.Path(), modPath) {
				continue
			}
			var fns []*ssa.Function
			for _, m := range sp.Members {
				switch x := m.(type) {
				case *ssa.Function:
					fns = append(fns, x)
					fns = append(fns, x.AnonFuncs...)
				case *ssa.Type:
					for _, t := range []types.Type{x.Type(), types.NewPointer(x.Type())} {
						ms := e.Prog.MethodSets.MethodSet(t)
						for i := 0; i < ms.Len(); i++ {
							if f := e.Prog.MethodValue(ms.At(i)); f != nil {
								fns = append(fns, f)
								fns = append(fns, f.AnonFuncs...)
							}
						}
					}
				}
			}
			for _, f := range fns {
				if f.Name() == "init" || strings.HasPrefix(f.Name(), "init#") {
					continue
				}
				for _, b := range f.Blocks {
					for _, in := range b.Instrs {
						switch x := in.(type) {
						case *ssa.Store:
							if gg := root(x.Addr); gg != nil {
								e.gwritten[gg] = true
							}
						case *ssa.MapUpdate:
							if gg := root(x.Map); gg != nil {
								e.gwritten[gg] = true
							}
						}
					}
				}
			}
		}
	}
	return e.gwritten[g]
}

// identicalValue: cheap identity test on engine values (uncomparable dynamic types are simply "not identical").
func identicalValue(a, b Value) (same bool) {
	defer func() {
		if recover() != nil {
			same = false
		}
	}()
	return a == b
}
