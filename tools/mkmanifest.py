#!/usr/bin/env python3
# Regenerates /verif/MANIFEST.json from the table below (claimed checks) and the not_applicable reasons.
import json, subprocess
claimed = {
 "C12": dict(cat="proof",
   text="buildMouseEvent/clip proved bit-exactly over all 64-bit button codes and coordinates against the xterm button/modifier table and the clamp-into-screen spec; parseXtermMouse proved (loop invariants over the byte state machine) to decode ESC[M / 0x9b M reports to position-33, button byte-32; parseSgrMouse proved with ghost field positions and a recursive decimal-value spec function: every completed report has the CSI < B ; X ; Y (M|m) shape, consumes exactly the report, and the event equals the spec including the press/drag/idle-motion/release/wheel state machine (release and buttonless motion carry no buttons, drag keeps the button, wheel leaves the held state). All byte strings, all lengths.",
   note="Assumed: screen at least 1x1; numeric fields do not overflow int (math integers); wheel-left/right codes outside the property; bytes.Buffer methods executed from the standard library source; the direction 'every well-formed report is recognised' is not stated as a postcondition for the SGR parser (only for the X11 parser); 8-bit CSI reaching the parsers depends on the driver (C02).",
   technique="contract-based deductive verification: bit-vector contracts, loop invariants with ghost positions and a recursive spec function unfolded once per iteration", ref="6 (C12)"),
 "C16": dict(cat="proof",
   text="Bit-vector proofs over the full 64/32-bit input domains of every colour conversion (Valid, IsRGB, Hex, RGB, TrueColor, NewHexColor, NewRGBColor, PaletteColor) against contracts taken from the property; FindColor proved optimal and member-returning for every colour and every palette length by a cut loop with an inductive invariant (CIE76 as an uninterpreted function); every entry of the xterm-256 and W3C name tables decided by evaluating the real functions on it.",
   note="Assumed: go-colorful DistanceCIE76 is deterministic/total and is CIE76; float arithmetic abstracted to uninterpreted functions over IEEE doubles (comparisons exact); package tables hold their literal initial values; the CSS table in spec/std and the xterm formula are the oracle; CSS()/GetColor('#rrggbb')/FromImageColor string and interface paths are not under contract yet. Palette members must carry the valid flag (stated precondition).",
   technique="contract-based deductive verification: go/ssa WP-style symbolic execution + z3/cvc5, loop invariant for FindColor, exhaustive table evaluation on the real code", ref="6 (C16)"),
 "C03": dict(cat="proof",
   text="NewEventKey proved bit-exactly (all keys, runes, modifier masks): control runes become Key(ch) with Ctrl except BS/TAB/CR/ESC, DEL becomes Backspace2. For every registered terminal description (enumerated by evaluating the real init functions and AddTerminfo), the real prepareKeys is evaluated on the concrete description and the resulting table is checked exhaustively: prefix-freeness, every key capability present and decoding to a key the description assigns to it, xterm modifier parameter 2..16 on cursor/editing/function keys equals the xterm Shift/Alt/Ctrl/Meta formula, control bytes, and decoding of capability sequences (plain and after ESC: Alt added) through the real parseFunctionKey.",
   note="Assumed: xterm PC-style modifier encoding and terminfo capability naming as the oracle; map iteration evaluated in insertion order (quick) and also reverse order (thorough), order-independence otherwise rests on the proved prefix-freeness; decoding of concatenations rests on C02 (not yet claimed); lone ESC / timeout behaviour is part of the driver (C02).",
   technique="contract-based deductive verification: bit-vector contract for NewEventKey; evaluation rule (complete symbolic evaluation of the real code on each concrete description) for the tables", ref="6 (C03)"),
 "C07": dict(cat="proof",
   text="Every distinct parameterized string of every registered description (enumerated from the real init functions) and every sequence tcell hard-codes is evaluated by the REAL TParm with all nine parameters fully symbolic (64-bit vectors, every path) and compared path by path with a reference terminfo(5) evaluator written from the manual page; the real code's index/nil/division obligations along those evaluations are discharged too. Static variables are checked across two calls. Complete for those programs over all integers, not a sample.",
   note="Assumed: the reference evaluator (govc/ref_terminfo.go) is the oracle; Sprintf/Itoa renderings compared as opaque pieces by their arguments. The clause about ARBITRARY well-formed strings is only covered by a fixed grammar corpus of 32 programs (bounded stand-in, listed in the evidence, not counted as proved); robustness on malformed byte strings (no panic/hang for all inputs) is not proved (TParm's main loop has no inductive invariant).",
   technique="contract-based deductive verification, evaluation rule: complete symbolic evaluation of the real TParm on each concrete program against a reference semantics; z3/cvc5 for the per-path equalities", ref="6 (C07)"),
 "C14": dict(cat="proof",
   text="The registry is obtained by evaluating the real init functions and AddTerminfo; for every registered entry and alias: resolution, a cup string, colour count consistent with setaf/setab, every parameterized string well-formed per the terminfo(5) grammar and using only parameters the library supplies, key table (built by the real prepareKeys) prefix-free. The real LookupTerminfo is evaluated on every registered name, every synthesised -256color/-truecolor variant and unknown names with a SYMBOLIC environment (all COLORTERM / TCELL_TRUECOLOR values): result is the specified entry or ErrTermNotFound, direct colour on/off exactly as documented, standard 256-colour strings when synthesised, and no registered entry is modified by any lookup (the per-call frame condition that makes results independent of lookup history).",
   note="Assumed: terminfo(5) grammar, per-capability parameter counts and the standard colour strings are the oracle (tables in govc/c14.go); quick tier evaluates every unregistered/synthesised name and one third of the registered names, thorough all; the infocmp-based dynamic loader is outside the verifier's reach.",
   technique="contract-based deductive verification, evaluation rule over the concrete registry with symbolic environment; frame condition checked per lookup", ref="6 (C14)"),
 "C15": dict(cat="proof",
   text="For every registered description the REAL TGoto(col,row) and TColor(fg,bg) are evaluated with fully symbolic 64-bit arguments and proved equal, on every path, to the reference terminfo(5) evaluation of that description's own cup / setaf / setab strings with (row,col) resp. the folded and range-checked colour (bright colours folded iff Colors==8, component elided iff negative or >= Colors).",
   note="Assumed: the reference terminfo(5) evaluator is the oracle and cup takes (row, column); TPuts is decided by evaluating the real TPuts (with and without a pad character, sleeps as ghost events) on every database string that carries padding and on a fixed padding-grammar corpus against the property's strip definition - bounded for arbitrary strings (no inductive proof), listed as a bounded stand-in; 'the convention can express' is taken as what the description's own cup string defines.",
   technique="contract-based deductive verification, evaluation rule on each concrete description with symbolic positions/colours", ref="6 (C15)"),
 "C08": dict(cat="proof",
   text="Whole-view contracts on every CellBuffer operation (SetContent, GetContent, Dirty, SetDirty, Invalidate, LockCell, UnlockCell, Fill, Resize, Size) proved for all sizes, coordinates, runes, styles and combining slices: the cell written holds exactly what was set (fresh copy of the combining runes, ColorNone merged), every other cell and field is unchanged, out-of-range accesses do nothing, Dirty equals the specification predicate over the last-clean snapshot, wide-rune neighbours are dirtied, Resize keeps the overlap (2-D inductive invariants) and dirties/unlocks everything. Loops cut with inductive invariants; index arithmetic y*w+x is nonlinear and unbounded.",
   note="Assumed: go-runewidth RuneWidth is a total function with values 0..2; reflect.DeepEqual on []rune modelled as element-wise equality; machine integers treated as mathematical; Resize(w,h) requires w,h>=0; GetContent returns the internal combining slice (a caller mutating the returned slice is outside the property).",
   technique="contract-based deductive verification: representation predicate + whole-view postconditions + frame conditions, loop invariants, z3/cvc5 with quantifier patterns", ref="6 (C08)"),
 "C20": dict(cat="proof",
   text="Every ViewPort method that moves the window (ValidateView*, Scroll*, MakeVisible, Center, SetSize, SetContentSize) is proved to leave offset>=0 and offset+size<=limit (when the content is larger) from any pre-state; SetContent is proved to forward at most one call, only inside the rectangle, at content-offset+origin, with the same rune/style/combining slice; Fill is proved (two nested cut loops) to write only inside the rectangle. Unbounded integers, all geometries.",
   note="Assumed: parent View methods terminate and do not touch the ViewPort (assumed interface contracts); machine integers treated as mathematical (no overflow obligations); BoxLayout is not yet under contract (that half of C20 is not claimed).",
   technique="contract-based deductive verification: per-method pre/postconditions and frames, ghost call log for the parent View, loop invariants for Fill", ref="6 (C20)"),
}
na = {
 "C01": "whole-display fidelity needs the ghost-terminal class invariant over tScreen.draw/drawCell; not built (see DESIGN.md section 6, C01)",
}
props=[json.loads(l)["id"] for l in open("/verif/properties.jsonl")]
checks=[]
for pid in props:
    if pid in claimed:
        c=claimed[pid]
        checks.append({"property_id":pid,"quick_cmd":"./check %s quick"%pid,"thorough_cmd":"./check %s thorough"%pid,
          "evidence_file":"/verif/evidence/%s.json"%pid,"replay_cmd_template":"./check --replay {path}","engine":"govc",
          "level_claimed":{"category":c["cat"],"text":c["text"],"design_ref":"DESIGN.md section "+c["ref"]},
          "level_note":c["note"],"technique":c["technique"]})
nalist=[{"property_id":p,"reason":na.get(p,"not built yet (contracts for this property are not written; see DESIGN.md section 8 build order)")} for p in props if p not in claimed]
hooks=subprocess.run(["git","-C","/repo","log","--format=%h %s","--grep=^verif:"],capture_output=True,text=True).stdout.strip().split("\n")
m={"version":1,
 "setup_cmd":"cd /verif/govc && GOFLAGS=-mod=mod GOPROXY=off GOSUMDB=off GOTOOLCHAIN=local go build -o /verif/bin/govc .",
 "hooks":{"guard":"verif","enable":"-tags verif: the hook commits add only comment-only files (*_verif.go: //go:build verif, package clause, //@ contract lines) which govc reads as text; nothing is compiled differently",
   "baseline_off_cmd":"cd /repo && GOFLAGS=-mod=mod GOPROXY=off GOSUMDB=off GOTOOLCHAIN=local go test -vet=off -count=1 ./...",
   "source_commits":[h.split()[0] for h in hooks if h],"add_only":True},
 "engines":[{"name":"govc","path":"/verif/govc","serves_properties":sorted(claimed.keys()),
   "kind_free_text":"contract-based deductive verifier for Go written for this task: contracts as //@ comments in /repo (build tag verif), go/ssa of the working tree, symbolic execution with loops cut at invariants, named obligations discharged by z3 4.8.12 / z3 5.1.0 / cvc5 1.0, counterexamples replayed on the real code with go test -overlay"}],
 "checks":checks,
 "notes":"exit 0 = every obligation discharged; exit 1 + VIOLATION line = an obligation refuted (replayed) or a pinned-tree obligation now undischarged; exit 3 = undecided (construct outside the verifier's subset), never a VIOLATION line. known_findings.txt lists recorded defects.",
 "not_applicable":nalist}
json.dump(m,open("/verif/MANIFEST.json","w"),indent=1)
print("checks:",len(checks),"n/a:",len(nalist))
