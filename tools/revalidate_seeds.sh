#!/bin/bash
# Re-confirms every seeded change under /verif/seeded against the CURRENT /repo tree: the patch applies, builds, the
# existing suite passes, the demonstration passes without the change and fails with it.  usage: revalidate_seeds.sh [id ...]
export GOFLAGS=-mod=mod GOPROXY=off GOSUMDB=off GOTOOLCHAIN=local
one() {
  d=/verif/seeded/$1; id=$1; prop=${id%%-*}
  w=$(mktemp -d /tmp/seedchk-XXXXXX)
  rsync -a --exclude .git --exclude '*_verif.go' /repo/ $w/
  [ -f $d/prefix.diff ] && (cd $w && patch -p1 -s < $d/prefix.diff >/dev/null 2>&1)
  demo=$d/demo_test.go
  pkgdir=$(python3 -c "import json;print(json.load(open('$d/meta.json')).get('demo_pkg_dir','.'))" 2>/dev/null || echo .)
  demo_cmd=$(python3 -c "import json;print(json.load(open('$d/meta.json')).get('demo_cmd',''))" 2>/dev/null)
  run_demo() { (cd $w && cp $demo $pkgdir/zz_demo_test.go && timeout 300 bash -c "$demo_cmd" > $w/demo.log 2>&1; rc=$?; rm -f $pkgdir/zz_demo_test.go; return $rc); }
  status=""
  run_demo; pre=$?
  if ! (cd $w && patch -p1 -s < $d/patch.diff > /dev/null 2>&1); then status="patch-does-not-apply"; else
    (cd $w && go build ./... > build.log 2>&1) || status="build-fails"
    [ -z "$status" ] && { (cd $w && go test -vet=off -count=1 ./... > suite.log 2>&1) || status="suite-fails"; }
    if [ -z "$status" ]; then run_demo; post=$?; if [ $pre -eq 0 ] && [ $post -ne 0 ]; then status="confirmed"; else status="demo-pre=$pre-post=$post"; fi; fi
  fi
  echo "$id $status"
  rm -rf $w
}
export -f one
if [ $# -gt 0 ]; then ids="$*"; else ids=$(ls /verif/seeded | grep -- '-m'); fi
echo $ids | tr ' ' '\n' | xargs -P 6 -I{} bash -c 'one {}'
