#!/bin/bash
# Runs every seeded change under /verif/seeded/<Cxx>-m<k>/ against the check of its property (scratch copy of /repo,
# never /repo itself) and prints caught / MISSED / n-a.  usage: selftest.sh [Cxx ...]
claimed=$(python3 -c "import json;print(' '.join(c['property_id'] for c in json.load(open('/verif/MANIFEST.json'))['checks']))")
sel="$*"
for d in /verif/seeded/C*-m*; do
  id=$(basename $d); prop=${id%%-*}
  [ -n "$sel" ] && ! echo " $sel " | grep -q " $prop " && continue
  if ! echo " $claimed " | grep -q " $prop "; then echo "$id n-a (property not claimed)"; continue; fi
  w=$(mktemp -d /tmp/govc-scratch-XXXXXX)
  rsync -a --exclude .git /repo/ $w/
  [ -f $d/prefix.diff ] && (cd $w && patch -p1 -s < $d/prefix.diff)
  if ! (cd $w && patch -p1 -s < $d/patch.diff); then echo "$id patch-does-not-apply"; rm -rf $w; continue; fi
  out=$(VERIF_REPO=$w /verif/bin/govc check $prop quick 2>&1); rc=$?
  nviol=$(echo "$out" | grep -c "^VIOLATION")
  conf=$(echo "$out" | grep "^VIOLATION" | grep -vc "no-failing-input-found")
  if [ $rc -eq 1 ]; then echo "$id caught ($nviol violations, $conf replayed on the real code): $(echo "$out" | grep '^VIOLATION' | head -1 | sed 's/.*obligation=//' | cut -c1-120)";
  else echo "$id MISSED (exit $rc) $(echo "$out" | grep UNDECIDED | head -1 | cut -c1-150)"; fi
  rm -rf $w
done
