#!/bin/bash
# usage: try_check.sh <patch.diff> <Cxx> [tier]   -- run a property check against a scratch copy of /repo with the patch applied
set -u
patch="$1"; id="$2"; tier="${3:-quick}"
d=$(mktemp -d /tmp/govc-scratch-XXXXXX)
trap 'rm -rf "$d"' EXIT
rsync -a --exclude .git /repo/ "$d/"
( cd "$d" && patch -p1 -s < "$patch" ) || { echo "patch failed"; exit 3; }
VERIF_REPO="$d" /verif/bin/govc check "$id" "$tier"
echo "exit=$?"
