#!/bin/bash
# usage: try_patch.sh <patch.diff> -- <govc args...>
# Applies a patch to a scratch copy of /repo's HEAD+working contracts (outside /repo and /verif), runs govc on it, removes the copy.
set -u
patch="$1"; shift; shift
d=$(mktemp -d /tmp/govc-scratch-XXXXXX)
trap 'rm -rf "$d"' EXIT
rsync -a --exclude .git /repo/ "$d/"
( cd "$d" && patch -p1 -s < "$patch" ) || { echo "patch failed"; exit 3; }
VERIF_REPO="$d" /verif/bin/govc "$@"
