#!/bin/bash
# Confirms every candidate seeded change under /tmp/seed/<Cxx>/_out/m<k>: applies to /repo HEAD, builds, existing suite
# passes, demonstration fails with the change and passes without it.  Confirmed ones are copied to /verif/seeded/<Cxx>-m<k>/.
export GOFLAGS=-mod=mod GOPROXY=off GOSUMDB=off GOTOOLCHAIN=local
out=/verif/seeded
mkdir -p $out
for d in /tmp/seed/C*/_out/m*; do
  id=$(echo $d | sed 's|/tmp/seed/\(C[0-9]*\)/_out/\(m[0-9][0-9]*\)|\1-\2|')
  [ -f "$d/patch.diff" ] || continue
  prop=${id%%-*}
  w=$(mktemp -d /tmp/seedchk-XXXXXX)
  rsync -a --exclude .git --exclude '*_verif.go' /repo/ $w/
  status=""
  pfx=/tmp/seed/$prop/_out/prefix.diff
  if [ "$prop" = "C19" ] && [ -f $pfx ]; then (cd $w && patch -p1 -s < $pfx) || status="prefix-failed"; fi
  demo=$(ls $d/*_test.go 2>/dev/null | head -1)
  pkgdir=$(python3 -c "import json;print(json.load(open('$d/meta.json')).get('demo_pkg_dir','.'))" 2>/dev/null || echo .)
  demo_cmd=$(python3 -c "import json;print(json.load(open('$d/meta.json')).get('demo_cmd',''))" 2>/dev/null)
  # strip env prefix and any 'cd' from demo_cmd; run from worktree root
  run_demo() { (cd $w && cp $demo $pkgdir/zz_demo_test.go && timeout 300 bash -c "$demo_cmd" > $w/demo.log 2>&1; rc=$?; rm -f $pkgdir/zz_demo_test.go; return $rc); }
  if [ -z "$status" ]; then
    run_demo; pre=$?
    if ! (cd $w && patch -p1 -s < $d/patch.diff); then status="patch-does-not-apply"; else
      (cd $w && go build ./... > build.log 2>&1) || status="build-fails"
      if [ -z "$status" ]; then
        (cd $w && go test -vet=off -count=1 ./... > suite.log 2>&1) || status="suite-fails"
      fi
      if [ -z "$status" ]; then
        run_demo; post=$?
        if [ $pre -eq 0 ] && [ $post -ne 0 ]; then status="confirmed"; else status="demo-pre=$pre-post=$post"; fi
      fi
    fi
  fi
  echo "$id $status"
  if [ "$status" = "confirmed" ]; then
    mkdir -p $out/$id && cp $d/patch.diff $out/$id/ && cp $demo $out/$id/demo_test.go && [ -f $pfx ] && [ "$prop" = "C19" ] && cp $pfx $out/$id/prefix.diff
    python3 - <<PY
import json
m=json.load(open("$d/meta.json"))
m["confirmed_by"]="tools/validate_seeds.sh: on a scratch copy of /repo HEAD the demonstration passed before the change, the change applied and built, the existing suite passed, the demonstration failed with the change"
m["repo_head"]="$(git -C /repo log --format=%h -1)"
json.dump(m,open("$out/$id/meta.json","w"),indent=1)
PY
  fi
  rm -rf $w
done
